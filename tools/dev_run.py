"""dev helper: run only the harness part of a property (no build/audit):  dev_run.py C01 [quick|thorough]"""
import importlib, json, os, sys, time
sys.path.insert(0, os.path.dirname(os.path.abspath(__file__)))
import vlib
from check import Ctx
sys.path.insert(0, vlib.REPO)
prop = sys.argv[1]; tier = sys.argv[2] if len(sys.argv) > 2 else 'quick'
mod = importlib.import_module(f'props.{prop}')
rep = vlib.Report(prop, tier, 0)
ctx = Ctx(prop, tier, int(os.environ.get('VERIF_SEED', '0')), rep, vlib.FastModel(), [])
t = time.time()
getattr(mod, sys.argv[3] if len(sys.argv) > 3 else 'run')(ctx)
print(f'{time.time()-t:.1f}s cases={rep.evaluations} distinct={len(rep.distinct)} disagreements={len(rep.disagreements)} violations={len(rep.violations)} internal={len(rep.internal_errors)}')
print('dist', json.dumps(rep.dist)[:1500])
for d in rep.disagreements[:8]: print('DISAGREE', json.dumps(d, default=str)[:600])
seen=set()
for v in rep.violations:
    k=json.dumps(v['signature'],sort_keys=True)
    if k in seen: continue
    seen.add(k); print('VIOL', v['what'][:300])
    if len(seen)>25: break
for e in rep.internal_errors[:3]: print('INTERNAL', e)
