#!/venv/bin/python
"""Turn every `fix:` commit of /repo into a seeded change: the reverse of the repair, applied to the present HEAD
(seeded/<Cxx>-R<k>/patch.diff + meta.json).  The defect the fix repaired is genuine, passes the existing test-suite (that is
why it was a finding), and must be reported again by the property's check if it ever returns -- `fixed` entries of
known_findings.json suppress nothing.  Confirmed in a scratch worktree: the reverse patch applies to HEAD and the unedited
test-suite still passes with it.  Usage: tools/import_reverts.py"""
import json
import os
import subprocess
import sys

VERIF = os.path.dirname(os.path.dirname(os.path.abspath(__file__)))
REPO = '/repo'
WT = '/tmp/me/revert_wt'


def sh(cmd, **kw):
    p = subprocess.run(cmd, stdout=subprocess.PIPE, stderr=subprocess.STDOUT, **kw)
    return p.returncode, p.stdout.decode('utf-8', 'replace')


def main():
    fixed = [f for f in json.load(open(os.path.join(VERIF, 'known_findings.json'))) if f.get('status') == 'fixed']
    by_commit = {}
    for f in fixed:
        by_commit.setdefault(f['commit'], []).append(f)
    sh(['git', '-C', REPO, 'worktree', 'remove', '--force', WT])
    rc, out = sh(['git', '-C', REPO, 'worktree', 'add', '-q', '--detach', WT, 'HEAD'])
    if rc:
        print(out)
        return 2
    head = sh(['git', '-C', REPO, 'rev-parse', 'HEAD'])[1].strip()
    counters = {}
    try:
        for commit, recs in by_commit.items():
            props = sorted({r['property'] for r in recs})
            subject = sh(['git', '-C', REPO, 'log', '-1', '--format=%s', commit])[1].strip()
            sh(['git', '-C', WT, 'checkout', '-q', '--', '.'])
            rc, out = sh(['git', '-C', WT, 'revert', '--no-commit', commit])
            if rc:
                sh(['git', '-C', WT, 'revert', '--abort'])
                sh(['git', '-C', WT, 'reset', '-q', '--hard', 'HEAD'])
                print(f'{commit[:7]} {subject[:70]}: the reverse does not apply cleanly to HEAD any more (later repairs touch the same lines) -- skipped')
                continue
            diff = sh(['git', '-C', WT, 'diff', 'HEAD'])[1]
            rc, out = sh(['/venv/bin/python', '-m', 'pytest', '-q', '-p', 'no:cacheprovider', '--timeout=900'], cwd=WT,
                         env=dict(os.environ, PYTHONPATH=WT))
            tail = out.strip().splitlines()[-1] if out.strip() else ''
            sh(['git', '-C', WT, 'revert', '--abort'])
            sh(['git', '-C', WT, 'reset', '-q', '--hard', 'HEAD'])
            if rc:
                print(f'{commit[:7]} {subject[:70]}: test-suite fails with the reverse applied ({tail}) -- skipped')
                continue
            p = props[0]
            counters[p] = counters.get(p, 0) + 1
            sid = f'{p}-R{counters[p]}'
            d = os.path.join(VERIF, 'seeded', sid)
            os.makedirs(d, exist_ok=True)
            open(os.path.join(d, 'patch.diff'), 'w').write(diff)
            json.dump({'id': sid, 'property': p, 'checks': props, 'origin': 'reverse of a repair made in this project',
                       'reverts': commit, 'subject': subject, 'base_commit': head,
                       'needs_to_manifest': '; '.join(r.get('what', '')[:200] for r in recs)[:600],
                       'confirmed': [{'cmd': 'reverse patch applies to HEAD', 'rc': 0},
                                     {'cmd': 'existing test-suite with the change', 'rc': 0, 'tail': tail}]},
                      open(os.path.join(d, 'meta.json'), 'w'), indent=1)
            print(f'{sid}: reverse of {commit[:7]} {subject[:80]} ({tail})')
    finally:
        sh(['git', '-C', REPO, 'worktree', 'remove', '--force', WT])
    return 0


if __name__ == '__main__':
    sys.exit(main())
