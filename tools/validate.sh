#!/bin/bash
# development helper: MANIFEST.json and every evidence file validate against the schemas; no merge-conflict markers anywhere
cd "$(dirname "$0")/.." || exit 2
python3-vt - <<'P'
import json, glob, sys, jsonschema
ok = True
try:
    jsonschema.validate(json.load(open('MANIFEST.json')), json.load(open('/root/.vp/MANIFEST.schema.json')))
except Exception as e:
    ok = False; print('MANIFEST.json:', str(e)[:200])
sch = json.load(open('/root/.vp/EVIDENCE.schema.json'))
m = json.load(open('MANIFEST.json'))
for c in m['checks']:
    f = c['evidence_file']
    try:
        ev = json.load(open(f)); jsonschema.validate(ev, sch)
        if ev.get('violations'):
            ok = False; print(f, 'records violations', ev['violations'])
        cov = ev['coverage']
        if cov.get('obligations') != cov.get('discharged'):
            ok = False; print(f, 'obligations != discharged')
    except Exception as e:
        ok = False; print(f, 'BAD:', str(e)[:160])
print('validate:', 'ok' if ok else 'PROBLEMS')
sys.exit(0 if ok else 1)
P
rc=$?
if git grep -n -E '^(<<<<<<<|>>>>>>>) ' -- . ':!tools/validate.sh' | head -5 | grep .; then echo "conflict markers found"; rc=1; fi
exit $rc
