#!/venv/bin/python
"""Run the registered checks against the seeded changes under /verif/seeded/<id>/ (patch.diff, demo*.py, meta.json).

usage: run_seeded.py [--tier quick|thorough] [--seed N] [--demo] [--all-checks [--jobs N]] [id ...]
(--all-checks: run EVERY registered check against each change, N at a time, and write the matrix seeded/MATRIX.md)
For each seeded change: make sure /repo is clean, `git -C /repo apply patch.diff`, (optionally run the demonstration),
run ./check <P> for every P in meta["checks"] (default: the property it breaks), record exit code and VIOLATION lines,
and ALWAYS undo the change (`git -C /repo checkout -- .`).  Results go to seeded/<id>/result.json and seeded/RESULTS.md.
Nothing here is part of a registered check; it is the development tool behind DESIGN.md's detection table."""
import json
import os
import subprocess
import sys
import time

VERIF = os.path.dirname(os.path.dirname(os.path.abspath(__file__)))
REPO = os.environ.get('VERIF_REPO', '/repo')
SEEDED = os.path.join(VERIF, 'seeded')
ALL_PROPS = ['C%02d' % i for i in range(1, 21)]


def sh(cmd, **kw):
    p = subprocess.run(cmd, shell=isinstance(cmd, str), stdout=subprocess.PIPE, stderr=subprocess.STDOUT, **kw)
    return p.returncode, p.stdout.decode('utf-8', 'replace')


def repo_clean():
    rc, out = sh(['git', '-C', REPO, 'status', '--porcelain', '--untracked-files=no'])
    return out.strip() == ''


def main(argv):
    tier = 'quick'
    demo = False
    all_checks = False
    jobs = 6
    ids = []
    i = 0
    while i < len(argv):
        if argv[i] == '--tier':
            tier = argv[i + 1]
            i += 2
        elif argv[i] == '--demo':
            demo = True
            i += 1
        elif argv[i] == '--all-checks':
            all_checks = True
            i += 1
        elif argv[i] == '--jobs':
            jobs = int(argv[i + 1])
            i += 2
        elif argv[i] == '--seed':
            os.environ['VERIF_SEED'] = argv[i + 1]      # the checks read it (default 0; `vp check` uses 1)
            i += 2
        else:
            ids.append(argv[i])
            i += 1
    if not ids:
        ids = sorted(d for d in os.listdir(SEEDED) if os.path.isfile(os.path.join(SEEDED, d, 'meta.json')))
    if not repo_clean():
        print('refusing to run: /repo has uncommitted changes to tracked files')
        return 2
    rows = []
    for sid in ids:
        d = os.path.join(SEEDED, sid)
        meta = json.load(open(os.path.join(d, 'meta.json')))
        checks = meta.get('checks') or [meta['property']]
        if all_checks:
            checks = ALL_PROPS
        rc, out = sh(['git', '-C', REPO, 'apply', '--3way', os.path.join(d, 'patch.diff')])
        if rc != 0:
            rc, out = sh(['git', '-C', REPO, 'apply', os.path.join(d, 'patch.diff')])
        res = {'id': sid, 'property': meta['property'], 'tier': tier, 'seed': int(os.environ.get('VERIF_SEED', '0')),
               'applied': rc == 0, 'checks': {}}
        try:
            if rc != 0:
                res['apply_error'] = out[-500:]
            else:
                if demo:
                    for f in sorted(os.listdir(d)):
                        if f.startswith('demo') and f.endswith('.py'):
                            drc, dout = sh(['/venv/bin/python', os.path.join(d, f)], env=dict(os.environ, PYTHONPATH=REPO),
                                           timeout=600)
                            res.setdefault('demo', {})[f] = {'rc': drc, 'tail': dout[-300:]}
                def one(p):
                    t0 = time.time()
                    crc, cout = sh([os.path.join(VERIF, 'check'), p, '--tier', tier], cwd=VERIF, timeout=7200,
                                   env=dict(os.environ, VERIF_EVIDENCE_DIR=os.path.join(SEEDED, '.evidence_scratch')))
                    viol = [l for l in cout.splitlines() if l.startswith('VIOLATION')]
                    concrete = [v for v in viol if 'no-failing-input-found' not in v]
                    reproduces = None
                    if concrete and not all_checks:
                        # the recorded replay must reproduce the failure on the changed tree (while the change is applied)
                        rpath = concrete[0].split('replay=')[1].split()[0]
                        rrc, rout = sh([os.path.join(VERIF, 'check'), p, '--replay', rpath], cwd=VERIF, timeout=1800,
                                       env=dict(os.environ, VERIF_EVIDENCE_DIR=os.path.join(SEEDED, '.evidence_scratch')))
                        reproduces = rrc == 1 and any(l.startswith('VIOLATION') for l in rout.splitlines())
                    return p, {'rc': crc, 'violations': viol[:5], 'wall_s': round(time.time() - t0, 1),
                               'concrete': bool(concrete), 'replay_reproduces': reproduces,
                               'tail': cout[-600:]}
                if all_checks:
                    one(meta['property'])      # first alone: it rebuilds whatever the change invalidates
                    from concurrent.futures import ThreadPoolExecutor
                    with ThreadPoolExecutor(jobs) as pool:
                        for p, r in pool.map(one, checks):
                            res['checks'][p] = r
                else:
                    for p in checks:
                        res['checks'][p] = one(p)[1]
        finally:
            sh(['git', '-C', REPO, 'reset', '-q'])
            sh(['git', '-C', REPO, 'checkout', '--', '.'])
        res['detected'] = any(c['rc'] == 1 and c['violations'] for c in res['checks'].values())
        with open(os.path.join(d, 'matrix.json' if all_checks else 'result.json'), 'w') as fh:
            json.dump(res, fh, indent=1)
        rows.append(res)
        print(f"{sid}: applied={res['applied']} detected={res['detected']} "
              + ' '.join(f"{p}:rc={c['rc']}{'(concrete)' if c['concrete'] else ''}"
                         f"{'' if c.get('replay_reproduces') in (None, True) else '(REPLAY-DOES-NOT-REPRODUCE)'}"
                         for p, c in res['checks'].items()),
              flush=True)
    # summary over everything that has a result
    lines = ['# Seeded changes: which checks catch which (generated by tools/run_seeded.py)', '',
             '| seeded change | breaks | applied | detected | by (exit code, concrete replay?) |', '|---|---|---|---|---|']
    for sid in sorted(os.listdir(SEEDED)):
        rp = os.path.join(SEEDED, sid, 'result.json')
        if not os.path.exists(rp):
            continue
        r = json.load(open(rp))
        by = '; '.join(f"{p}: exit {c['rc']}{(', concrete replay' + (' (reproduces)' if c.get('replay_reproduces') else ' (NOT reproduced by --replay)' if c.get('replay_reproduces') is False else '')) if c['concrete'] else (', no-failing-input-found' if c['violations'] else '')}"
                       for p, c in r['checks'].items())
        lines.append(f"| {sid} | {r['property']} | {r['applied']} | {'yes' if r['detected'] else 'NO'} | {by} |")
    with open(os.path.join(SEEDED, 'RESULTS.md'), 'w') as fh:
        fh.write('\n'.join(lines) + '\n')
    # the matrix over all checks, for the changes that have one
    mats = []
    for sid in sorted(os.listdir(SEEDED)):
        mp = os.path.join(SEEDED, sid, 'matrix.json')
        if os.path.exists(mp):
            mats.append(json.load(open(mp)))
    if mats:
        out = ['# Every registered check against every seeded change (generated by tools/run_seeded.py --all-checks)', '',
               'V = VIOLATION with a concrete replay, v = VIOLATION ... no-failing-input-found (a proof or the correspondence broke, '
               'no failing input of THIS property found), . = exit 0, E = exit 2 (internal error).', '',
               '| change | ' + ' | '.join(p[1:] for p in ALL_PROPS) + ' |', '|---|' + '---|' * len(ALL_PROPS)]
        for r in mats:
            row = []
            for p in ALL_PROPS:
                c = r['checks'].get(p)
                row.append('?' if c is None else ('V' if c['rc'] == 1 and c['concrete'] else 'v' if c['rc'] == 1 else
                                                  '.' if c['rc'] == 0 else 'E'))
            out.append(f"| {r['id']} | " + ' | '.join(row) + ' |')
        with open(os.path.join(SEEDED, 'MATRIX.md'), 'w') as fh:
            fh.write('\n'.join(out) + '\n')
    return 0


if __name__ == '__main__':
    sys.exit(main(sys.argv[1:]))
