"""Emitters for the table-like Gen files (field tables, dispatch, converters, alphabets, constants)."""
EMITTERS = []
