"""C05, reader level (C05b-d): iterating a stream reader / feeding an NMEAQueue never raises, with or without a tag block
queue; malformed lines are skipped; intact messages that share no reassembly slot with a malformed line are delivered
unchanged.

Model: Model/Reader.v (= produce + tag block queue + one loop iteration, composed as the readers do).
Correspondence: extracted rd_run vs IterMessages / NMEAQueue(.put_line + get_or_none) on the same LINES, per line.
Oracle: (1) no exception leaves the reader; (2) isolation: the deliveries of the untainted slots are the ones of the same
sequence with the bad lines removed."""
import os
import sys

sys.path.insert(0, os.path.dirname(os.path.abspath(__file__)))
import nmea_common as nc  # noqa: E402
import stream_common as sc  # noqa: E402

READERS = [('IterMessages', 'stream'), ('NMEAQueue', 'queue')]


def bad_lines(ctx, frag_lines, n):
    """malformed lines derived from this schedule's own valid sentences (so that they hit the same slots) + fixed ones"""
    rng = ctx.rng
    out = []
    pool = list(sc.MALFORMED_INSCOPE) + list(sc.MALFORMED_OUT) + [s for _, s in nc.specials()]
    for _ in range(n):
        r = rng.random()
        if frag_lines and r < 0.55:
            good = rng.choice(frag_lines)
            k = rng.randrange(len(good))
            how = rng.randrange(6)
            if how == 0:
                out.append(good[:k] + good[k + 1:])                                       # delete a byte
            elif how == 1:
                out.append(good[:k] + bytes([rng.choice(nc.MUT_BYTES)]) + good[k:])       # insert a byte
            elif how == 2:
                out.append(good[:k] + bytes([rng.choice(nc.MUT_BYTES)]) + good[k + 1:])   # substitute a byte
            elif how == 3:
                out.append(good[:k])                                                      # truncate
            elif how == 4:
                f = good.split(b',')
                j = rng.randrange(len(f))
                f[j] = rng.choice(nc.TOKENS)
                out.append(b','.join(f))                                                  # field x token
            else:
                tb = rng.choice([b's:x', b's:x*1*2', b's:x*zz', b'*00', b'', b'c:\xff*00', b'g:1-2*00', b's:x*'])
                out.append(b'\\' + tb + b'\\' + good)                                     # malformed tag block in front
        elif r < 0.75:
            # numbers that are individually acceptable but do not fit together, or are huge
            seq, chan = rng.choice(['', '1', '3', '9']), rng.choice(['A', 'B', '1'])
            cnt, num = rng.choice([(2, 3), (1, 9), (1, 2), (2, 100), (100, 100), (100, 1), (3, 99), (9, 10), (5, 77)])
            body = f'AIVDM,{cnt},{num},{seq},{chan},15M67FC000G?ufbE`FepT@3n00Sa,0'.encode()
            out.append(b'!' + body + b'*' + format(nc.xor(body), '02X').encode())
        elif r < 0.85:
            big = rng.choice(['2147483648', '4294967296', str(10 ** 19), str(10 ** 30), '-2147483649'])
            f = ['PGHP', '1', '2020', '12', '31', '23', '59', '58', '239', '0', '0', '0', '1', '2C']
            f[rng.choice([2, 3, 4, 5, 6, 7, 8, 12])] = big
            body = ','.join(f).encode()
            out.append(b'$' + body + b'*' + format(nc.xor(body), '02X').encode())
        else:
            out.append(rng.choice(pool))
    return out


def classify(line):
    """what the real parser makes of a line: ('ais', slot or None for a single) | ('gh',) | ('skip', class name)"""
    from pyais.messages import NMEASentenceFactory, AISSentence
    try:
        s = NMEASentenceFactory.produce(line)
    except Exception as e:   # noqa: BLE001
        return ('skip', type(e).__name__)
    if isinstance(s, AISSentence):
        if s.is_single:
            return ('ais', None, s.raw.hex())
        return ('ais', (-1 if s.seq_id is None else s.seq_id, s.channel), s.raw.hex())
    return ('gh',)


def obs(c):
    a = c[1]
    return (a['raw'], a['payload'], a['bits'], a['valid'], a['seq'], a['chan'])


def slot_of_attrs(a):
    single = (not a['seq']) and a['cnt'] == 1 and a['num'] == 1 and '0a' not in a['raw']
    return None if single else (-1 if a['seq'] is None else a['seq'], a['chan'])


_RUNS = sc.READER_RUNS      # shared with stream_common.run_case: a later case's replay may need these runs as well
_RUNS_OFF = []


def check_sequence(ctx, seq_items, injected, label):
    """seq_items: schedule items (dicts with 'hex'); injected: list of (position, bytes) of bad lines to splice in."""
    rep, model = ctx.rep, ctx.model
    clean = [bytes.fromhex(x['hex']) for x in seq_items]
    full, is_bad = [], []
    inj = sorted(injected, key=lambda t: t[0])
    k = 0
    for i, l in enumerate(clean + [None]):
        while k < len(inj) and inj[k][0] <= i:
            full.append(inj[k][1])
            is_bad.append(True)
            k += 1
        if l is not None:
            full.append(l)
            is_bad.append(False)
    tainted, bad_raws = set(), set()
    for l, b in zip(full, is_bad):
        if b:
            c = classify(l)
            if c[0] == 'ais':
                bad_raws.add(c[2])
                if c[1] is not None:
                    tainted.add(c[1])
    # a failure caused by what EARLIER reader / queue objects left behind (class-level state in the library) only reproduces
    # after those earlier runs: the replay refers to the runs made before it in this process (shared list + position)
    for tbq in (False, True):
        for name, loop in READERS:
            rep.case((label, name, tbq, tuple(full)), kind=f'{label}:{name}:{"tbq" if tbq else "plain"}')
            earlier = {'runs': _RUNS, 'upto': len(_RUNS)}
            res = sc.run_frontend(name, full, tbq)
            if not _RUNS_OFF:
                _RUNS.append([name, tbq, [l.hex() for l in full]])
                _RUNS.append([name, tbq, [l.hex() for l in clean]])
            replay = {'entry': name, 'tbq': tbq, 'lines': [l.hex() for l in full], 'clean': [l.hex() for l in clean],
                      'tainted': [list(t) for t in tainted], 'bad_raws': sorted(bad_raws), 'earlier': earlier}
            if res['exc'] is not None:
                rep.violation({'entry': name, 'component': 'reader-loop', 'kind': f'escaped-exception:{res["exc"]}',
                               'tbq': tbq},
                              f'{name}{" with a tag block queue" if tbq else ""} raised {res["exc"]} while reading '
                              f'{len(full)} lines (first lines {[l[:60] for l in full[:3]]})', replay)
                continue
            # correspondence with the composed model, per line
            if model:
                reply = model.ask('rdrun %s %d %s' % (loop, 1 if tbq else 0, ' '.join(sc.hx(l) for l in full)))
                if reply.startswith('ERROR'):
                    raise RuntimeError(reply[:300])
                if reply.endswith('?uni'):
                    rep.count('skipped:non-ascii-int-oracle-consulted')
                else:
                    outs, fin = reply.split(' # ')
                    mper = [([] if o.split(';')[0] == '=' else o.split(';')[0][1:].split(',')) for o in outs.split('|')] \
                        if outs else []
                    iper = [[c[0] for c in cell] for cell in res['per']] if res['per'] is not None else None
                    if fin != 'Ok' or (iper is not None and mper != iper):
                        first = next((j for j, (a, b) in enumerate(zip(mper, iper or [])) if a != b), None)
                        rep.disagree('H-reader', {'entry': name, 'tbq': tbq, 'lines': [l.hex() for l in full],
                                                  'first_differing_line': first}, fin + ' ' + str(mper[first] if first is not None else '')[:300],
                                     str(iper[first] if first is not None and iper else res['exc'])[:300])
            # isolation oracle against the run without the bad lines
            base = sc.run_frontend(name, clean, tbq)
            if base['exc'] is not None:
                continue      # the clean schedule itself is refused: reported by the case with no injection
            keep = lambda c: (slot_of_attrs(c[1]) not in tainted) and c[1]['raw'] not in bad_raws \
                and not any(r in c[1]['raw'] for r in bad_raws)   # noqa: E731
            want = [obs(c) for c in base['flat'] if keep(c)]
            got = [obs(c) for c in res['flat'] if keep(c)]
            if want != got:
                miss = [w for w in want if w not in got]
                extra = [g for g in got if g not in want]
                kind = 'lost' if miss and not extra else ('foreign-delivery' if extra and not miss else 'changed')
                rep.violation({'entry': name, 'component': 'deliveries-of-untouched-slots', 'kind': kind, 'tbq': tbq},
                              f'{name}: with {sum(is_bad)} malformed lines spliced in, the intact messages of untouched slots are '
                              f'not delivered unchanged ({kind}: {len(miss)} missing, {len(extra)} extra); e.g. '
                              f'{(miss or extra)[0][0][:80]}', replay)
    if len(ctx.rep.samples) < 6 and injected:
        rep.sample({'kind': label, 'lines': [l.decode('latin-1')[:90] for l in full[:8]], 'bad positions': [p for p, _ in inj][:8]})


def run(ctx, n_seq=None):
    rng = ctx.rng
    n_seq = n_seq if n_seq is not None else ctx.budget(60, 900)
    for n in range(n_seq):
        k = rng.choice([1, 2, 3, 4, 6])
        items = sc.gen_schedule(rng, k, max_frag=rng.choice([3, 5, 9]), p_incomplete=0.15, tagged=0.3, out_noise=0.5)
        frag_lines = [bytes.fromhex(x['hex']) for x in items if x.get('kind') == 'frag']
        nbad = rng.choice([0, 1, 1, 2, 3, 6])
        bads = bad_lines(ctx, frag_lines, nbad)
        injected = [(rng.randrange(len(items) + 1), b) for b in bads]
        check_sequence(ctx, items, injected, 'schedule+bad-lines' if injected else 'schedule')
    # every fixed malformed line alone and between the two fragments of a message, in both readers
    a = sc.make_message(rng, 0, 2, 3, 'A')
    for b in list(sc.MALFORMED_INSCOPE) + list(sc.MALFORMED_OUT) + [s for _, s in nc.specials()][:40]:
        check_sequence(ctx, a, [(1, b)], 'fixed-bad-line-inside-message')
    neighbour_slot_cases(ctx)
    many_pending_slots(ctx)
    preprocessor_cases(ctx)


def neighbour_slot_cases(ctx):
    """A damaged fragment whose (sequence id, channel) differs from an intact multi-part message only in a way a sloppy slot
    key would confuse (sequence id 0 vs none, channel '' vs 'A', ...) arrives between that message's fragments: the intact
    message shares no slot with it and must be delivered unchanged."""
    rng = ctx.rng
    pairs = [((None, 'A'), ('0', 'A')), ((0, 'A'), ('', 'A')), ((None, 'B'), ('0', 'B')), ((1, 'A'), ('1', 'B')),
             ((1, ''), ('1', 'A')), ((9, 'A'), ('', 'A')), ((None, ''), ('0', ''))]
    for (sq, ch), (bsq, bch) in pairs:
        for nfrag in (2, 3):
            good = sc.make_message(rng, 0, nfrag, sq, ch, bad_checksums=0)
            for num in range(1, nfrag + 1):
                body = f'AIVDM,{nfrag},{num},{bsq},{bch},55P5TL01VIaAL@7WKO@mBplU@<PDhh000000001S;AJ::4A80?4i@E53,0'.encode()
                bad = b'!' + body + b'*' + format(nc.xor(body) ^ 0x21, '02X').encode()      # stale checksum: damaged on the air
                for where in range(1, nfrag):
                    check_sequence(ctx, good, [(where, bad)], 'damaged-fragment-in-neighbour-slot')


def many_pending_slots(ctx):
    """An intact two-fragment message with 70..150 malformed-but-parseable fragment lines of OTHER slots between its
    fragments (damaged sequence id / channel fields: ids 10..99, channels X, Y, Z): none of them shares its slot, so it must
    be delivered unchanged, by both loops (a bounded table of pending slots shows only here)."""
    rng = ctx.rng
    for n in ((70, 150) if ctx.quick else (64, 65, 70, 150, 300)):
        good = sc.make_message(rng, 0, 2, 3, 'A', bad_checksums=0)
        bads = []
        pairs = [(sq, ch) for sq in range(10, 100) for ch in 'XYZ']
        rng.shuffle(pairs)
        for sq, ch in pairs[:n]:
            body = f'AIVDM,2,1,{sq},{ch},55P5TL01VIaAL@7WKO@mBplU@<PDhh000000001S;AJ::4A80?4i@E53,0'.encode()
            bads.append(b'!' + body + b'*' + format(nc.xor(body), '02X').encode())
        check_sequence(ctx, good, [(1, b) for b in bads], 'many-pending-slots')


class _StripPrefix:
    """a preprocessor in the style of tests/test_preprocess.py: `[timestamp] <sentence>` -> `<sentence>`; a line without a
    sentence becomes b''"""

    def process(self, line):
        return line.split(b'] ', 1)[1] if b'] ' in line else b''


def preprocessor_cases(ctx):
    """Stream readers configured with a preprocessor (non-default): lines that the preprocessor turns into b'' or into
    garbage must be skipped like any other malformed line -- nothing may escape the iteration and the other messages must
    still arrive."""
    import pyais.stream as ps
    rng, rep = ctx.rng, ctx.rep
    for rnd in range(ctx.budget(6, 60)):
        msgs = [sc.make_message(rng, i, rng.choice([1, 2]), rng.choice([1, 2, None]), rng.choice('AB'), bad_checksums=0)
                for i in range(3)]
        lines, want = [], 0
        for m in msgs:
            for f in m:
                lines.append(b'[2024-07-19 08:45:28.500] ' + bytes.fromhex(f['hex']) + b'\n')
            want += 1
            lines.append(rng.choice([b'[2024-07-19 08:45:28.500] \n', b'[2024-07-19 08:45:28.500]\n', b'no bracket at all here\n',
                                     b'[x] \n' + b' ' * 12, b'[2024] !\n' + b' ' * 8, b'[2024-07-19 08:45:28.500] $\n']))
        for name, mk in (('ByteStream', lambda: ps.ByteStream(lines, preprocessor=_StripPrefix())),
                         ('BinaryIOStream', lambda: ps.BinaryIOStream(__import__('io').BytesIO(b''.join(lines)),
                                                                      preprocessor=_StripPrefix()))):
            rep.case(('preprocessor', name, tuple(lines)), kind='preprocessor:' + name)
            try:
                got = len(list(mk()))
            except Exception as e:   # noqa: BLE001
                rep.violation({'entry': name, 'component': 'reader-loop', 'kind': f'escaped-exception:{type(e).__name__}',
                               'tbq': False, 'preprocessor': True},
                              f'{name} with a preprocessor raised {type(e).__name__} while reading {len(lines)} lines '
                              f'(a line the preprocessor reduces to nothing)',
                              {'entry': name, 'preprocessor': 'strip-prefix', 'lines': [l.hex() for l in lines]})
                continue
            if got != want:
                rep.violation({'entry': name, 'component': 'deliveries-of-untouched-slots', 'kind': 'lost', 'tbq': False,
                               'preprocessor': True},
                              f'{name} with a preprocessor delivered {got} of {want} intact messages',
                              {'entry': name, 'preprocessor': 'strip-prefix', 'lines': [l.hex() for l in lines], 'want': want})


def hunt(ctx):
    run(ctx, n_seq=ctx.budget(600, 3000))


def replay(ctx, data):
    lines = [bytes.fromhex(h) for h in data['lines']]
    if data.get('preprocessor'):
        import io
        import pyais.stream as ps
        try:
            r = ps.ByteStream(lines, preprocessor=_StripPrefix()) if data['entry'] == 'ByteStream' else \
                ps.BinaryIOStream(io.BytesIO(b''.join(lines)), preprocessor=_StripPrefix())
            got = len(list(r))
        except Exception as e:   # noqa: BLE001
            return f"{data['entry']} with a preprocessor raised {type(e).__name__}"
        return None if got == data.get('want', got) else f"{data['entry']} with a preprocessor delivered {got} messages"
    e = data.get('earlier') or {}
    for name, tbq, hexes in e.get('runs', [])[:e.get('upto', 0)]:      # the reader runs made before it in the recorded run
        sc.run_frontend(name, [bytes.fromhex(h) for h in hexes], tbq)
    res = sc.run_frontend(data['entry'], lines, data.get('tbq', False))
    if res['exc'] is not None:
        return f"{data['entry']} raised {res['exc']}"
    if 'clean' in data:
        base = sc.run_frontend(data['entry'], [bytes.fromhex(h) for h in data['clean']], data.get('tbq', False))
        tainted = {tuple(t) for t in data.get('tainted', [])}
        bad_raws = set(data.get('bad_raws', []))
        keep = lambda c: (slot_of_attrs(c[1]) not in tainted) and not any(r in c[1]['raw'] for r in bad_raws)   # noqa: E731
        if base['exc'] is None and [obs(c) for c in base['flat'] if keep(c)] != [obs(c) for c in res['flat'] if keep(c)]:
            return 'intact messages of untouched slots are not delivered as without the malformed lines'
    return None
