"""C19 -- a filter chain passes exactly the messages that satisfy every filter.

Model: coq/Model/Filter.v (pyais/filter.py statement by statement, generators as yielded-prefix + end/exception, the
distance function abstract).  Correspondence: the extracted model -- fed with the distance values measured on the
implementation's own haversine -- against list(FilterChain([...]).filter(IterMessages(lines))) on REAL decoded
messages.  Oracle: the conjunction filter of coq/Spec/FilterSpec.v (extracted) on the implementation's output, plus
order independence (all/some permutations) and "nothing raises".

Numeric part (a TEST, not a proof): pyais.filter.haversine against an independent 60-digit evaluation of the
great-circle distance (unit vectors + atan2 in decimal arithmetic, no libm), see `numeric`."""
import functools
import inspect
import itertools
import math
import os
import subprocess
import sys
from decimal import Decimal, getcontext
from fractions import Fraction

sys.path.insert(0, os.path.dirname(os.path.dirname(os.path.abspath(__file__))))
import ais  # noqa: E402

GEN = ['GenTables.v', 'GenEnums.v']
RULE = ('a case = (sentence list, chain of 1..5 filters, one order of the chain); sentences are generated payloads of all 27 '
        'message types (random bits at nominal length, crafted positions incl. lat/lon 0.0, 91/181, out-of-range latitudes, '
        'duplicates, position reports of types 1-4, 9, 11, 17, 18, 19, 21, 27 cut before/inside/between/after the coordinates, '
        'carriers of a communication state (types 1-4, 9, 11, 18, 26) complete and cut before/inside the radio field, '
        'two-sentence messages, undecodable sentences in a separate malformed stream), decoded by IterMessages + decode(); '
        'attribute names of NoneFilter and of the attribute-reading user predicates range over every field AND every computed '
        'attribute (property / class constant, found by reflection over the class of each decoded message) and absent names; '
        'filter parameters are generated around the decoded positions incl. a threshold equal to the implementation\'s own '
        'haversine of a (reference, position) pair and its two float neighbours, grid edges equal to a position\'s '
        'coordinate and their float neighbours; every chain is run in all (<=3 filters; all lengths in the thorough tier) or '
        'some of its orders with fresh filter objects; distinct = distinct (sentences, chain order); numeric part: '
        '(reference, position) pairs incl. exact and near antipodes, over-the-pole twins, equal points')
ASSUMPTIONS = [
    'a filter object belongs to one chain (FilterChain.__init__ links the objects it is given by mutation: objects are '
    'created fresh for every chain and every order)',
    'filter parameters are finite ints/floats (no nan/inf); attribute names given to NoneFilter are message fields, computed '
    'attributes (properties such as is_sotdma / is_itdma / communication_state_raw, class constants) or names that no message '
    'has -- not methods, not names starting with an underscore',
    'decoded-message shape (hypotheses coords_numeric, attr_reads_ok of the theorems; the extracted predicates are evaluated '
    'on every really decoded message, internal error if one falls outside): lat/lon absent, None or numbers; reading any '
    'attribute returns a value or raises TypeError/ValueError',
    'great-circle distance = distance on the sphere of radius 6371 km (the constant of the implementation); haversine is '
    'required to agree with it to 1e-6 km, and to 1e-3 km where the haversine form is ill-conditioned (within 1 km of the '
    'antipode, or a latitude outside [-90, 90], which a 27-bit latitude field can carry)',
    'user predicates of the correspondence check are the six lambdas of Model/Filter.v upred (the theorems hold for any)',
]
TRUSTED_EXTRA = [
    'Spec/FilterSpec.v is written from the property text (a computed attribute that cannot be evaluated for a message is '
    'not present); coq/Prim/PyObj.v models hasattr/getattr (reading may raise)/is None/truthiness/'
    'numeric comparison of attribute values by hand; coq/Prim/Rat.v compares ints/floats as exact rationals',
    'NOT PROVED, tested on every run: pyais.filter.haversine (libm, binary64) = great-circle distance within the stated '
    'tolerance and raises nothing on real arguments; the reference is 60-digit decimal arithmetic in this file '
    '(cross-checked against mpmath in the thorough tier)',
    'is_in_grid is modelled by hand (the translator does not emit it); tie = correspondence incl. every grid edge',
]

R_KM = 6371

# ------------------------------------------------------------------------------------------------------------------
# sentence generation (independent of pyais: ITU-R M.1371 offsets)
# (type id, nominal bits, lon offset, lon bits, lat offset, lat bits, units per degree)
POSITION_TYPES = {
    0: (168, 61, 28, 89, 27, 600000),      # message id 0 is decoded with the layout of type 1 and KEEPS msg_type == 0
    1: (168, 61, 28, 89, 27, 600000), 2: (168, 61, 28, 89, 27, 600000), 3: (168, 61, 28, 89, 27, 600000),
    4: (168, 79, 28, 107, 27, 600000), 11: (168, 79, 28, 107, 27, 600000), 9: (168, 61, 28, 89, 27, 600000),
    17: (80, 40, 18, 58, 17, 10), 18: (168, 57, 28, 85, 27, 600000), 19: (312, 57, 28, 85, 27, 600000),
    21: (272, 164, 28, 192, 27, 600000), 27: (96, 44, 18, 62, 17, 600),
}
NOMINAL = {5: 424, 6: 168, 7: 72, 8: 168, 10: 72, 12: 168, 13: 72, 14: 168, 15: 88, 16: 96, 20: 72, 22: 168, 23: 160, 24: 160,
           25: 168, 26: 168}
NOMINAL.update({t: v[0] for t, v in POSITION_TYPES.items()})


def rand_bits(rng, n):
    return format(rng.getrandbits(n), f'0{n}b') if n else ''


def twos(v, w):
    return format(v & ((1 << w) - 1), f'0{w}b')


def payload(rng, t, lat=None, lon=None, length=None):
    """Random payload of type t; with lat/lon (degrees, Fraction/float/int) placed at the ITU offsets."""
    n = NOMINAL[t] if length is None else length
    if t in (6, 8, 12, 14, 26) and length is None and rng.random() < 0.3:
        n += 6 * rng.randrange(0, 40)
    bits = list(format(t, '06b') + rand_bits(rng, n - 6))
    if t in POSITION_TYPES and (lat is not None or lon is not None):
        _, lo, lw, la, aw, unit = POSITION_TYPES[t]
        if lon is not None:
            bits[lo:lo + lw] = twos(int(round(Fraction(lon) * unit)), lw)
        if lat is not None:
            bits[la:la + aw] = twos(int(round(Fraction(lat) * unit)), aw)
    if t == 24:
        bits[38:40] = rng.choice(['00', '01'])
    return ''.join(bits)[:n]


def sentences_of(rng, bits, seq):
    ch = rng.choice('AB')
    return ais.bits_to_sentences(bits, channel=ch, seq=seq, talker=rng.choice(['AIVDM', 'AIVDO', 'BSVDM']))


# ------------------------------------------------------------------------------------------------------------------
# canonical forms
def frac_token(x):
    f = Fraction(x)
    return f'{f.numerator}:{f.denominator}'


def value_token(v):
    if v is None:
        return 'N'
    if isinstance(v, (int, float)):            # bool, IntEnum, float enums included
        if isinstance(v, float) and (v != v or v in (float('inf'), float('-inf'))):
            return None
        return 'r' + frac_token(v)
    return 'o1' if v else 'o0'


# Computed attributes: what a decoded message offers to getattr() besides the fields of asdict() -- Python properties
# (is_sotdma, is_itdma, communication_state_raw of CommunicationStateMixin), cached properties, class constants.  Found by
# REFLECTION over the class of every message the harness decodes (never from a hand-written list); methods and names
# starting with an underscore are left out (see ASSUMPTIONS).
_COMPUTED_OF_CLASS = {}
COMPUTED_SEEN = {}           # name -> set of outcomes seen on pool messages ('value' / 'None' / exception class name)


def computed_names(m):
    if isinstance(m, Synth):
        return list(m._computed)
    cls = type(m)
    names = _COMPUTED_OF_CLASS.get(cls)
    if names is None:
        fields = set(m.asdict())
        names = []
        for name in dir(cls):
            if name.startswith('_') or name in fields:
                continue
            a = inspect.getattr_static(cls, name)
            if isinstance(a, (property, functools.cached_property)) or \
                    not (callable(a) or isinstance(a, (classmethod, staticmethod))):
                names.append(name)
        _COMPUTED_OF_CLASS[cls] = names
    return names


def read_token(m, name):
    """What evaluating m.<name> does: the value's token, or 'x' + the class name of the exception raised.
    -> (token or None when the value has no token (nan/inf), exception or None)"""
    try:
        v = getattr(m, name)
    except RecursionError:
        raise
    except Exception as e:
        return 'x' + type(e).__name__, e
    return value_token(v), None


def msg_token(m):
    """The model's view of a decoded message: msg_type + what reading every attribute does -- every field of asdict() and
    every computed attribute as None / exact number / other / raises <ExceptionClass>."""
    parts = [str(int(m.msg_type))]
    fields = list(m.asdict())
    for k in fields + [c for c in computed_names(m) if c not in fields]:
        tok, _ = read_token(m, k)
        if tok is None:
            return None
        parts.append(f'{k}={tok}')
    return ','.join(parts)


def shape_problem(m):
    """The hypotheses of the theorems about a DECODED message, evaluated on the real object (the extracted predicates
    coords_numeric / attr_reads_ok are evaluated on its token as well, reply field SHAPE): lat/lon absent, None or numbers;
    msg_type an int; reading any attribute returns a value or raises TypeError / ValueError.  -> text or None"""
    for a in ('lat', 'lon'):
        try:
            v = getattr(m, a, None)
        except Exception as e:
            return f'reading {a} raises {type(e).__name__}'
        if not (v is None or isinstance(v, (int, float))):
            return f'non-numeric {a}'
    if not isinstance(m.msg_type, int):
        return 'non-int msg_type'
    for k in list(m.asdict()) + computed_names(m):
        _, e = read_token(m, k)
        if e is not None and not isinstance(e, (TypeError, ValueError)):
            return f'reading {k} raises {type(e).__name__} (neither TypeError nor ValueError)'
        if e is not None and type(e).__name__ not in KNOWN_EXN:
            return f'reading {k} raises {type(e).__name__}, a class the model does not have'
    return None


def content_key(m):
    extra = repr(sorted(m._computed.items())) if isinstance(m, Synth) else ''
    return (type(m).__name__, repr(sorted(m.asdict().items(), key=lambda kv: kv[0])) + extra)


def num(x):
    """JSON form of a filter parameter: ints stay ints, floats exactly as hex."""
    return x if isinstance(x, int) and not isinstance(x, bool) else float(x).hex()


def unnum(x):
    return float.fromhex(x) if isinstance(x, str) else x


# ------------------------------------------------------------------------------------------------------------------
# filters: spec tuples <-> pyais objects <-> driver tokens <-> text
PRED_SRC = {
    'c': 'lambda m: {0}', 'nn': 'lambda m: getattr(m, {0!r}, None) is not None', 'has': 'lambda m: hasattr(m, {0!r})',
    'tr': 'lambda m: getattr(m, {0!r}, None)', 'lt': 'lambda m: getattr(m, {0!r}) < {1!r}', 'te': 'lambda m: m.msg_type == {0}',
}


def pred_source(p):
    kind = p[0]
    if kind == 'c':
        return PRED_SRC['c'].format(bool(p[1]))
    if kind == 'lt':
        return PRED_SRC['lt'].format(p[1], unnum(p[2]))
    return PRED_SRC[kind].format(p[1])


def build_filter(f):
    from pyais.filter import AttributeFilter, DistanceFilter, GridFilter, MessageTypeFilter, NoneFilter
    k = f[0]
    if k == 'N':
        return NoneFilter(*f[1])
    if k == 'T':
        return MessageTypeFilter(*f[1])
    if k == 'D':
        return DistanceFilter((unnum(f[1][0]), unnum(f[1][1])), unnum(f[2]))
    if k == 'G':
        return GridFilter(*[unnum(x) for x in f[1:5]])
    if k == 'A':
        return AttributeFilter(eval(pred_source(f[1])))
    raise ValueError(f)


def filter_token(f):
    k = f[0]
    if k == 'N':
        return ','.join(['N'] + list(f[1]))
    if k == 'T':
        return ','.join(['T'] + [str(t) for t in f[1]])
    if k == 'D':
        return 'D,' + ','.join(frac_token(unnum(x)) for x in (f[1][0], f[1][1], f[2]))
    if k == 'G':
        return 'G,' + ','.join(frac_token(unnum(x)) for x in f[1:5])
    p = f[1]
    if p[0] == 'c':
        return f'A,c.{int(bool(p[1]))}'
    if p[0] == 'lt':
        return f'A,lt.{p[1]}.{frac_token(unnum(p[2]))}'
    return f'A,{p[0]}.{p[1]}'


def filter_text(f):
    k = f[0]
    if k == 'N':
        return 'NoneFilter(' + ', '.join(repr(a) for a in f[1]) + ')'
    if k == 'T':
        return 'MessageTypeFilter(' + ', '.join(str(t) for t in f[1]) + ')'
    if k == 'D':
        return f'DistanceFilter(({unnum(f[1][0])!r}, {unnum(f[1][1])!r}), {unnum(f[2])!r})'
    if k == 'G':
        return 'GridFilter(' + ', '.join(repr(unnum(x)) for x in f[1:5]) + ')'
    return f'AttributeFilter({pred_source(f[1])})'


def chain_text(fs):
    return 'FilterChain([' + ', '.join(filter_text(f) for f in fs) + '])'


def cls_name(f):
    return {'N': 'NoneFilter', 'T': 'MessageTypeFilter', 'D': 'DistanceFilter', 'G': 'GridFilter', 'A': 'AttributeFilter'}[f[0]]


# ------------------------------------------------------------------------------------------------------------------
# the implementation, through its public API
class Synth:
    """A message-like object of an arbitrary attribute shape (as the mock messages of tests/test_filters.py): used only for
    the shapes no decoder output has (lat a number while lon is None, a coordinate attribute missing, a str coordinate,
    computed attributes whose getter raises TypeError / ValueError / something else), which the model and the theorems
    cover as well.  Build with make_synth(): computed attributes are real Python properties of a per-object subclass."""

    def __init__(self, msg_type, attrs, computed=None):
        self._attrs = dict(attrs)
        self._computed = dict(computed or {})       # name -> ('v', value) | ('x', exception class name)
        self.msg_type = msg_type
        for k, v in attrs.items():
            setattr(self, k, v)

    def asdict(self):
        d = {'msg_type': self.msg_type}
        d.update(self._attrs)
        return d

    def decode(self):
        return self

    def __repr__(self):
        comp = {k: (v[1] if v[0] == 'v' else f'<raises {v[1]}>') for k, v in self._computed.items()}
        return f'Synth({self.asdict()!r}' + (f', properties={comp!r})' if comp else ')')


SYNTH_EXN = {'TypeError': lambda: TypeError("'<=' not supported between instances of 'NoneType' and 'int'"),
             'ValueError': lambda: ValueError('Communication State is only available for messages with radio field'),
             'UnicodeDecodeError': lambda: UnicodeDecodeError('ascii', b'\xff', 0, 1, 'ordinal not in range(128)'),
             'KeyError': lambda: KeyError('radio'), 'IndexError': lambda: IndexError('list index out of range'),
             'AttributeError': lambda: AttributeError('no such attribute'),
             'ZeroDivisionError': lambda: ZeroDivisionError('division by zero')}


def _getter(spec):
    if spec[0] == 'v':
        return lambda self: spec[1]

    def raiser(self):
        raise SYNTH_EXN[spec[1]]()
    return raiser


def make_synth(msg_type, attrs, computed=None):
    if not computed:
        return Synth(msg_type, attrs)
    cls = type('Synth', (Synth,), {name: property(_getter(tuple(spec))) for name, spec in computed.items()})
    return cls(msg_type, attrs, {k: tuple(v) for k, v in computed.items()})


def _val_json(v):
    return v if v is None else 's:' + v if isinstance(v, str) else num(v)


def _val_unjson(v):
    return v if v is None else (v[2:] if isinstance(v, str) and v.startswith('s:') else unnum(v))


def synth_json(o):
    j = [o.msg_type, {k: _val_json(v) for k, v in o._attrs.items()}]
    if o._computed:
        j.append({k: ['v', _val_json(v[1])] if v[0] == 'v' else ['x', v[1]] for k, v in o._computed.items()})
    return j


def synth_from_json(j):
    comp = {k: ('v', _val_unjson(v[1])) if v[0] == 'v' else ('x', v[1]) for k, v in (j[2] if len(j) > 2 else {}).items()}
    return make_synth(j[0], {k: _val_unjson(v) for k, v in j[1].items()}, comp)


def src_json(src):
    """The stream source as it goes into a replay file."""
    if src and isinstance(src[0], Synth):
        return {'synthetic': [synth_json(o) for o in src]}
    return {'lines': [ln.decode('latin-1') for ln in src]}


def src_text(src):
    if src and isinstance(src[0], Synth):
        return repr(list(src))
    return 'IterMessages(' + repr([ln.decode('latin-1') for ln in src]) + ')'


def make_stream(src):
    """IterMessages over sentence lines, or the synthetic objects themselves (each is its own 'sentence')."""
    import pyais
    if src and isinstance(src[0], Synth):
        return iter(src)
    return pyais.IterMessages(src)


def run_impl(fs, lines):
    """list(FilterChain([...]).filter(IterMessages(lines))) observed message by message.
    -> ('RAISE', name) | (yielded messages, 'end' | exception class name)"""
    import pyais
    from pyais.filter import FilterChain
    try:
        chain = FilterChain([build_filter(f) for f in fs])
    except Exception as e:
        return 'RAISE', type(e).__name__
    out, term = [], 'end'
    try:
        for m in chain.filter(make_stream(lines)):
            out.append(m)
    except RecursionError:
        raise
    except Exception as e:
        term = type(e).__name__
    return out, term


WARM = {'N': ('N', ['mmsi']), 'T': ('T', [63]), 'D': ('D', [[0, 1], [0, 1]], [1, 1]), 'G': ('G', [0, 1], [0, 1], [0, 1], [0, 1])}


def run_impl_reconfigured(fs, lines):
    """The same chain, but its filter objects were constructed with OTHER parameters, used once, and then given the parameters
    of `fs` through their public attributes (attrs / types / ref_lat_lon, distance_km / lat_min.. / ff): what a filter does
    must follow its current parameters.  -> like run_impl"""
    from pyais.filter import FilterChain
    warm = [WARM.get(f[0], f) for f in fs]
    try:
        objs = [build_filter(w if w[0] != 'D' else ('D', [num(0.0), num(0.0)], num(1.0))) if w[0] != 'G'
                else build_filter(('G', num(0.0), num(0.0), num(0.0), num(0.0))) for w in warm]
        chain = FilterChain(objs)
        for _ in chain.filter(make_stream(lines)):
            pass
    except Exception:      # noqa: BLE001 -- the warm-up run is not judged
        pass
    try:
        for o, f in zip(objs, fs):
            k = f[0]
            if k == 'N':
                o.attrs = tuple(f[1])
            elif k == 'T':
                o.types = tuple(f[1])
            elif k == 'D':
                o.ref_lat_lon = (unnum(f[1][0]), unnum(f[1][1]))
                o.distance_km = unnum(f[2])
            elif k == 'G':
                o.lat_min, o.lon_min, o.lat_max, o.lon_max = [unnum(x) for x in f[1:5]]
            elif k == 'A':
                o.ff = eval(pred_source(f[1]))
    except Exception as e:      # noqa: BLE001
        return 'RAISE', type(e).__name__
    out, term = [], 'end'
    try:
        for m in chain.filter(make_stream(lines)):
            out.append(m)
    except RecursionError:
        raise
    except Exception as e:      # noqa: BLE001
        term = type(e).__name__
    return out, term


def decode_stream(lines):
    """What the chain's generator expression will see: the sentences of IterMessages, each decoded (or the class of the
    exception its decode() raises)."""
    items = []
    for s in make_stream(lines):
        try:
            items.append(s.decode())
        except Exception as e:
            items.append(e)
    return items


KNOWN_EXN = {'InvalidNMEAMessageException', 'InvalidNMEAChecksum', 'UnknownMessageException', 'MissingMultipartMessageException',
             'TooManyMessagesException', 'UnknownPartNoException', 'InvalidDataTypeException', 'NonPrintableCharacterException',
             'MissingPayloadException', 'ValueError', 'UnicodeDecodeError', 'IndexError', 'TypeError', 'KeyError', 'OverflowError', 'AttributeError',
             'ZeroDivisionError'}


def position_of(m):
    try:
        lat, lon = getattr(m, 'lat', None), getattr(m, 'lon', None)
    except Exception:                                       # a synthetic object whose coordinate getter raises
        return None
    if isinstance(lat, (int, float)) and isinstance(lon, (int, float)):
        return lat, lon
    return None


def indices_of(out_keys, in_keys):
    """Greedy order-preserving matching of an output sequence into the input sequence; None = not a subsequence."""
    idx, p = [], 0
    for k in out_keys:
        while p < len(in_keys) and in_keys[p] != k:
            p += 1
        if p == len(in_keys):
            return None
        idx.append(p)
        p += 1
    return idx


def parse_reply(reply):
    """-> (model dict, spec tokens or None, utotal, shape)"""
    if reply.startswith('ERROR'):
        raise RuntimeError('model driver: ' + reply)
    a, b, c, d = [x.strip() for x in reply.split(' | ')]
    if a.startswith('RAISE '):
        model = {'raise': a[6:]}
    else:
        body, term = a[4:].rsplit(' END ', 1)
        model = {'out': [] if body == '-' else body.split(';'), 'end': term}
    spec = None if b == 'SPEC n/a' else ([] if b[5:] == '-' else b[5:].split(';'))
    return model, spec, c.endswith('1'), d.endswith('1')


# ------------------------------------------------------------------------------------------------------------------
# high-precision great-circle reference (no libm, no pyais): unit vectors, angle = atan2(|a x b|, a . b)
getcontext().prec = 60
_D = Decimal


def _pi():
    getcontext().prec += 4
    lasts, t, s, n, na, d, da = 0, _D(3), 3, 1, 0, 0, 24
    while s != lasts:
        lasts = s
        n, na = n + na, na + 8
        d, da = d + da, da + 32
        t = (t * n) / d
        s += t
    getcontext().prec -= 4
    return +s


PI = _pi()


def _sincos(x):
    """(sin x, cos x) by Taylor series after reduction to [-pi, pi]."""
    getcontext().prec += 6
    twopi = 2 * PI
    x = x - twopi * (x / twopi).to_integral_value()
    # halve until small, then double-angle back (keeps the series short)
    k = 0
    while abs(x) > _D('0.05'):
        x /= 2
        k += 1
    x2 = x * x
    s, term, i = x, x, 1
    while True:
        term = -term * x2 / ((i + 1) * (i + 2))
        i += 2
        if s + term == s:
            break
        s += term
    c, term, i = _D(1), _D(1), 0
    while True:
        term = -term * x2 / ((i + 1) * (i + 2))
        i += 2
        if c + term == c:
            break
        c += term
    for _ in range(k):
        s, c = 2 * s * c, c * c - s * s
    getcontext().prec -= 6
    return +s, +c


def _atan(x):
    """atan x for x >= 0."""
    getcontext().prec += 6
    k = 0
    while x > _D('0.05'):
        x = x / (1 + (1 + x * x).sqrt())
        k += 1
    x2 = x * x
    s, term, i = x, x, 1
    while True:
        term = -term * x2
        i += 2
        t = term / i
        if s + t == s:
            break
        s += t
    s = s * (2 ** k)
    getcontext().prec -= 6
    return +s


def _atan2(y, x):
    """y >= 0."""
    if x == 0:
        return PI / 2 if y != 0 else _D(0)
    a = _atan(abs(y / x))
    return a if x > 0 else PI - a


def great_circle_km(lat1, lon1, lat2, lon2):
    """Exact inputs (int / float / Fraction degrees) -> Decimal km on the sphere of radius 6371 km."""
    def rad(v):
        f = Fraction(v)
        return _D(f.numerator) / _D(f.denominator) * PI / 180
    (s1, c1), (sl1, cl1) = _sincos(rad(lat1)), _sincos(rad(lon1))
    (s2, c2), (sl2, cl2) = _sincos(rad(lat2)), _sincos(rad(lon2))
    a = (c1 * cl1, c1 * sl1, s1)
    b = (c2 * cl2, c2 * sl2, s2)
    dot = a[0] * b[0] + a[1] * b[1] + a[2] * b[2]
    cx = (a[1] * b[2] - a[2] * b[1], a[2] * b[0] - a[0] * b[2], a[0] * b[1] - a[1] * b[0])
    cross = (cx[0] * cx[0] + cx[1] * cx[1] + cx[2] * cx[2]).sqrt()
    return _D(R_KM) * _atan2(cross, dot)


def tolerance_km(ref, p, true_km):
    """1e-6 km; 1e-3 km where the haversine form is ill-conditioned (see ASSUMPTIONS)."""
    if abs(ref[0]) > 90 or abs(p[0]) > 90 or (PI * R_KM - true_km) < 1:
        return _D('1e-3')
    return _D('1e-6')


def position_report_replay(ref, p):
    """A type 1 position report carrying exactly position p (when p is on the 1/600000 degree grid of the 27/28-bit fields)
    through a one-filter chain around ref: -> (text, replay, exception name) if that chain raises."""
    import random
    try:
        bits = payload(random.Random(0), 1, lat=Fraction(p[0]).limit_denominator(10 ** 6), lon=Fraction(p[1]).limit_denominator(10 ** 6))
        lines = ais.bits_to_sentences(bits)
        items = decode_stream(lines)
        if len(items) != 1 or isinstance(items[0], Exception) or position_of(items[0]) != (p[0], p[1]):
            return None
        f = ('D', [num(ref[0]), num(ref[1])], 100)
        r = run_impl([f], lines)
        if r[0] == 'RAISE' or r[1] == 'end':
            return None
        return (f'list(FilterChain([{filter_text(f)}]).filter({src_text(lines)}))', dict(src_json(lines), filters=[list(f)]), r[1])
    except Exception:
        return None


def check_haversine(rep, ref, p, kind, origin='numeric'):
    """One (reference, position) pair: no exception, result within tolerance of the reference."""
    from pyais.filter import haversine
    rep.count('numeric:' + kind)
    replay = {'haversine': [num(ref[0]), num(ref[1]), num(p[0]), num(p[1])]}
    try:
        h = haversine(ref, p)
    except Exception as e:
        what = (f'haversine({ref!r}, {p!r}) raises {type(e).__name__}: {e} (a DistanceFilter with this reference point '
                f'raises on a message reporting this position)')
        chain = position_report_replay(ref, p)
        if chain:                                             # the same failure through the public API, as the replay
            what = chain[0] + f' raises {chain[2]}: ' + what
            replay = chain[1]
        rep.violation({'entry': 'DistanceFilter', 'component': 'haversine', 'kind': f'foreign-exception:{type(e).__name__}'},
                      what, replay)
        return None
    true_km = great_circle_km(ref[0], ref[1], p[0], p[1])
    tol = tolerance_km(ref, p, true_km)
    if not (h == h) or abs(_D(Fraction(h).numerator) / _D(Fraction(h).denominator) - true_km) > tol:
        rep.violation({'entry': 'DistanceFilter', 'component': 'haversine', 'kind': 'numeric-deviation'},
                      f'haversine({ref!r}, {p!r}) = {h!r}, great-circle distance is {true_km:.12f} km (tolerance {tol} km)', replay)
    return h


def numeric(ctx, positions):
    """TEST of the part that is not proved: haversine against the reference."""
    rng, rep = ctx.rng, ctx.rep
    n = ctx.budget(300, 4000)
    grid = lambda v: round(v, 6)            # decoded coordinates live on the 1e-6 degree grid
    pairs = []
    for _ in range(n):
        pairs.append(('random', (rng.uniform(-90, 90), rng.uniform(-180, 180)), (grid(rng.uniform(-90, 90)), grid(rng.uniform(-180, 180)))))
    for _ in range(n):
        lat, lon = grid(rng.uniform(-90, 90)), grid(rng.uniform(-180, 180))
        anti = (-lat, lon - 180 if lon > 0 else lon + 180)
        pairs.append(('antipode-exact', anti, (lat, lon)))
        eps = rng.choice([1e-6, 2e-6, 1e-5, 1e-4, 1e-3, 1e-2, 0.1]) * rng.choice([-1, 1])
        pairs.append(('antipode-near', (anti[0] + eps * rng.random(), anti[1] + eps), (lat, lon)))
    for _ in range(n // 2):
        lat, lon = grid(rng.uniform(-90, 90)), grid(rng.uniform(-180, 180))
        d = rng.choice([1e-6, 1e-5, 1e-3, 0.1, 1.0]) * rng.uniform(-1, 1)
        pairs.append(('close', (lat + d, lon + d * rng.uniform(-1, 1)), (lat, lon)))
        pairs.append(('equal', (lat, lon), (lat, lon)))
    for _ in range(n // 2):
        # a 27-bit latitude field carries values up to +-111.8 (91 = "not available"); lon up to +-223.7 (181)
        e = grid(rng.uniform(0, 21.8)) if rng.random() < 0.7 else 1.0
        lon = grid(rng.uniform(-180, 0))
        pairs.append(('over-pole-twin', (grid(90 - e), lon + 180), (grid(90 + e), lon)))
        pairs.append(('lat-out-of-range', (rng.uniform(-90, 90), rng.uniform(-180, 180)),
                      (grid(rng.choice([1, -1]) * rng.uniform(90, 111.8)), grid(rng.uniform(-223.7, 223.7)))))
    pairs.append(('sentinel', (89.0, 1.0), (91.0, 181.0)))
    pairs.append(('sentinel', (0.0, 0.0), (91.0, 181.0)))
    pairs.append(('poles', (90.0, 0.0), (-90.0, 0.0)))
    pairs.append(('poles', (90, 0), (90.0, 123.0)))
    for p in positions[: n // 2]:
        pairs.append(('decoded', (rng.uniform(-90, 90), rng.uniform(-180, 180)), p))
    for kind, ref, p in pairs:
        rep.case(('hav', ref, p), kind=None)
        check_haversine(rep, ref, p, kind)
    if not ctx.quick:
        mpmath_crosscheck(ctx, [(r, p) for _, r, p in rng.sample(pairs, min(300, len(pairs)))])


def mpmath_crosscheck(ctx, pairs):
    """Thorough tier: the decimal reference itself against mpmath (tooling venv), when that interpreter exists."""
    exe = '/usr/local/bin/python3-vt'
    if not os.path.exists(exe):
        ctx.rep.notes.append('mpmath cross-check of the reference skipped: python3-vt not found')
        return
    prog = ('import sys, mpmath as mp\nmp.mp.dps = 60\nfrom fractions import Fraction\n'
            'for line in sys.stdin:\n'
            '    v = [mp.mpf(int(a)) / mp.mpf(int(b)) * mp.pi / 180 for a, b in (t.split(":") for t in line.split())]\n'
            '    la1, lo1, la2, lo2 = v\n'
            '    a = mp.sin((la2 - la1) / 2) ** 2 + mp.cos(la1) * mp.cos(la2) * mp.sin((lo2 - lo1) / 2) ** 2\n'
            '    a = min(mp.mpf(1), max(mp.mpf(0), a))\n'
            '    print(mp.nstr(6371 * 2 * mp.atan2(mp.sqrt(a), mp.sqrt(1 - a)), 40))\n')
    inp = ''.join(' '.join(frac_token(x) for x in (r[0], r[1], p[0], p[1])) + '\n' for r, p in pairs)
    try:
        res = subprocess.run([exe, '-c', prog], input=inp.encode(), stdout=subprocess.PIPE, stderr=subprocess.PIPE, timeout=300)
    except Exception as e:
        ctx.rep.notes.append(f'mpmath cross-check skipped: {e}')
        return
    if res.returncode != 0:
        ctx.rep.notes.append('mpmath cross-check skipped: ' + res.stderr.decode()[-300:])
        return
    worst = _D(0)
    for (r, p), line in zip(pairs, res.stdout.decode().split()):
        worst = max(worst, abs(_D(line) - great_circle_km(r[0], r[1], p[0], p[1])))
    ctx.rep.notes.append(f'decimal reference vs mpmath (60 digits, haversine/atan2 form) on {len(pairs)} pairs: max difference {worst:.3E} km')
    if worst > _D('1e-20'):
        ctx.rep.internal(f'high-precision references disagree by {worst} km')


# ------------------------------------------------------------------------------------------------------------------
# generators
def build_pool(ctx, n_groups):
    """-> list of groups dict(lines=[bytes], kind=str)."""
    rng = ctx.rng
    pool = []
    seq = itertools.cycle(range(10))
    anchors = [(rng.uniform(-80, 80), rng.uniform(-170, 170)) for _ in range(4)] + [(0.0, 0.0), (53.5, 9.9)]
    ptypes = sorted(POSITION_TYPES)

    def add(bits, kind):
        pool.append({'lines': sentences_of(rng, bits, next(seq)), 'kind': kind})

    for t in range(0, 28):                                   # every type (0 too: decoded as type 1), random content, nominal length
        for _ in range(2):
            add(payload(rng, t), 'random-full')
    while len(pool) < n_groups:
        if rng.random() < 0.14:
            # carriers of a communication state (computed attributes is_sotdma / is_itdma / communication_state_raw):
            # complete (radio below / above the SOTDMA/ITDMA selector bit) and cut before / inside the radio field
            t = rng.choice([9, 18, 26, 9, 18, 26, 1, 2, 3, 4, 11])
            bits = payload(rng, t)
            if t in (9, 18) and rng.random() < 0.5:
                bits = bits[:148] + rng.choice('01') + bits[149:]
            if rng.random() < 0.6:
                cut = rng.choice([len(bits) - 20, len(bits) - 19, len(bits) - rng.randrange(1, 19), rng.randrange(38, len(bits)),
                                  106, 40]) if t != 26 else rng.randrange(38, len(bits))
                add(bits[:max(6, min(len(bits) - 1, cut))], 'commstate-truncated')
            else:
                add(bits, 'commstate-complete')
            continue
        r = rng.random()
        t = rng.choice(ptypes)
        nom, lo, lw, la, aw, unit = POSITION_TYPES[t]
        if r < 0.30:                                         # positions clustered around the anchors
            a = rng.choice(anchors)
            s = rng.choice([0.0, 1e-4, 0.01, 0.5, 5.0])
            add(payload(rng, t, lat=round(a[0] + rng.uniform(-s, s), 6), lon=round(a[1] + rng.uniform(-s, s), 6)), 'position-cluster')
        elif r < 0.40:                                       # falsy coordinates
            which = rng.randrange(3)
            add(payload(rng, t, lat=0 if which != 1 else round(rng.uniform(-60, 60), 4),
                        lon=0 if which != 0 else round(rng.uniform(-60, 60), 4)), 'position-zero')
        elif r < 0.47:
            add(payload(rng, t, lat=91, lon=181), 'position-not-available')
        elif r < 0.52 and unit == 600000:
            add(payload(rng, t, lat=rng.choice([1, -1]) * round(rng.uniform(90, 111), 5), lon=round(rng.uniform(-220, 220), 5)),
                'position-out-of-range')
        elif r < 0.72:                                       # truncated position reports
            cut = rng.choice([lo - rng.randrange(1, 12), lo, lo + rng.randrange(1, lw), la, la + rng.randrange(1, aw), la + aw,
                              rng.randrange(7, nom)])
            cut = max(6, min(nom - 1, cut))
            a = rng.choice(anchors)
            add(payload(rng, t, lat=round(a[0], 3), lon=round(a[1], 3))[:cut], 'truncated-position-report')
        elif r < 0.80:                                       # an equal message again
            g = rng.choice(pool)
            pool.append({'lines': g['lines'], 'kind': 'duplicate'})
        elif r < 0.90:
            t2 = rng.choice([5, 6, 7, 8, 10, 12, 14, 15, 16, 20, 22, 23, 24, 25, 26])
            add(payload(rng, t2), 'no-position-attributes')
        else:
            t2 = rng.randrange(1, 28)
            add(payload(rng, t2)[:rng.randrange(6, NOMINAL[t2])], 'truncated-any')
    return pool, anchors


def malformed_groups(rng):
    """Sentences whose decode() raises (the chain must propagate that, after the messages yielded so far)."""
    gs = []
    for t in (28, 31, 63):
        gs.append({'lines': ais.bits_to_sentences(format(t, '06b') + rand_bits(rng, 162)), 'kind': 'unknown-type'})
    gs.append({'lines': [ais.sentence('AIVDM', 1, 1, None, 'A', '', 0)], 'kind': 'empty-payload'})
    gs.append({'lines': ais.bits_to_sentences(format(24, '06b') + rand_bits(rng, 32) + '11' + rand_bits(rng, 120)), 'kind': 'type24-part3'})
    return gs


def float_neighbours(x):
    x = float(x)
    return [math.nextafter(x, -math.inf), x, math.nextafter(x, math.inf)]


def gen_filter(rng, kind, msgs, names, anchors, computed=None, comp_rate=0.15):
    from pyais.filter import haversine
    positions = [p for p in (position_of(m) for m in msgs if not isinstance(m, Exception)) if p]
    if kind == 'N':
        k = rng.choice([0, 1, 1, 1, 2, 2, 3])
        common = ['mmsi', 'msg_type', 'repeat', 'lat', 'lon', 'speed', 'course', 'heading', 'radio', 'second']
        comp = computed_list() if computed is None else computed
        return ('N', [rng.choice(comp) if comp and rng.random() < comp_rate else rng.choice(common) if rng.random() < 0.6
                      else rng.choice(names) for _ in range(k)])
    if kind == 'T':
        present = sorted({int(m.msg_type) for m in msgs if not isinstance(m, Exception)}) or [1]
        k = rng.choice([0, 1, 2, 3, 6, 12, 12])
        return ('T', sorted({rng.choice(present) if rng.random() < 0.8 else rng.choice([0, 0, 28, 31, 63, -1, rng.randrange(0, 30)]) for _ in range(k)}))
    if kind == 'D':
        r = rng.random()
        if positions and r < 0.5:
            # boundary: the threshold IS the implementation's haversine of (reference, a message position), or a neighbour
            p = rng.choice(positions)
            ref = rng.choice(anchors) if rng.random() < 0.6 else (round(p[0] + rng.uniform(-1, 1), 3), round(p[1] + rng.uniform(-1, 1), 3))
            try:
                h = haversine(ref, p)
                d = rng.choice(float_neighbours(h))
                if rng.random() < 0.1 and h == int(h):
                    d = int(h)
            except Exception:
                d = 100.0
            return ('D', [num(ref[0]), num(ref[1])], num(d))
        ref = rng.choice(anchors) if r < 0.8 else (rng.uniform(-90, 90), rng.uniform(-180, 180))
        if rng.random() < 0.2:
            ref = (int(ref[0]), int(ref[1]))
        d = rng.choice([0, 0.0, -1.0, 1e-3, 1, 10.5, 100, 1000.0, 5000, 5000, 12000.0, 20015.086796020572, 20016, 1e9,
                        10 ** rng.uniform(-3, 4.5), 10 ** rng.uniform(2, 4.3)])
        return ('D', [num(ref[0]), num(ref[1])], num(d))
    if kind == 'G':
        r = rng.random()
        if positions and r < 0.6:
            # boundary: one or more edges equal to a message's coordinate (or a float neighbour)
            p = rng.choice(positions)
            box = [p[0] - rng.uniform(0, 2), p[1] - rng.uniform(0, 2), p[0] + rng.uniform(0, 2), p[1] + rng.uniform(0, 2)]
            for e in rng.sample(range(4), rng.choice([1, 1, 2, 4])):
                box[e] = rng.choice(float_neighbours(p[e % 2]))
            return ('G',) + tuple(num(v) for v in box)
        if r < 0.7:
            # the whole globe; and boxes reaching beyond it (the 'not available' position 91 / 181 lies inside those)
            return rng.choice([('G', -90, -180, 90, 180), ('G', -90, -180, 90, 180), ('G', 0, -180, 91, 181),
                               ('G', -91, -181, 91, 181), ('G', 90, 180, 200, 400)])
        if r < 0.8:
            return ('G', num(10.0), num(10.0), num(-10.0), num(-10.0))      # empty box
        a = rng.choice(anchors)
        w = rng.choice([0.0, 0.01, 1.0, 30.0, 60.0, 100.0])
        return ('G', num(a[0] - w), num(a[1] - w), num(a[0] + w), num(a[1] + w))
    # user predicates
    pk = rng.choice(['c', 'nn', 'has', 'tr', 'tr', 'lt', 'te'])
    if pk == 'c':
        return ('A', ['c', rng.random() < 0.7])
    if pk == 'te':
        return ('A', ['te', rng.randrange(0, 28)])
    name = rng.choice(names)
    if pk == 'lt':
        return ('A', ['lt', name, num(rng.choice([0, 0.0, 1, 10.5, 100, 1e9, -1.0]))])
    return ('A', [pk, name])


def focused_chain(rng, rep, msgs, names, anchors, which):
    """A chain in which ONE geographic filter sits exactly on (or one float step beside) a boundary of one target message
    and every other filter lets that message through, so that the verdict on the target is the boundary filter's alone."""
    from pyais.filter import haversine
    targets = [m for m in msgs if not isinstance(m, Exception) and position_of(m)]
    if not targets:
        return None
    m = rng.choice(targets)
    p = position_of(m)
    which %= 18                                              # 6 of 18 on the distance, 12 on the four grid edges
    if which >= 12:
        ref = rng.choice(anchors) if rng.random() < 0.5 else (round(p[0] + rng.uniform(-2, 2), 4), round(p[1] + rng.uniform(-2, 2), 4))
        if rng.random() < 0.1:
            ref = p
        try:
            h = haversine(ref, p)
        except Exception:
            return None
        j = which % 3
        rep.count('boundary:distance-' + ['below', 'equal', 'above'][j])
        main = ('D', [num(ref[0]), num(ref[1])], num(float_neighbours(h)[j]))
    else:
        box = [p[0] - rng.uniform(0.5, 5), p[1] - rng.uniform(0.5, 5), p[0] + rng.uniform(0.5, 5), p[1] + rng.uniform(0.5, 5)]
        e, j = which // 3, which % 3
        box[e] = float_neighbours(p[e % 2])[j]
        rep.count('boundary:grid-' + ['lat_min', 'lon_min', 'lat_max', 'lon_max'][e] + '-' + ['below', 'equal', 'above'][j])
        main = ('G',) + tuple(num(v) for v in box)
    d = m.asdict()
    have = [k for k in d if getattr(m, k) is not None]
    fs = [main]
    for _ in range(rng.choice([0, 0, 1, 1, 2, 3])):
        c = rng.randrange(6)
        if c == 0:
            fs.append(('T', sorted({int(m.msg_type)} | {rng.randrange(1, 28) for _ in range(rng.randrange(4))})))
        elif c == 1:
            fs.append(('N', [rng.choice(have) for _ in range(rng.choice([1, 2]))]))
        elif c == 2:
            fs.append(('A', rng.choice([['c', True], ['nn', rng.choice(have)], ['has', rng.choice(list(d))]])))
        elif c == 3:
            fs.append(('G', -90, -180, 90, 180) if abs(p[0]) <= 90 and abs(p[1]) <= 180 else ('G', -200, -400, 200, 400))
        elif c == 4:
            a = rng.choice(anchors)
            fs.append(('D', [num(a[0]), num(a[1])], 10 ** 9))
        else:
            fs.append(('N', []))
    rng.shuffle(fs)
    return fs


def pred_can_raise(f):
    """May this user predicate raise on some message?  lt compares; nn / has / tr read an attribute, and reading a computed
    attribute can raise (hasattr and getattr-with-default absorb AttributeError only)."""
    return f[0] == 'A' and (f[1][0] == 'lt' or (f[1][0] in ('nn', 'has', 'tr')
                                                and (f[1][1] in COMPUTED_SEEN or f[1][1].startswith('prop_'))))


def orders(ctx, k):
    ps = list(itertools.permutations(range(k)))
    if k <= 3 or not ctx.quick:
        return ps
    rng = ctx.rng
    return [ps[0], ps[-1]] + rng.sample(ps[1:-1], 2)


# ------------------------------------------------------------------------------------------------------------------
def locate_raise(fs, items, item_lines):
    """Which filter class raises, on which message?  (each filter alone on each message's own sentences)"""
    for i, it in enumerate(items):
        if isinstance(it, Exception):
            continue
        for f in fs:
            r = run_impl([f], item_lines[i])
            if r[0] != 'RAISE' and r[1] != 'end':
                comp = cls_name(f)
                if f[0] == 'D' and position_of(it):
                    comp = 'haversine'
                return comp, r[1], i, f
    return 'chain', None, None, None


def raising_attr(f, m):
    """The attribute of NoneFilter f whose read raises on message m (first in evaluation order), or None."""
    for a in f[1]:
        try:
            if getattr(m, a, None) is None:
                return None                                    # all() stops here
        except Exception:
            return a
    return None


def report_raise(rep, pf, items, item_lines, exn_name, replay):
    """A chain of total filters over decodable messages raised: report it, shrunk to the one filter and the one message
    that raise when that pair reproduces the exception by itself."""
    comp, exn, i, f = locate_raise(pf, items, item_lines)
    if f is not None and exn == exn_name:
        sig = {'entry': 'FilterChain.filter', 'component': comp, 'kind': f'foreign-exception:{exn_name}'}
        extra = ''
        if f[0] == 'N':
            a = raising_attr(f, items[i])
            computed = a is not None and a in computed_names(items[i])
            sig = {'entry': 'NoneFilter', 'component': 'computed-attribute' if computed else 'attribute',
                   'kind': f'foreign-exception:{exn_name}'}
            if a is not None:
                _, e = read_token(items[i], a)
                extra = f'; reading {"the computed attribute" if computed else "attribute"} {a!r} of this message raises ' \
                        f'{type(e).__name__}: {e}' if e is not None else ''
            f = ('N', [a]) if a is not None and run_impl([('N', [a])], item_lines[i])[1] == exn_name else f
        rep.violation(sig,
                      f'list(FilterChain([{filter_text(f)}]).filter({src_text(item_lines[i])})) raises '
                      f'{exn_name}; decoded message: {items[i]!r}{extra}  (found in {chain_text(pf)} over {len(items)} messages)',
                      dict(src_json(item_lines[i]), filters=[list(f)]))
    else:
        rep.violation({'entry': 'FilterChain.filter', 'component': comp, 'kind': f'foreign-exception:{exn_name}'},
                      f'{chain_text(pf)} over {len(items)} decodable messages raises {exn_name}',
                      dict(replay, filters=[list(x) for x in pf]))


def check_case(ctx, groups, fs, perms, model=None, want_sample=False, quiet=False):
    """One sentence list x one chain x some orders.  Returns number of violations added."""
    rep = ctx.rep
    model = model or ctx.model
    lines = [ln for g in groups for ln in g['lines']]
    hexlines = [repr(o) for o in lines] if lines and isinstance(lines[0], Synth) else [ln.decode('latin-1') for ln in lines]
    items = decode_stream(lines)
    # the sentences of each stream element (for locating a raise): groups and items align one to one when nothing was dropped
    item_lines = ([g['lines'] for g in groups] if len(items) == len(groups)
                  else [[ln] for ln in lines] if len(items) == len(lines) else [lines] * len(items))
    decodable = [m for m in items if not isinstance(m, Exception)]
    all_decoded = len(decodable) == len(items)
    tokens = []
    for it in items:
        if isinstance(it, Exception):
            name = type(it).__name__
            if name not in KNOWN_EXN:
                rep.count('skipped:unmodelled-exception')
                return 0
            tokens.append('E.' + name)
        else:
            tok = msg_token(it)
            if tok is None:
                rep.count('skipped:nan')
                return 0
            if isinstance(it, Synth) and any(v[0] == 'x' and v[1] not in KNOWN_EXN for v in it._computed.values()):
                rep.count('skipped:unmodelled-exception')
                return 0
            tokens.append(tok)
    in_keys = [None if isinstance(it, Exception) else content_key(it) for it in items]
    n_before = len(rep.violations)
    replay = dict(src_json(lines), filters=[list(f) for f in fs])

    # distance values, measured on the implementation's haversine
    dist, numeric_failed = {}, False
    for f in fs:
        if f[0] != 'D':
            continue
        ref = (unnum(f[1][0]), unnum(f[1][1]))
        for m in decodable:
            p = position_of(m)
            if p is None:
                continue
            key = ','.join(frac_token(x) for x in (ref[0], ref[1], p[0], p[1]))
            if key in dist:
                continue
            h = check_haversine(rep, ref, p, 'in-chain') if not quiet else _quiet_hav(ref, p)
            if h is None or h != h:
                numeric_failed = True
            else:
                dist[key] = frac_token(h)
    coords_ok = True
    for m in decodable:                                       # the shape every theorem assumes of a decoded message
        why = shape_problem(m)
        if why:
            coords_ok = False
            if not isinstance(m, Synth):
                rep.internal(f'decoded message outside the hypotheses of the theorems ({why}): {m!r}')
    # the property speaks about decodable messages: the oracle judges only streams of really decoded messages; synthetic
    # shapes tie the model to the code (a difference there = the model no longer checks) but are no property violation
    judged = all_decoded and coords_ok and not any(isinstance(m, Synth) for m in decodable)

    results = {}
    for perm in perms:
        pf = [fs[i] for i in perm]
        kind = 'chain:' + '+'.join(sorted(f[0] for f in fs))
        rep.case((tuple(hexlines), tuple(filter_token(f) for f in pf)), kind=f'len{len(fs)}')
        impl = run_impl(pf, lines)
        if impl[0] == 'RAISE':
            impl_view = {'raise': impl[1]}
        else:
            idx = indices_of([content_key(m) for m in impl[0]], in_keys)
            impl_view = {'out': idx, 'end': impl[1]}
            if idx is None:
                rep.violation({'entry': 'FilterChain.filter', 'component': 'output', 'kind': 'foreign'},
                              f'{chain_text(pf)} yields messages that are not an order-preserving subsequence of the decoded input',
                              dict(replay, filters=[list(f) for f in pf]))
                continue
        results[perm] = impl_view
        # (a) correspondence with the extracted model
        if model is not None and not numeric_failed:
            req = 'c19 ' + (';'.join(filter_token(f) for f in pf) or '-') + ' ' + (';'.join(tokens) or '-') + ' ' \
                  + (';'.join(k + ',' + v for k, v in dist.items()) or '-')
            m_view, spec, utotal, shape = parse_reply(model.ask(req))
            if shape != coords_ok:
                rep.internal(f'the extracted shape predicates (coords_numeric && attr_reads_ok = {shape}) and the harness '
                             f'({coords_ok}) differ on {hexlines}')
            if 'out' in m_view:
                m_view = {'out': indices_of(m_view['out'], tokens), 'end': m_view['end']}
            if m_view != impl_view:
                rep.disagree('H-filter', {'lines': hexlines, 'chain': chain_text(pf)}, m_view, impl_view)
            # (b) oracle: the conjunction filter on the implementation's output
            if spec is not None and utotal and judged and impl[0] != 'RAISE':
                want = indices_of(spec, tokens)
                if impl_view['end'] != 'end':
                    report_raise(rep, pf, items, item_lines, impl_view['end'], replay)
                elif impl_view['out'] != want:
                    extra = sorted(set(impl_view['out']) - set(want))
                    lost = sorted(set(want) - set(impl_view['out']))
                    kindv = 'passed-unsatisfied' if extra else ('dropped-satisfied' if lost else 'order-or-multiplicity')
                    comp = blame(model, pf, tokens, dist, (extra or lost or [None])[0], item_lines)
                    rep.violation({'entry': 'FilterChain.filter', 'component': comp, 'kind': kindv},
                                  f'{chain_text(pf)}: yields input positions {impl_view["out"]}, the messages satisfying every filter '
                                  f'are at {want}', dict(replay, filters=[list(f) for f in pf]))
        elif judged and not any(pred_can_raise(f) for f in fs) and impl[0] != 'RAISE' and impl_view['end'] != 'end':
            # no model available (or no distance value): "nothing raises" can still be judged
            report_raise(rep, pf, items, item_lines, impl_view['end'], replay)
    # (c) oracle: the order of the filters does not matter (no user predicate that may raise, everything decodes)
    if judged and not any(pred_can_raise(f) for f in fs) and len(results) > 1:
        base = results.get(perms[0])
        for perm, view in results.items():
            if view != base and 'out' in view and base and 'out' in base and view['end'] == 'end' and base['end'] == 'end':
                rep.violation({'entry': 'FilterChain.filter', 'component': 'chain', 'kind': 'order-dependent'},
                              f'{chain_text(fs)} yields input positions {base["out"]}, reordered as {list(perm)} it yields {view["out"]}',
                              dict(replay, perm=list(perm)))
                break
    # (d) oracle: filter objects that were built with other parameters and then re-configured through their public attributes
    # behave like freshly built ones (state derived from the constructor arguments and never refreshed shows only here)
    base = results.get(perms[0])
    if judged and base and 'out' in base and not isinstance(lines[0] if lines else None, Synth) \
            and (getattr(ctx, 'force_reconfigured', False) or ctx.rng.random() < 0.25):
        pf = [fs[i] for i in perms[0]]
        rep.count('reconfigured-chain')
        impl2 = run_impl_reconfigured(pf, lines)
        view2 = {'raise': impl2[1]} if impl2[0] == 'RAISE' else \
            {'out': indices_of([content_key(m) for m in impl2[0]], in_keys), 'end': impl2[1]}
        if view2 != base:
            rep.violation({'entry': 'FilterChain.filter', 'component': 'reconfigured-filter', 'kind': 'stale-after-reconfiguration'},
                          f'{chain_text(pf)}: filter objects first built with other parameters and then given these through their '
                          f'public attributes yield {view2}, freshly built ones {base}',
                          dict(replay, filters=[list(f) for f in pf], reconfigured=True))
    # (e) oracle: a chain keeps doing what it did after ANOTHER chain was built that ends with one of its filter objects
    # (FilterChain links the objects it is given; the last one's link is left alone, so the earlier chain stays intact)
    if judged and base and 'out' in base and len(fs) >= 2 and not isinstance(lines[0] if lines else None, Synth) \
            and (getattr(ctx, 'force_shared', False) or ctx.rng.random() < 0.15):
        from pyais.filter import FilterChain
        pf = [fs[i] for i in perms[0]]
        rep.count('chain-sharing-a-filter')
        try:
            objs = [build_filter(f) for f in pf]
            chain_a = FilterChain(objs)
            FilterChain([build_filter(('T', [1, 2, 3])), objs[0]])      # a later chain that ends with chain A's first filter
            out, term = [], 'end'
            try:
                for m in chain_a.filter(make_stream(lines)):
                    out.append(m)
            except RecursionError:
                raise
            except Exception as e:      # noqa: BLE001
                term = type(e).__name__
            view3 = {'out': indices_of([content_key(m) for m in out], in_keys), 'end': term}
        except RecursionError:
            raise
        except Exception as e:      # noqa: BLE001
            view3 = {'raise': type(e).__name__}
        if view3 != base:
            rep.violation({'entry': 'FilterChain.filter', 'component': 'chain-sharing-a-filter', 'kind': 'changed-by-another-chain'},
                          f'{chain_text(pf)}: after another chain was built that ends with this chain\'s first filter object the '
                          f'chain yields {view3}, before {base}', dict(replay, filters=[list(f) for f in pf], shared=True))
    # distribution
    first = results.get(perms[0])
    if first and 'out' in first and first['out'] is not None:
        n_in, n_out = len(decodable), len(first['out'])
        rep.count('outcome:' + ('raised' if first['end'] != 'end' else 'none-pass' if n_out == 0 else 'all-pass' if n_out == n_in else 'some-pass'))
    for g in groups:
        rep.count('msg:' + g['kind'])
    for f in fs:
        rep.count('filter:' + cls_name(f))
    if want_sample:
        rep.sample({'sentences': hexlines[:4] + (['...'] if len(hexlines) > 4 else []), 'chain': chain_text(fs),
                    'orders_run': len(perms), 'yielded_input_positions': first.get('out') if first else None,
                    'end': first.get('end', first.get('raise')) if first else None})
    return len(rep.violations) - n_before


def _quiet_hav(ref, p):
    from pyais.filter import haversine
    try:
        return haversine(ref, p)
    except Exception:
        return None


def blame(model, fs, tokens, dist, i, item_lines=None):
    """Which filter class disagrees with its criterion on the message at input position i?  Each filter alone: the
    implementation's verdict on that message's own sentences against the specification's."""
    if i is None or item_lines is None or tokens[i].startswith('E.'):
        return 'chain' if len(fs) != 1 else cls_name(fs[0])
    dtab = ';'.join(k + ',' + v for k, v in dist.items()) or '-'
    for f in fs:
        r = run_impl([f], item_lines[i])
        if r[0] == 'RAISE' or r[1] != 'end':
            continue
        reply = model.ask(f'c19keep {filter_token(f)} {tokens[i]} {dtab}')
        if ' | ' in reply and (reply.rsplit(' | ', 1)[1] == '1') != (len(r[0]) == 1):
            return cls_name(f)
    return 'chain' if len(fs) != 1 else cls_name(fs[0])


def names_universe(pool_msgs):
    """Attribute names for NoneFilter and the attribute-reading user predicates: every field of every pool message, every
    COMPUTED attribute of every pool message's class (by reflection, see computed_names), and names no message has."""
    names = set()
    COMPUTED_SEEN.clear()
    for m in pool_msgs:
        names.update(m.asdict().keys())
        for c in computed_names(m):
            tok, e = read_token(m, c)
            COMPUTED_SEEN.setdefault(c, set()).add(type(e).__name__ if e is not None else 'None' if tok == 'N' else 'value')
    return sorted(names) + sorted(COMPUTED_SEEN) + ['lat', 'lon', 'lat', 'lon', 'speed', 'msg_type', 'foo', 'latitude', 'position']


def computed_list():
    return sorted(COMPUTED_SEEN)


def computed_chain(rng, rep, msgs, names, anchors):
    """A chain around a NoneFilter that lists computed attributes (alone, before and after attributes that are None on
    some messages, so that all()'s short circuit decides whether a getter is reached), plus filters of the other classes."""
    comp = computed_list()
    if not comp:
        return None
    k = rng.choice([1, 1, 2, 3])
    attrs = [rng.choice(comp) if (i == 0 or rng.random() < 0.4) else rng.choice(['mmsi', 'radio', 'course', 'raim', 'lat', 'foo'] + names)
             for i in range(k)]
    rng.shuffle(attrs)
    fs = [('N', attrs)]
    for _ in range(rng.choice([0, 0, 1, 1, 2])):
        kd = rng.choice('TDGAN')
        fs.append(gen_filter(rng, kd, msgs, names, anchors))
    rng.shuffle(fs)
    rep.count('chain:computed-attribute')
    return fs


def synthetic(ctx, names, anchors):
    """Attribute shapes that no decoder output has but the model covers: every combination of lat / lon in {absent, None,
    0, 0.0, a number, a str}.  Correspondence only (the oracle judges decoded messages only)."""
    rng, rep = ctx.rng, ctx.rep

    def coord(a):
        r = rng.random()
        if r < 0.2:
            return 'absent'
        if r < 0.45:
            return None
        if r < 0.55:
            return rng.choice([0, 0.0])
        if r < 0.62:
            return rng.choice(['abc', ''])
        return round(a + rng.uniform(-3, 3), 6)

    # property-like attributes: a getter that returns a value / None, raises TypeError or ValueError (what the repaired
    # NoneFilter treats as "not present"), a subclass of ValueError, AttributeError (absent for getattr-with-default) or
    # something else (KeyError, IndexError, ZeroDivisionError: still escapes -- only decodable real messages are in the
    # property's scope, and none of them has such a getter)
    PROPS = {'prop_t': ['TypeError'], 'prop_v': ['ValueError', 'UnicodeDecodeError'], 'prop_k': ['KeyError', 'IndexError', 'ZeroDivisionError'],
             'prop_a': ['AttributeError'], 'prop_ok': []}
    synth_names = ['lat', 'lon', 'speed', 'shipname', 'foo']
    for c in range(ctx.budget(110, 1200)):
        objs = []
        a = rng.choice(anchors)
        with_props = rng.random() < 0.6
        for _ in range(rng.choice([1, 3, 5, 8])):
            attrs = {}
            for name, base in (('lon', a[1]), ('lat', a[0])):
                v = coord(base)
                if v != 'absent':
                    attrs[name] = v
            for name, vals in (('speed', ['absent', None, 0.0, 12.3]), ('shipname', ['absent', None, '', 'X'])):
                v = rng.choice(vals)
                if v != 'absent':
                    attrs[name] = v
            comp = {}
            if with_props:
                for name, excs in PROPS.items():
                    r = rng.random()
                    if r < 0.35:
                        continue                                   # this object does not have the attribute
                    if excs and r < 0.7:
                        comp[name] = ('x', rng.choice(excs))
                    else:
                        comp[name] = ('v', rng.choice([None, True, False, 0, 7, 'x']))
                if rng.random() < 0.06 and 'lat' not in attrs:      # a coordinate whose getter raises
                    comp['lat'] = ('x', rng.choice(['TypeError', 'AttributeError']))
            objs.append(make_synth(rng.choice([0, 0, 28, 63, -1]) if rng.random() < 0.15 else rng.randrange(1, 28), attrs, comp))
        k = rng.choice([1, 1, 2, 3])
        names_here = synth_names + (list(PROPS) * 3 if with_props else [])
        kinds = [rng.choice('DGNANAT' if with_props else 'DGDGNAT') for _ in range(k)]
        fs = [gen_filter(rng, kd, objs, names_here, anchors, computed=list(PROPS) if with_props else [], comp_rate=0.6) for kd in kinds]
        rep.count('stream:synthetic-objects' + ('-with-properties' if with_props else ''))
        check_case(ctx, [{'lines': objs, 'kind': 'synthetic'}], fs, orders(ctx, k))


WITNESS_BITS = '010010' + '0' * 100      # a type 18 report cut before the radio field


def witness(ctx):
    """The message of C19_nonefilter_unrepaired_raises (Model/Filter.v filter_truncated_type18): pyais must still decode
    the recorded payload to the recorded description, and NoneFilter over each of its computed attributes -- alone, after a
    present attribute, after a None attribute -- goes through the correspondence check and the oracle."""
    rep = ctx.rep
    lines = ais.bits_to_sentences(WITNESS_BITS)
    items = decode_stream(lines)
    tok = msg_token(items[0]) if len(items) == 1 and not isinstance(items[0], Exception) else repr(items)
    if ctx.model is not None:
        want = ctx.model.ask('c19witness')
        if tok != want:
            rep.disagree('H-filter', {'witness': WITNESS_BITS}, want, tok)
    comp = [c for c in computed_names(items[0])] if tok and not isinstance(items[0], Exception) else []
    for c in comp:
        for attrs in ([c], ['mmsi', c], ['course', c], [c, 'course']):
            rep.count('stream:witness')
            check_case(ctx, [{'lines': lines, 'kind': 'witness'}], [('N', attrs)], [(0,)])


def run(ctx):
    rng, rep = ctx.rng, ctx.rep
    pool, anchors = build_pool(ctx, ctx.budget(360, 1500))
    pool_msgs = []
    for g in pool:
        pool_msgs.extend(m for m in decode_stream(g['lines']) if not isinstance(m, Exception))
    names = names_universe(pool_msgs)
    comm_pool = [g for g in pool if g['kind'].startswith('commstate')]
    for name, seen in sorted(COMPUTED_SEEN.items()):
        rep.count('computed:' + name + ':' + '/'.join(sorted(seen)))
    # generator self-check: the pool must hold computed attributes that evaluate and computed attributes whose read raises
    if not any(o not in ('value', 'None') for seen in COMPUTED_SEEN.values() for o in seen):
        rep.internal('generator self-check: no pool message has a computed attribute whose read raises '
                     '(truncated type 9/18/26 reports missing?)')
    if not any('value' in seen for seen in COMPUTED_SEEN.values()):
        rep.internal('generator self-check: no pool message has a computed attribute that evaluates')
    bad_groups = malformed_groups(rng)
    n_cases = ctx.budget(520, 4000)
    bkinds = itertools.count()
    sample_every = max(1, n_cases // 5)
    for c in range(n_cases):
        malformed = rng.random() < 0.08
        groups = [rng.choice(pool) for _ in range(rng.choice([0, 1, 2, 4, 6, 8, 10, 14]))]
        if malformed:
            groups.insert(rng.randrange(len(groups) + 1), rng.choice(bad_groups))
            rep.count('stream:malformed')
        else:
            rep.count('stream:all-decodable')
        focus_computed = not malformed and rng.random() < 0.12
        if focus_computed and comm_pool:                      # make sure carriers of a communication state are in the stream
            for _ in range(rng.choice([1, 2, 3])):
                groups.insert(rng.randrange(len(groups) + 1), rng.choice(comm_pool))
        msgs = decode_stream([ln for g in groups for ln in g['lines']])
        fs = computed_chain(rng, rep, msgs, names, anchors) if focus_computed else None
        if fs is None and rng.random() < 0.4:
            fs = focused_chain(rng, rep, msgs, names, anchors, next(bkinds))
            if fs is not None:
                rep.count('chain:boundary-focused')
        if fs is None:
            k = rng.choice([1, 1, 2, 2, 3, 3, 4, 5])
            kinds = [rng.choice('NTDGA') for _ in range(k)]
            if rng.random() < 0.5:                            # geographic filters are where the defects were
                kinds[rng.randrange(k)] = rng.choice('DG')
            fs = [gen_filter(rng, kd, msgs, names, anchors) for kd in kinds]
            rep.count('chain:random')
        check_case(ctx, groups, fs, orders(ctx, len(fs)), want_sample=(c % sample_every == 0))
    synthetic(ctx, names, anchors)
    witness(ctx)
    # FilterChain([]) is rejected
    rep.case(('empty-chain',), kind='len0')
    impl = run_impl([], pool[0]['lines'])
    if ctx.model is not None:
        m_view, _, _, _ = parse_reply(ctx.model.ask('c19 - ' + (msg_token(pool_msgs[0]) or '-') + ' -'))
        if m_view != {'raise': impl[1]} or impl[0] != 'RAISE':
            rep.disagree('H-filter', {'chain': 'FilterChain([])'}, m_view, impl)
    numeric(ctx, [p for p in (position_of(m) for m in pool_msgs) if p])
    # generator self-check
    tot = sum(v for k, v in rep.dist.items() if k.startswith('outcome:'))
    if tot and rep.dist.get('outcome:some-pass', 0) < 0.05 * tot:
        rep.internal('generator self-check: fewer than 5% of the cases have both passing and rejected messages')
    if tot and rep.dist.get('msg:truncated-position-report', 0) == 0:
        rep.internal('generator self-check: no truncated position report generated')
    if tot and (rep.dist.get('msg:commstate-truncated', 0) == 0 or rep.dist.get('chain:computed-attribute', 0) == 0):
        rep.internal('generator self-check: no NoneFilter over computed attributes met a truncated communication-state carrier')


def hunt(ctx):
    """Something no longer checks: single filters of every class over every pool message, each boundary kind, with the
    oracle; then longer random chains in all orders."""
    rng, rep = ctx.rng, ctx.rep
    pool, anchors = build_pool(ctx, 400)
    pool_msgs = []
    for g in pool:
        pool_msgs.extend(m for m in decode_stream(g['lines']) if not isinstance(m, Exception))
    names = names_universe(pool_msgs)
    for kd in 'DGNTA':
        for _ in range(ctx.budget(12, 60)):
            groups = rng.sample(pool, 12)
            msgs = decode_stream([ln for g in groups for ln in g['lines']])
            fs = [gen_filter(rng, kd, msgs, names, anchors)]
            check_case(ctx, groups, fs, [(0,)])
    comm_pool = [g for g in pool if g['kind'].startswith('commstate')]
    for _ in range(ctx.budget(30, 150)):
        groups = [rng.choice(comm_pool) for _ in range(4)] + [rng.choice(pool) for _ in range(4)]
        rng.shuffle(groups)
        msgs = decode_stream([ln for g in groups for ln in g['lines']])
        fs = computed_chain(rng, rep, msgs, names, anchors)
        if fs:
            check_case(ctx, groups, fs, orders(ctx, len(fs)))
    for _ in range(ctx.budget(10, 100)):
        groups = [rng.choice(pool) for _ in range(10)]
        msgs = decode_stream([ln for g in groups for ln in g['lines']])
        k = rng.choice([3, 4])
        fs = [gen_filter(rng, rng.choice('NTDGA'), msgs, names, anchors) for _ in range(k)]
        check_case(ctx, groups, fs, list(itertools.permutations(range(k))))
    numeric(ctx, [p for p in (position_of(m) for m in pool_msgs) if p])


def replay(ctx, data):
    import vlib
    rep = vlib.Report('C19', 'quick', 0)

    class C:
        pass
    c = C()
    c.rep, c.rng, c.quick = rep, ctx.rng, True
    c.budget = lambda q, t: q
    c.force_reconfigured = bool(data.get('reconfigured'))
    c.force_shared = bool(data.get('shared'))
    if 'haversine' in data:
        v = [unnum(x) for x in data['haversine']]
        check_haversine(rep, (v[0], v[1]), (v[2], v[3]), 'replay')
        return rep.violations[0]['what'] if rep.violations else None
    own = None
    c.model = ctx.model
    if c.model is None:
        try:
            own = c.model = vlib.FastModel()
        except Exception:
            c.model = None
    try:
        if 'synthetic' in data:
            lines = [synth_from_json(j) for j in data['synthetic']]
        else:
            lines = [ln.encode('latin-1') for ln in data['lines']]
        fs = [tuple(f) for f in data['filters']]
        perms = [tuple(range(len(fs)))]
        if data.get('perm'):
            perms.append(tuple(data['perm']))
        check_case(c, [{'lines': lines, 'kind': 'replay'}], fs, perms)
    finally:
        if own:
            own.close()
    if rep.violations:
        return rep.violations[0]['what']
    if rep.disagreements:
        d = rep.disagreements[0]
        return f"model and implementation differ: model {d['model']}, implementation {d['impl']}"
    return None
