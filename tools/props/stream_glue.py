"""Glue between the one-shot decode API of pyais and its extracted model (Model/DecodeApi.v), used by C04 (and the
reader properties): the same argument lists through pyais.decode_nmea_and_ais / decode and through the driver command
`decodeapi_full`, compared attribute by attribute; plus the labelling of generated carriers by the specification's own
witness check (Spec/CarrierSpec.v carrier_checkb, driver command `carrierchk`)."""
import os
import sys

sys.path.insert(0, os.path.dirname(os.path.dirname(os.path.abspath(__file__))))
sys.path.insert(0, os.path.dirname(os.path.abspath(__file__)))
import nmea_common as nc  # noqa: E402

LAYER = 'H-decode-api'


def as_bytes(parts):
    """what decode() does with its arguments before parsing: str -> UTF-8 bytes"""
    return [p.encode('utf-8') if isinstance(p, str) else bytes(p) for p in parts]


def compare_decode_api(ctx, cases, strict_every=5, max_report=25):
    """cases: sequences whose item [1] is the argument list (str or bytes items) handed to decode().
    Model: decode_api strict (bytes of the arguments); implementation: decode_nmea_and_ais(*arguments) -- the assembled
    sentence (raw, payload, bits, validity, message id, numbering ...), the message class and every field value, or the
    exception class.  Every case in lenient mode, every [strict_every]-th one also with error_if_checksum_invalid."""
    rep, model = ctx.rep, ctx.model
    if not model or not cases:
        return 0
    reqs, origin = [], []
    for k, case in enumerate(cases):
        b = as_bytes(case[1])
        reqs.append((False, b))
        origin.append((k, False))
        if strict_every and k % strict_every == 0:
            reqs.append((True, b))
            origin.append((k, True))
    replies = nc.model_decode(model, reqs)
    n_dis = 0
    for (k, strict), (_, b), m in zip(origin, reqs, replies):
        args = cases[k][1]
        rep.case(('decode-api', strict, tuple(b)), kind='model-vs-code' + (':strict' if strict else ''))
        res = nc.impl_decode(list(args), strict)
        outcome = res[1] if res[0] == 'Raise' else 'Ok'
        rep.count('decode-api-outcome:' + outcome)
        if m[0] == 'Raise' and m[1] == 'Unmodelled':
            rep.count('skipped:unmodelled')
            continue
        d = nc.diff_decode(res, m)
        if d:
            n_dis += 1
            if n_dis <= max_report:
                rep.disagree(LAYER, {'entry': 'decode_nmea_and_ais', 'strict': strict, 'parts': [p.hex() for p in b],
                                     'text': [repr(p)[:140] for p in b], 'as_str': [isinstance(a, str) for a in args]},
                             tuple(m[:2]) + (d,), tuple(res[:2]))
    return n_dis


def hx(b):
    return b.hex() if b else '-'


def carrier_request(payload, fill, seq, witness, parts):
    """driver request for Spec/CarrierSpec.v carrier_checkb.  witness: per fragment, in fragment order, dicts with
    chunk / talker / type / channel / checksum (bytes) / tag (bytes or None) / trailing (bytes)."""
    w = [f'carrierchk {hx(payload)} {fill} {"None" if seq is None else seq} {len(witness)}']
    for f in witness:
        w += [hx(f['chunk']), hx(f['talker']), hx(f['type']), hx(f['channel']), hx(f['checksum']),
              'None' if f['tag'] is None else hx(f['tag']), hx(f['trailing'])]
    w += [hx(p) for p in as_bytes(parts)]
    return ' '.join(w)


def label_carriers(ctx, items):
    """items: (payload bytes, fill, seq, witness, parts).  -> list of bool: inside the family of the specification."""
    if not ctx.model or not items:
        return []
    out = ctx.model.ask_many([carrier_request(*it) for it in items])
    bad = [o for o in out if o not in ('0', '1')]
    if bad:
        raise RuntimeError('driver: ' + bad[0][:200])
    return [o == '1' for o in out]
