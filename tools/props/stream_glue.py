def compare_decode_api(ctx, cases):
    pass
