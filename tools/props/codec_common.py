"""H-codec: shared generators, canonicalisation and comparisons for C01, C02, C08, C11."""
import enum
import os
import sys

sys.path.insert(0, os.path.dirname(os.path.dirname(os.path.abspath(__file__))))
import ais  # noqa: E402

# variant name (pyais class), type id, nominal bits, fixed discriminator bits -- harness-side knowledge used only to
# BUILD payloads; the expected class of each payload is what the extracted Spec says (cross-checked below)
VARIANTS = [
    ('MessageType1', 1, 168, {}), ('MessageType2', 2, 168, {}), ('MessageType3', 3, 168, {}),
    ('MessageType4', 4, 168, {}), ('MessageType5', 5, 424, {}), ('MessageType6', 6, 1008, {}),
    ('MessageType7', 7, 168, {}), ('MessageType8', 8, 1008, {}), ('MessageType9', 9, 168, {}),
    ('MessageType10', 10, 72, {}), ('MessageType11', 11, 168, {}), ('MessageType12', 12, 1008, {}),
    ('MessageType13', 13, 168, {}), ('MessageType14', 14, 1008, {}), ('MessageType15', 15, 160, {}),
    ('MessageType16', 16, 144, {}), ('MessageType17', 17, 816, {}), ('MessageType18', 18, 168, {}),
    ('MessageType19', 19, 312, {}), ('MessageType20', 20, 160, {}), ('MessageType21', 21, 360, {}),
    ('MessageType22Addressed', 22, 168, {139: 1}), ('MessageType22Broadcast', 22, 168, {139: 0}),
    ('MessageType23', 23, 160, {}),
    ('MessageType24PartA', 24, 168, {38: 0, 39: 0}), ('MessageType24PartB', 24, 168, {38: 0, 39: 1}),
    ('MessageType25AddressedStructured', 25, 168, {38: 1, 39: 1}),
    ('MessageType25BroadcastStructured', 25, 168, {38: 0, 39: 1}),
    ('MessageType25AddressedUnstructured', 25, 168, {38: 1, 39: 0}),
    ('MessageType25BroadcastUnstructured', 25, 168, {38: 0, 39: 0}),
    ('MessageType26AddressedStructured', 26, 1064, {38: 1, 39: 1}),
    ('MessageType26BroadcastStructured', 26, 1064, {38: 0, 39: 1}),
    ('MessageType26AddressedUnstructured', 26, 1064, {38: 1, 39: 0}),
    ('MessageType26BroadcastUnstructured', 26, 1064, {38: 0, 39: 0}),
    ('MessageType27', 27, 96, {}),
]


def random_bits(rng, n):
    return format(rng.getrandbits(n), f'0{n}b') if n else ''


def make_payload(rng, variant, length=None):
    name, tid, nominal, fixed = variant
    n = nominal if length is None else length
    b = list(random_bits(rng, n))
    b[0:6] = format(tid, '06b')[:n]
    for k, v in fixed.items():
        if k < n:
            b[k] = str(v)
    return ''.join(b[:n])


def set_field(bits, off, w, raw):
    return bits[:off] + format(raw & ((1 << w) - 1), f'0{w}b') + bits[off + w:]


# ---------------------------------------------------------------------------------------------------
# the implementation, through its public API
# ---------------------------------------------------------------------------------------------------
def impl_decode(bits, **kw):
    """pyais.decode(*sentences) of the payload -> ('Ok', class name, [(field, value)]) | ('Raise', exception name)"""
    import pyais
    try:
        msg = pyais.decode(*ais.bits_to_sentences(bits, **kw))
    except Exception as e:
        return ('Raise', type(e).__name__, str(e)[:200])
    d = msg.asdict()
    names = [f.name for f in type(msg).fields()]      # bit fields only (asdict() also lists derived slots, e.g. full_name)
    return ('Ok', type(msg).__name__, [(n, d[n]) for n in names], msg)


# ---------------------------------------------------------------------------------------------------
# value text of the driver <-> Python values
# ---------------------------------------------------------------------------------------------------
def parse_fields(txt):
    out = []
    if txt and txt != '-':
        for kv in txt.split(';'):
            k, v = kv.split('=', 1)
            out.append((k, v))
    return out


def parse_msg(reply):
    """'Ok Class a=..;b=..' | 'Raise X' -> ('Ok', cls, [(name, valtext)]) | ('Raise', X)"""
    if reply.startswith('Raise '):
        return ('Raise', reply[6:].strip())
    if reply.startswith('ERROR'):
        raise RuntimeError('driver: ' + reply)
    _, cls, rest = (reply.split(' ', 2) + [''])[:3]
    return ('Ok', cls, parse_fields(rest))


def cps(s):
    return [int(x) for x in s.split('.')] if s else []


def value_matches(py, txt):
    """Does the Python value equal the model value written as txt?  Floats are tied exactly: x == num/den."""
    k, body = txt[0], txt[1:]
    if k == 'N':
        return py is None
    if py is None:
        return False
    if k == 'i':
        return type(py) is int and py == int(body)
    if k == 'b':
        return type(py) is bool and py == (body == '1')
    if k == 'f':
        n, d = body.split('/')
        return type(py) is float and ais.float_is(py, int(n), int(d))
    if k == 's':
        return type(py) is str and [ord(c) for c in py] == cps(body)
    if k == 'y':
        return type(py) is bytes and py.hex() == body
    if k == 'e':
        name, code = body.split(':')[:2]
        return isinstance(py, enum.Enum) and isinstance(py, int) and type(py).__name__ == name and int(py) == int(code)
    if k == 't':
        return isinstance(py, enum.Enum) and isinstance(py, float) and float(py) == float(int(body))
    return False


def spec_value_matches(py, txt):
    """Does the Python value satisfy the specification value (Spec/Layout.v sval)?"""
    k, body = txt[0], txt[1:]
    if py is None:
        return False
    if k == 'i':
        return isinstance(py, int) and not isinstance(py, bool) and int(py) == int(body) and not isinstance(py, enum.Enum)
    if k == 'b':
        return isinstance(py, bool) and py == (body == '1')
    if k == 'f':
        n, d = body.split('/')
        return isinstance(py, float) and not isinstance(py, enum.Enum) and ais.float_is(float(py), int(n), int(d))
    if k == 's':
        return isinstance(py, str) and [ord(c) for c in py] == cps(body)
    if k == 'y':
        return isinstance(py, bytes) and py.hex() == body
    if k == 'e':
        name, code, defined = body.split(':')
        if not (isinstance(py, enum.Enum) and isinstance(py, int) and type(py).__name__ == name):
            return False
        return int(py) == int(code) if defined == '1' else True
    if k == 't':
        return isinstance(py, enum.Enum) and isinstance(py, float) and float(py) == float(int(body))
    return False


def value_text(py):
    """Python value -> driver text (for create/encode requests).  Floats must be given as (num, den) tuples or
    ints/Fractions by the caller; a Python float is written with its shortest repr as a decimal fraction."""
    from fractions import Fraction
    from decimal import Decimal
    if py is None:
        return 'N'
    if isinstance(py, enum.Enum):
        if isinstance(py, float):
            return f't{int(py)}'
        return f'e{type(py).__name__}:{int(py)}'
    if isinstance(py, bool):
        return 'b1' if py else 'b0'
    if isinstance(py, int):
        return f'i{py}'
    if isinstance(py, float):
        fr = Fraction(Decimal(repr(py)))
        return f'f{fr.numerator}/{fr.denominator}'
    if isinstance(py, str):
        return 's' + '.'.join(str(ord(c)) for c in py)
    if isinstance(py, (bytes, bytearray)):
        return 'y' + bytes(py).hex()
    raise TypeError(py)


def show(py):
    if isinstance(py, enum.Enum):
        return f'{type(py).__name__}.{py.name}'
    return repr(py)


def compare_model(impl, model):
    """impl = impl_decode result, model = parse_msg result -> None if equal else text."""
    if impl[0] == 'Raise' or model[0] == 'Raise':
        if impl[0] == 'Raise' and model[0] == 'Raise' and impl[1] == model[1]:
            return None
        return f'outcome: impl {impl[:2]} model {model[:2]}'
    if impl[1] != model[1]:
        return f'class: impl {impl[1]} model {model[1]}'
    if [k for k, _ in impl[2]] != [k for k, _ in model[2]]:
        return 'field names differ'
    for (k, pv), (_, mv) in zip(impl[2], model[2]):
        if not value_matches(pv, mv):
            return f'{k}: impl {show(pv)} model {mv}'
    return None


def parse_spec(reply):
    """'Class nominal disc_end padok fields layout' -> dict or None"""
    if reply == 'None':
        return None
    cls, nominal, disc, padok, fields, layout = reply.split(' ', 5)
    lay = []
    for item in layout.split(';'):
        n, o, w = item.split(':')
        lay.append((n, int(o), int(w)))
    return {'class': cls, 'nominal': int(nominal), 'disc_end': int(disc), 'pad_ok': padok == '1',
            'fields': parse_fields(fields), 'layout': lay}


def zero_text_padding(bits, spec):
    """Clear the sub-character padding bits of text fields (the quantifier of C01/C08 assumes them zero)."""
    kinds = dict(spec['fields'])
    for n, o, w in spec['layout']:
        if kinds.get(n, '?')[0] == 's' and w % 6:
            lo = o + (w // 6) * 6
            bits = bits[:lo] + '0' * (o + w - lo) + bits[o + w:]
    return bits


def interesting_raws(w, signed_hint=False):
    vals = {0, 1, (1 << w) - 1, (1 << w) - 2, 1 << (w - 1), (1 << (w - 1)) - 1}
    if w >= 8:
        vals |= {0x80 << (w - 8), 127, 128, 129, 255 & ((1 << w) - 1)}
    return sorted(v for v in vals if 0 <= v < (1 << w))


SENTINELS = {  # name -> raw values of special meaning (not available etc.), as signed quantities
    'lon': [181 * 600000, -181 * 600000, 180 * 600000, -180 * 600000, 1810, -1810, 181 * 600, -1],
    'lat': [91 * 600000, -91 * 600000, 90 * 600000, -90 * 600000, 910, -910, 91 * 600, -1],
    'speed': [1023, 1022, 63, 62], 'course': [3600, 3599, 511, 360], 'heading': [511, 359],
    'turn': [127, -127, -128, 128, 1, -1, 2, -2, 3, 4, -4, 5, 6, 10, 126, -126, 64, -64],
    'second': [60, 61, 62, 63], 'draught': [255], 'alt': [4095, 4094],
}
