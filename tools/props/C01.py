"""C01 -- decoding follows the published AIS bit layout for every message type.

Model: Model/Codec.v over the regenerated tables (Gen/GenTables, GenDispatch, GenConv, GenEnums, GenAlpha).
Correspondence: extracted decode_bits vs pyais.decode(*sentences).  Oracle: Spec/Layout.v (extracted spec_decode /
spec_variant) on the implementation's decoded message."""
import os
import sys

sys.path.insert(0, os.path.dirname(os.path.abspath(__file__)))
import codec_common as cc  # noqa: E402

GEN = ['GenTables.v', 'GenDispatch.v', 'GenConv.v', 'GenEnums.v', 'GenAlpha.v']
RULE = ('payload bit strings of nominal length for each of the 35 layout variants: PRNG-drawn payloads plus per-field sweeps '
        '(raw codes 0, 1, max, max-1, sign bit, sign bit-1, sentinels such as 181/91 degrees, 0x80, 1023, 511; every code of '
        'every field of width <= 8; all 64 six-bit codes at the first, a middle and the last position of every text field) each in '
        'a random context, both values of every discriminator bit; sub-character text padding zeroed for the oracle, left '
        'random in a separate model-vs-code stream; distinct = distinct bit strings')
ASSUMPTIONS = ['binary64 arithmetic obeys the standard model (each operation correctly rounded): the exact-rational value of '
               'a scaled field and the Python float are tied by x == num/den on Python integers',
               'payloads reach the decoder through well-formed !AIVDM sentences built by the harness (tools/ais.py)']
TRUSTED_EXTRA = ['Spec/Layout.v is a hand transcription of ITU-R M.1371-5 / gpsd AIVDM (DESIGN.md Appendix A)']


def field_sweep_cases(rng, variant, spec, per_field):
    """yield (kind, bits) with one field set to an interesting raw code in a random context."""
    kinds = dict(spec['fields'])
    for name, off, w in spec['layout']:
        if name == 'msg_type' or (off in variant[3]) or any(off <= k < off + w for k in variant[3]):
            continue    # the discriminators stay fixed: they define the variant
        k = kinds[name][0]
        raws = set()
        if k == 's':
            nchars = w // 6
            for pos in sorted({0, nchars // 2, nchars - 1}):
                for code in (range(64) if per_field >= 8 else rng.sample(range(64), 6)):
                    base = cc.make_payload(rng, variant)
                    yield ('text', cc.set_field(base, off + 6 * pos, 6, code))
            # leading '@', blanks only, trailing blanks
            base = cc.make_payload(rng, variant)
            yield ('text', cc.set_field(base, off, 6, 0))
            yield ('text', cc.set_field(base, off, w - w % 6, int('100000' * nchars, 2)) if nchars else base)
            yield ('text', cc.set_field(cc.set_field(base, off, 6, 32), off + 6 * (nchars - 1), 6, 32))
            continue
        if k == 'y':
            for raw in (0, (1 << w) - 1, 1, 1 << (w - 1)):
                yield ('bytes', cc.set_field(cc.make_payload(rng, variant), off, w, raw))
            continue
        if w <= 8:
            raws |= set(range(1 << w))
        raws |= set(cc.interesting_raws(w))
        for s in cc.SENTINELS.get(name.rstrip('0123456789_').replace('ne_', '').replace('sw_', ''), []):
            raws.add(s & ((1 << w) - 1))
        # sign boundary, extremes and sentinels first: a budget cut must never drop them
        prio = [1 << (w - 1), (1 << (w - 1)) - 1, (1 << w) - 1, 0, 1, (1 << w) - 2, (1 << (w - 1)) + 1]
        sent = [s & ((1 << w) - 1) for s in cc.SENTINELS.get(name.rstrip('0123456789_').replace('ne_', '').replace('sw_', ''), [])]
        ordered = []
        for r in prio + sent + sorted(raws):
            if 0 <= r < (1 << w) and r not in ordered:
                ordered.append(r)
        raws = ordered
        if len(raws) > per_field + len(prio) + len(sent) and w > 8:
            raws = raws[:per_field + len(prio) + len(sent)]
        for raw in raws:
            yield ('field:' + k, cc.set_field(cc.make_payload(rng, variant), off, w, raw))
        for _ in range(2):
            yield ('field:' + k, cc.set_field(cc.make_payload(rng, variant), off, w, rng.getrandbits(w)))


def check_batch(ctx, variant, cases, use_oracle=True):
    rep = ctx.rep
    lines = []
    for _, bits in cases:
        lines.append(f'decode {bits}')
        lines.append(f'spec {bits}')
    replies = ctx.model.ask_many(lines) if ctx.model else None
    for i, (kind, bits) in enumerate(cases):
        rep.case(bits, kind=kind)
        impl = cc.impl_decode(bits)
        if replies is not None:
            model = cc.parse_msg(replies[2 * i])
            diff = cc.compare_model(impl, model)
            if diff:
                rep.disagree('H-codec/decode', {'variant': variant[0], 'bits': bits}, replies[2 * i][:300], diff)
            spec = cc.parse_spec(replies[2 * i + 1])
        else:
            spec = None
        if not use_oracle or spec is None:
            continue
        if not spec['pad_ok'] or len(bits) != spec['nominal']:
            rep.count('outside-quantifier')
            continue
        replay = {'bits': bits}
        if impl[0] == 'Raise':
            rep.violation({'entry': 'decode', 'class': spec['class'], 'component': 'exception',
                           'kind': f'exception:{impl[1]}'},
                          f"{spec['class']}: decode raised {impl[1]} on a nominal-length payload", replay)
            continue
        if impl[1] != spec['class']:
            rep.violation({'entry': 'decode', 'class': spec['class'], 'component': 'variant', 'kind': 'wrong-class'},
                          f"payload selects {spec['class']} by its discriminator bits, decoded as {impl[1]}", replay)
            continue
        got = dict(impl[2])
        for name, sv in spec['fields']:
            if name not in got:
                rep.violation({'entry': 'decode', 'class': spec['class'], 'component': name, 'kind': 'missing-field'},
                              f"{spec['class']}.{name} missing", replay)
            elif not cc.spec_value_matches(got[name], sv):
                rep.violation({'entry': 'decode', 'class': spec['class'], 'component': name, 'kind': 'wrong-value'},
                              f"{spec['class']}.{name} = {cc.show(got[name])}, layout gives {sv}", replay)
        if i % 401 == 0:
            rep.sample({'variant': spec['class'], 'bits': bits[:64] + '...', 'decoded': {k: cc.show(v) for k, v in impl[2][:8]}})


def run(ctx, n_random=None, per_field=None):
    rng = ctx.rng
    n_random = n_random if n_random is not None else ctx.budget(12, 300)
    per_field = per_field if per_field is not None else ctx.budget(8, 40)
    for variant in cc.VARIANTS:
        base = cc.make_payload(rng, variant)
        spec = cc.parse_spec(ctx.model.ask(f'spec {base}')) if ctx.model else None
        if spec is None:
            ctx.rep.internal(f'spec_variant gives no variant for a payload built as {variant[0]}')
            continue
        if spec['class'] != variant[0] or spec['nominal'] != variant[2]:
            ctx.rep.internal(f'harness variant table and Spec/Layout.v disagree on {variant[0]}: {spec["class"]}')
            continue
        cases = []
        for _ in range(n_random):
            cases.append(('random', cc.zero_text_padding(cc.make_payload(rng, variant), spec)))
        for kind, bits in field_sweep_cases(rng, variant, spec, per_field):
            cases.append((kind, cc.zero_text_padding(bits, spec)))
        check_batch(ctx, variant, cases)
        # model-vs-code only: padding left random, type id 0
        extra = [('padding-random', cc.make_payload(rng, variant)) for _ in range(max(2, n_random // 4))]
        check_batch(ctx, variant, extra, use_oracle=False)
    # type id 0 (alias of type 1) and unknown ids: correspondence only
    others = []
    for tid in (0, 28, 31, 63):
        b = cc.random_bits(rng, 168)
        others.append(('type-id-%d' % tid, format(tid, '06b') + b[6:]))
    check_batch(ctx, ('other', 0, 168, {}), others, use_oracle=False)
    shorter_forms(ctx, ctx.budget(6, 60))
    same_characters(ctx, ctx.budget(4, 40))


def copies_decode_differently(bits, ref):
    """The assembled sentence object a reader delivers, copied (copy.copy, copy.deepcopy, a pickle round trip -- how sentences
    travel to worker processes) and then decoded: every copy must decode to the same fields as the plain decode (the object
    protocol must not lose the fill bits of the last fragment).  -> (component, text) | None"""
    import copy
    import pickle
    from pyais.stream import IterMessages
    try:
        sent = next(iter(IterMessages(cc.ais.bits_to_sentences(bits, maxlen=17))))
    except Exception as e:   # noqa: BLE001
        return ('reader', f'the reader raised {type(e).__name__}')
    want = [repr(cc.ais.canon_value(v)) for _, v in ref[2]]
    for name, fn in (('the delivered sentence', lambda x: x), ('copy.copy', copy.copy), ('copy.deepcopy', copy.deepcopy),
                     ('pickle round trip', lambda x: pickle.loads(pickle.dumps(x)))):
        try:
            m = fn(sent).decode()
            d = m.asdict()
            got = [repr(cc.ais.canon_value(d[f.name])) for f in type(m).fields()]
        except Exception as e:   # noqa: BLE001
            return (name, f'{name} of the sentence, then decode(): raised {type(e).__name__}')
        if type(m).__name__ != ref[1] or got != want:
            k = next((f.name for f, x, y in zip(type(m).fields(), got, want) if x != y), 'class')
            return (k, f'{name} of the sentence decodes {k} differently from the plain decode of the same payload')
    return None


def shorter_forms(ctx, n_each):
    """Payloads of the documented SHORTER forms (the trailing variable-length binary / text field cut on a byte / character
    boundary, so that fill bits are needed), carried by several short sentences handed over in reverse order: every field must
    have the value the in-order single-sentence carrier gives (whose decode is tied to the layout by C11 and by the
    model).  Pad bits of the closing fragment must not become payload."""
    import pyais
    rng, rep = ctx.rng, ctx.rep
    for variant in cc.VARIANTS:
        base = cc.make_payload(rng, variant)
        spec = cc.parse_spec(ctx.model.ask(f'spec {base}')) if ctx.model else None
        if spec is None:
            continue
        kinds = dict(spec['fields'])
        name, off, w = spec['layout'][-1]
        k = kinds[name][0]
        if k not in ('y', 's') or w < 48:
            continue
        unit = 8 if k == 'y' else 6
        for _ in range(n_each):
            length = off + unit * rng.randrange(1, w // unit)
            if length % 6 == 0:
                length -= unit if (length - unit) % 6 and length - unit > off else 0
            bits = cc.make_payload(rng, variant, length)
            rep.case(('shorter-form', bits), kind='shorter-form:' + ('fill' if length % 6 else 'nofill'))
            a = cc.impl_decode(bits)
            if a[0] == 'Ok':
                bad = copies_decode_differently(bits, a)
                if bad:
                    rep.violation({'entry': 'sentence copy + decode', 'class': a[1], 'component': bad[0], 'kind': 'copy-decodes-differently'},
                                  f'{a[1]} payload of {length} bits, assembled from several sentences by a reader: {bad[1]}',
                                  {'bits': bits, 'copies': True})
            try:
                msg = pyais.decode(*reversed(cc.ais.bits_to_sentences(bits, maxlen=17)))
                d = msg.asdict()
                b = ('Ok', type(msg).__name__, [(f.name, d[f.name]) for f in type(msg).fields()])
            except Exception as e:   # noqa: BLE001
                b = ('Raise', type(e).__name__)
            if a[0] != 'Ok':
                continue
            if b[0] != 'Ok' or b[1] != a[1]:
                rep.violation({'entry': 'decode(reversed parts)', 'class': a[1], 'component': 'outcome', 'kind': 'wrong-class'},
                              f'{a[1]} payload of {length} bits: parts in reverse order give {b[:2]}', {'bits': bits, 'reversed': True})
                continue
            for (n1, v1), (n2, v2) in zip(a[2], b[2]):
                if repr(cc.ais.canon_value(v1)) != repr(cc.ais.canon_value(v2)):
                    rep.violation({'entry': 'decode(reversed parts)', 'class': a[1], 'component': n1, 'kind': 'wrong-value'},
                                  f'{a[1]}.{n1} of a {length}-bit payload is {cc.show(v1)} for the plain carrier but {cc.show(v2)} '
                                  f'when its sentences are passed in reverse order', {'bits': bits, 'reversed': True})
                    break


def same_characters(ctx, n_each):
    """Two DIFFERENT payloads whose armored characters are the same and whose fill-bit counts differ (a shorter form that ends
    on a byte boundary, and the same bits followed by the zero bits that pad it to a six-bit boundary), decoded one after the
    other in both orders, and the first one again: the trailing binary field must be exactly the received bits, left-aligned
    into bytes -- whatever was decoded before (a result remembered under the payload characters alone shows only here)."""
    rng, rep = ctx.rng, ctx.rep
    for variant in cc.VARIANTS:
        base = cc.make_payload(rng, variant)
        spec = cc.parse_spec(ctx.model.ask(f'spec {base}')) if ctx.model else None
        if spec is None:
            continue
        kinds = dict(spec['fields'])
        name, off, w = spec['layout'][-1]
        if kinds[name][0] != 'y' or w < 48:
            continue
        for k in range(n_each):
            length = off + 8 * rng.randrange(1, w // 8)
            fill = -length % 6
            if not fill or length + fill > off + w:
                continue
            short = cc.make_payload(rng, variant, length)
            long_ = short + '0' * fill
            order = [short, long_, short] if k % 2 == 0 else [long_, short, long_]
            for step, bits in enumerate(order):
                rep.case(('same-characters', bits, step), kind='same-characters:' + ('short' if bits is short else 'long'))
                got = cc.impl_decode(bits)
                if got[0] != 'Ok':
                    continue
                tail = bits[off:]
                want = int(tail.ljust(-(-len(tail) // 8) * 8, '0'), 2).to_bytes(-(-len(tail) // 8), 'big')
                val = dict(got[2]).get(name)
                if val != want:
                    rep.violation({'entry': 'decode', 'class': got[1], 'component': name, 'kind': 'wrong-value/history'},
                                  f'{got[1]}.{name} of a {len(bits)}-bit payload is {cc.show(val)}, the received bits are '
                                  f'{cc.show(want)} (decoded {"after" if step else "before"} a payload with the same armored '
                                  f'characters and {"no" if bits is short else str(fill)} fill bits)',
                                  {'bits': bits, 'sequence': order, 'step': step, 'field': name, 'offset': off})
                    break


def hunt(ctx):
    run(ctx, n_random=ctx.budget(150, 600), per_field=64)


def replay(ctx, data):
    import vlib
    m = ctx.model or vlib.FastModel()
    bits = data['bits']
    if data.get('copies'):
        a = cc.impl_decode(bits)
        bad = copies_decode_differently(bits, a) if a[0] == 'Ok' else None
        return bad[1] if bad else None
    if data.get('sequence'):
        off, name = data['offset'], data['field']
        for step, b in enumerate(data['sequence'][:data['step'] + 1]):      # the same decode() calls, in the recorded order
            got = cc.impl_decode(b)
        if got[0] != 'Ok':
            return None
        tail = bits[off:]
        want = int(tail.ljust(-(-len(tail) // 8) * 8, '0'), 2).to_bytes(-(-len(tail) // 8), 'big')
        val = dict(got[2]).get(name)
        return None if val == want else f'{name} = {cc.show(val)}, the received bits are {cc.show(want)} (after the preceding decode() calls)'
    if data.get('reversed'):
        import pyais
        a = cc.impl_decode(bits)
        try:
            msg = pyais.decode(*reversed(cc.ais.bits_to_sentences(bits, maxlen=17)))
        except Exception as e:   # noqa: BLE001
            return f'parts in reverse order raise {type(e).__name__}' if a[0] == 'Ok' else None
        d = msg.asdict()
        if a[0] == 'Ok' and [repr(cc.ais.canon_value(v)) for _, v in a[2]] != \
                [repr(cc.ais.canon_value(d[f.name])) for f in type(msg).fields()]:
            return 'the sentences passed in reverse order decode to different field values'
        return None
    spec = cc.parse_spec(m.ask(f'spec {bits}'))
    impl = cc.impl_decode(bits)
    if spec is None:
        return None
    if impl[0] == 'Raise':
        return f'decode raised {impl[1]}'
    if impl[1] != spec['class']:
        return f"payload selects {spec['class']}, decoded as {impl[1]}"
    got = dict(impl[2])
    bad = [f"{n} = {cc.show(got.get(n))}, layout gives {sv}" for n, sv in spec['fields']
           if n not in got or not cc.spec_value_matches(got[n], sv)]
    return '; '.join(bad) if bad else None
