"""C10 -- the checksum flag is true exactly when the NMEA checksum matches.

Model: Model/Nmea.v (produce), Model/AssembleIter.v, Model/DecodeApi.v.  Specification: Spec/ChecksumSpec.v (extracted:
the flag the property demands for a body and two checksum characters; the conjunction for an assembled message).
Correspondence (H-nmea): extracted produce / decode_api vs pyais decode_nmea_line / decode_nmea_and_ais (lenient and
strict) on the same texts.  Oracle, on what the implementation returns: the flag of every parsed sentence equals the
demanded one; the flag of an assembled message is the conjunction over its AIS parts; strict decode() raises
InvalidNMEAChecksum exactly when a part is invalid (all parts parsing) and otherwise does what lenient decode() does."""
import itertools
import os
import sys

sys.path.insert(0, os.path.dirname(os.path.dirname(os.path.abspath(__file__))))
sys.path.insert(0, os.path.dirname(os.path.abspath(__file__)))
import ais  # noqa: E402
import nmea_common as nc  # noqa: E402

GEN = ['GenConst.v', 'GenTables.v', 'GenDispatch.v', 'GenConv.v', 'GenEnums.v']
RULE = ('sentences of every carrier form (AIVDM/AIVDO/other talkers, lower-case type, sequence ids, every fill count, XOR '
        'below 0x10, Gatehouse wrappers, random payloads); for each sampled sentence EVERY body position x EVERY printable '
        'byte 0x20..0x7e (incl. the unchanged byte and the forged "*"), all 256 checksum values in upper, lower and mixed '
        'case, sentences behind a tag block / with surrounding blanks and CR LF; multi-part messages of 2-4 parts with EVERY '
        'subset of parts corrupted (wrong checksum value or a changed body byte), in order, reversed and with a wrapper '
        'mixed in; each through decode_nmea_line and decode_nmea_and_ais lenient and strict; a case is one argument list; '
        'distinct = distinct argument lists')
ASSUMPTIONS = ['the claim covers checksum fields of exactly two hex digits and bodies free of "*" (property text); other '
               'inputs are compared model-vs-code only', 'arguments are bytes or ASCII str']
TRUSTED_EXTRA = ['Spec/ChecksumSpec.v: XOR of the body bytes, value of two hex digits -- the meaning of C10']


class Part:
    """one sentence text = prefix + d + body + '*' + hh + suffix"""

    def __init__(self, d, body, hh, prefix=b'', suffix=b''):
        self.d, self.body, self.hh, self.prefix, self.suffix = d, body, hh, prefix, suffix

    @property
    def text(self):
        return self.prefix + self.d + self.body + b'*' + self.hh + self.suffix

    def key(self):
        return (self.prefix, self.d, self.body, self.hh, self.suffix)


def part_of(fields, chk=None, lower=False, **kw):
    txt = b','.join(fields)
    c = nc.xor(txt[1:]) if chk is None else chk
    return Part(txt[:1], txt[1:], format(c & 0xff, '02x' if lower else '02X').encode(), **kw)


def sample_sentences(rng, n_random):
    out = [f for _, f in nc.base_sentences(rng) if f[0][3:].upper() in (b'VDM', b'VDO') or f[0][3:].upper() == b'HP']
    out.append(nc.low_xor_sentence())
    for _ in range(n_random):
        n = rng.choice([rng.randrange(1, 28), rng.randrange(28, 120), rng.randrange(120, 201)]) * 6      # up to the 200 characters a
        fill = rng.randrange(6)                                                                          # sentence may carry
        payload, f = ais.armor(''.join(rng.choice('01') for _ in range(n - fill)))
        out.append([rng.choice([b'!AIVDM', b'!AIVDO', b'!BSVDM', b'!ABvdo', b'$SAVDM']), b'1', b'1',
                    rng.choice([b'', b'', b'7']), rng.choice([b'A', b'B', b'1', b'2', b'']), payload.encode(), str(f).encode()])
    return out


def multi_messages(rng):
    """lists of comma-field lists: complete multi-part messages of 2, 3 and 4 parts"""
    out = [[[b'!AIVDM', b'2', b'1', b'1', b'A', nc.P2A, b'0'], [b'!AIVDM', b'2', b'2', b'1', b'A', nc.P2B, b'2']]]
    # a message whose closing fragment carries NO payload characters (legal: the payload ended exactly at the fragment limit)
    bits = format(8, '06b') + ''.join(rng.choice('01') for _ in range(40 * 6 - 6))
    payload, fill = ais.armor(bits)
    seq = str(rng.randrange(10)).encode()
    out.append([[b'!AIVDM', b'2', b'1', seq, b'A', payload.encode(), b'0'], [b'!AIVDM', b'2', b'2', seq, b'A', b'', b'0']])
    out.append([[b'!AIVDM', b'3', b'1', seq, b'B', payload[:30].encode(), b'0'], [b'!AIVDM', b'3', b'2', seq, b'B', b'', b'0'],
                [b'!AIVDM', b'3', b'3', seq, b'B', payload[30:].encode(), b'0']])
    for n in (2, 3, 4):
        bits = ''.join(rng.choice('01') for _ in range(rng.randrange(30, 60) * 6 - 2))
        bits = format(rng.choice([5, 8, 12, 14, 19, 21, 26]), '06b') + bits[6:]
        payload, fill = ais.armor(bits)
        cuts = sorted(rng.sample(range(1, len(payload)), n - 1))
        bounds = [0] + cuts + [len(payload)]
        seq = str(rng.randrange(10)).encode()
        ch = rng.choice([b'A', b'B'])
        out.append([[b'!AIVDM', str(n).encode(), str(i + 1).encode(), seq, ch, payload[bounds[i]:bounds[i + 1]].encode(),
                     str(fill if i == n - 1 else 0).encode()] for i in range(n)])
    return out


def spec_flags(model, parts):
    """-> list of (star_free, xor, demanded flag or None) from the extracted Spec/ChecksumSpec.v"""
    out = []
    reqs = []
    for p in parts:
        if len(p.hh) == 2:
            reqs.append(f'c10spec {nc.hx(p.body)} {nc.hx(p.hh)}')
    replies = iter(model.ask_many(reqs, batch=256) if reqs else [])
    for p in parts:
        if len(p.hh) != 2:
            out.append((b'*' not in p.body, None, None))
            continue
        sf, x, fl = next(replies).split()
        out.append((sf == '1', int(x), None if fl == 'None' else fl == '1'))
    return out


def same_outcome(a, b):
    """two impl_decode results describe the same outcome (exception class, or sentence attributes and message)"""
    if a[0] != b[0]:
        return False
    if a[0] == 'Raise':
        return a[1] == b[1]
    return a[1] == b[1] and a[2][1] == b[2][1] and [(k, repr(v)) for k, v in a[2][2]] == [(k, repr(v)) for k, v in b[2][2]]


def oracle(parts, specs, prod, lenient, strict):
    """The property on the implementation's outputs.  parts in scope only.  -> list of (component, kind, text)"""
    bad = []
    demanded = [s[2] for s in specs]
    for p, want, r in zip(parts, demanded, prod):
        if r[0] == 'Ok' and r[1][1][6] != want:
            bad.append(('is_valid', 'wrong-flag',
                        f'{p.text[:100]!r}: is_valid={r[1][1][6]}, checksum {p.hh.decode()} vs XOR of the body '
                        f'0x{nc.xor(p.body):02X} demands {want}'))
    all_parse = all(r[0] == 'Ok' for r in prod)
    if lenient[0] == 'Ok' and all_parse:
        want = all(w for w, r in zip(demanded, prod) if r[1][0] == 'AIS')
        if lenient[1][1][6] != want:
            bad.append(('assembled is_valid', 'wrong-flag',
                        f'assembled message of {len(parts)} part(s) has is_valid={lenient[1][1][6]}, the parts demand {want}'))
    if all_parse:
        some_invalid = not all(demanded)
        raised = strict[0] == 'Raise' and strict[1] == 'InvalidNMEAChecksum'
        if raised != some_invalid:
            bad.append(('strict mode', 'strict-iff',
                        f'error_if_checksum_invalid=True on {[p.text[:60] for p in parts]!r}: '
                        f'{"raises" if raised else "does not raise"} InvalidNMEAChecksum (outcome {strict[:2] if strict[0] == "Raise" else "Ok"}), '
                        f'{"some part is" if some_invalid else "no part is"} invalid'))
        if not some_invalid and not same_outcome(strict, lenient):
            bad.append(('strict mode', 'strict-differs', 'all parts valid but strict and lenient decode() differ: '
                        f'{strict[:2] if strict[0] == "Raise" else "Ok"} vs {lenient[:2] if lenient[0] == "Raise" else "Ok"}'))
    if strict[0] == 'Ok' and not all(w for w in demanded):
        bad.append(('strict mode', 'accepted-invalid', f'strict decode() returned a message although a part is invalid: '
                                                       f'{[p.text[:60] for p in parts]!r}'))
    return bad


def run_cases(ctx, cases, model_decode_every=1):
    """cases: list of (kind, [Part, ...])"""
    rep, model = ctx.rep, ctx.model
    flat = [p for _, parts in cases for p in parts]
    specs_flat = spec_flags(model, flat) if model else None
    m_prod_flat = nc.model_produce(model, [p.text for p in flat]) if model else None
    dec_idx = [i for i in range(len(cases)) if i % model_decode_every == 0]
    m_dec = {}
    if model:
        out = nc.model_decode(model, [(s, [p.text for p in cases[i][1]]) for i in dec_idx for s in (False, True)])
        for k, i in enumerate(dec_idx):
            m_dec[i] = (out[2 * k], out[2 * k + 1])
    pos = 0
    n_dis = 0
    for i, (kind, parts) in enumerate(cases):
        texts = [p.text for p in parts]
        rep.case(tuple(texts), kind=kind)
        as_str = (i % 5 == 2) and all(all(c < 128 for c in t) for t in texts)
        args = [t.decode('ascii') for t in texts] if as_str else texts
        prod = [nc.impl_produce(t) for t in texts]
        lenient = nc.impl_decode(args, False)
        strict = nc.impl_decode(args, True)
        rep.count('strict:' + (strict[1] if strict[0] == 'Raise' else 'Ok'))
        if model is None:
            continue
        specs = specs_flat[pos:pos + len(parts)]
        mp = m_prod_flat[pos:pos + len(parts)]
        pos += len(parts)
        for p, r, m in zip(parts, prod, mp):
            d = nc.diff_produce(r, m)
            if d and n_dis < 25:
                n_dis += 1
                rep.disagree('H-nmea', {'entry': 'decode_nmea_line', 'raw': p.text.hex(), 'text': repr(p.text)[:160], 'kind': kind},
                             nc.short_outcome(m) + (d,), nc.short_outcome(r))
        if i in m_dec:
            for st, res, m in ((False, lenient, m_dec[i][0]), (True, strict, m_dec[i][1])):
                d = nc.diff_decode(res, m)
                if d and n_dis < 25:
                    n_dis += 1
                    rep.disagree('H-nmea', {'entry': 'decode', 'strict': st, 'parts': [t.hex() for t in texts],
                                            'text': [repr(t)[:120] for t in texts], 'kind': kind}, nc.short_outcome(m) + (d,), nc.short_outcome(res))
        in_scope = all(s[0] and s[2] is not None for s in specs)
        rep.count('in-scope' if in_scope else 'out-of-scope')
        if not in_scope:
            continue
        rep.count('demanded:' + ('valid' if all(s[2] for s in specs) else 'invalid'))
        for comp, knd, text in oracle(parts, specs, prod, lenient, strict):
            rep.violation({'entry': 'decode' if comp != 'is_valid' else 'decode_nmea_line', 'component': comp, 'kind': knd},
                          text, {'parts': [list(map(lambda b: b.hex(), p.key())) for p in parts]})
        if i % 4001 == 17:
            rep.sample({'kind': kind, 'texts': [repr(t)[:100] for t in texts], 'demanded': [s[2] for s in specs],
                        'lenient': lenient[1] if lenient[0] == 'Raise' else f'Ok is_valid={lenient[1][1][6]}',
                        'strict': strict[1] if strict[0] == 'Raise' else 'Ok'})


def substitutions(fields, positions=None):
    """every body position x every printable byte (the unchanged byte and '*' included)"""
    base = part_of(fields)
    body = base.body
    for k in (range(len(body)) if positions is None else positions):
        for b in range(0x20, 0x7f):
            yield ('subst', [Part(base.d, body[:k] + bytes([b]) + body[k + 1:], base.hh)])


def every_xor_value(fields):
    """correct sentences whose body XOR takes every value 0x00..0x7f (0x00, one-digit values, 0x7f, ... included): one
    payload character is swept over all printable bytes and the checksum is recomputed for each"""
    seen = set()
    payload = fields[5]
    for k in (len(payload) - 1, len(payload) // 2):
        if k < 0:
            continue
        for b in range(0x30, 0x78):
            f = list(fields)
            f[5] = payload[:k] + bytes([b]) + payload[k + 1:]
            p = part_of(f)
            x = int(p.hh, 16)
            if x not in seen:
                seen.add(x)
                yield ('right-checksum:xor=%02X' % x if x in (0, 0x7f) or x < 0x10 else 'right-checksum', [p])
                yield ('right-checksum', [part_of(f, lower=True)])


def prefix_xor_zero(fields):
    """Sentences whose running body XOR returns to 0 at a position inside the payload (one payload character is chosen so),
    with every printable byte substituted AT and AFTER that position: a checksum computed over only part of the body (a
    delimiter search that restarts, a split on the wrong character) hides exactly such corruptions."""
    payload = fields[5]
    head = b','.join(fields[:5])[1:] + b','              # the body before the payload
    for k in range(1, len(payload)):
        run = 0
        for b in head + payload[:k]:
            run ^= b
        # choose payload[k] := running XOR so far  ->  the XOR through position k is 0
        if 0x30 <= run <= 0x77 and not (0x58 <= run <= 0x5f):
            f = list(fields)
            f[5] = payload[:k] + bytes([run]) + payload[k + 1:]
            base = part_of(f)
            pos = len(head) + k
            yield ('plain', [base])
            for p in (pos, pos + 1, pos - 1):
                if 0 <= p < len(base.body):
                    for b in range(0x20, 0x7f):
                        yield ('subst-at-zero-prefix', [Part(base.d, base.body[:p] + bytes([b]) + base.body[p + 1:], base.hh)])
            return


def checksum_values(fields):
    base = part_of(fields)
    good = int(base.hh, 16)
    for v in range(256):
        for fmt in ('02X', '02x'):
            yield ('chk-value' if v != good else 'chk-right', [Part(base.d, base.body, format(v, fmt).encode())])
        h = format(v, '02X')
        if h[0].isalpha() and h[1].isalpha():
            yield ('chk-value', [Part(base.d, base.body, (h[0].lower() + h[1]).encode())])
    for hh in (b'', b'5', b'05B', b'0x', b' 5', b'5 ', b'5_', b'+5', b'-1', b'G0', b'\xff\xff', b'5B ', b'**'):   # out of scope: compared only
        yield ('chk-other', [Part(base.d, base.body, hh)])


def carriers(fields):
    base = part_of(fields)
    bad = part_of(fields, chk=int(base.hh, 16) ^ 0x10)
    for p in (base, bad):
        for prefix, suffix in ((b'', b'\r\n'), (b'  ', b' '), (b'\\s:2573535,c:1671533231*08\\', b''), (b'\\g:1-2-3*00\\', b'\n'),
                               (b'\\s:x\\', b''), (b'\t', b'\x0b\x0c')):
            yield ('carrier', [Part(p.d, p.body, p.hh, prefix=prefix, suffix=suffix)])
        yield ('carrier', [Part(p.d, p.body, p.hh.lower())])


def corrupt(part, how, rng):
    if how == 0:
        return part
    if how == 1:     # wrong checksum value
        v = int(part.hh, 16) ^ rng.randrange(1, 256)
        return Part(part.d, part.body, format(v, rng.choice(['02X', '02x'])).encode())
    # a changed payload byte (stays a valid armor character so that the part still parses)
    fields = part.body.split(b',')
    pl = bytearray(fields[4])
    if not pl:
        return corrupt(part, 1, rng)
    k = rng.randrange(len(pl))
    pl[k] = pl[k] ^ 1 if chr(pl[k] ^ 1) in '0123456789:;<=>?@ABCDEFGHIJKLMNOPQRSTUVW`abcdefghijklmnopqrstuvw' else pl[k] ^ 2
    fields[4] = bytes(pl)
    return Part(part.d, b','.join(fields), part.hh)


def multi_cases(rng, messages, wrapper):
    for msg in messages:
        good = [part_of(f) for f in msg]
        n = len(good)
        for subset in itertools.product((0, 1, 2), repeat=n) if n <= 3 else itertools.product((0, 1), repeat=n):
            parts = [corrupt(p, how, rng) for p, how in zip(good, subset)]
            yield ('multi', parts)
            yield ('multi-reversed', parts[::-1])
        for subset in itertools.product((0, 1), repeat=n):
            parts = [corrupt(p, how, rng) for p, how in zip(good, subset)]
            for w in (wrapper, corrupt(wrapper, 1, rng)):
                yield ('multi+wrapper', [w] + parts)
                yield ('multi+wrapper', parts[:1] + [w] + parts[1:])
        yield ('multi-incomplete', good[:-1])
        yield ('multi-incomplete', [corrupt(good[0], 1, rng)])
        yield ('multi-duplicate', good + good[:1])


def generate(ctx, deep=False):
    rng = ctx.rng
    sents = sample_sentences(rng, ctx.budget(4, 40))
    gh = [f for f in sents if f[0][3:].upper() == b'HP']
    aiss = [f for f in sents if f[0][3:].upper() != b'HP']
    cases = []
    sweep = aiss if (deep or not ctx.quick) else [aiss[0], aiss[2], aiss[6], aiss[-2]]
    for f in sweep:
        cases.extend(substitutions(f))
    for f in ([] if (deep or not ctx.quick) else [x for x in aiss if x not in sweep]) + gh:
        base = part_of(f)
        cases.extend(substitutions(f, positions=rng.sample(range(len(base.body)), 6)))
    for f in (sents if (deep or not ctx.quick) else [aiss[0], aiss[3], aiss[-1], gh[0]]):
        cases.extend(checksum_values(f))
    for f in (aiss if (deep or not ctx.quick) else [aiss[0], aiss[-1]]):
        cases.extend(every_xor_value(f))
    for f in (aiss if (deep or not ctx.quick) else aiss[:6]):
        cases.extend(prefix_xor_zero(f))
    for f in sents:
        cases.extend(carriers(f))
        cases.append(('plain', [part_of(f)]))
        cases.append(('plain', [part_of(f, lower=True)]))
    wrapper = part_of(gh[0])
    for _ in range(ctx.budget(3, 12)):
        cases.extend(multi_cases(rng, multi_messages(rng), wrapper))
    return cases


def no_checksum_cases(ctx):
    """Sentences WITHOUT a checksum (cut right after the last field; the '*' replaced by another byte; '*' with nothing behind
    it): there are no two hex digits after '*' that could equal anything, so such a sentence is never valid -- if it parses,
    its flag must be False, an assembled message containing it is invalid, and strict decode() must refuse it."""
    rng, rep, model = ctx.rng, ctx.rep, ctx.model
    sents = [f for f in sample_sentences(rng, 3) if f[0][3:].upper() in (b'VDM', b'VDO')]
    raws = []
    for f in sents[:6]:
        body = b','.join(f)
        good = part_of(f).text
        raws.append(('no-star', body))
        raws.append(('empty-checksum', body + b'*'))
        for b in ([0x20, 0x2B, 0x2C, 0x30, 0x41, 0x7E] if ctx.quick else [x for x in range(0x20, 0x7F) if x != 0x2A]):
            raws.append(('star-replaced', body + bytes([b]) + good[-2:]))
    m_prod = nc.model_produce(model, [r for _, r in raws]) if model else None
    for i, (kind, raw) in enumerate(raws):
        rep.case(('no-checksum', raw), kind='no-checksum:' + kind)
        prod = nc.impl_produce(raw)
        if m_prod is not None:
            d = nc.diff_produce(prod, m_prod[i])
            if d:
                rep.disagree('H-nmea', {'entry': 'decode_nmea_line', 'raw': raw.hex(), 'kind': kind}, m_prod[i][:2] + (d,), prod[:2])
        replay = {'no_checksum': True, 'raw': raw.hex()}
        if prod[0] == 'Ok' and prod[1][1][6]:
            rep.violation({'entry': 'decode_nmea_line', 'component': 'is_valid', 'kind': 'valid-without-checksum'},
                          f'{raw[:90]!r} carries no checksum (no two hex digits after an asterisk) but is flagged valid', replay)
            continue
        strict = nc.impl_decode([raw], True)
        lenient = nc.impl_decode([raw], False)
        if prod[0] == 'Ok' and lenient[0] == 'Ok' and lenient[1][1][6]:
            rep.violation({'entry': 'decode', 'component': 'assembled is_valid', 'kind': 'valid-without-checksum'},
                          f'decode of {raw[:90]!r}: message flagged valid although the sentence has no checksum', replay)
        if prod[0] == 'Ok' and strict[0] == 'Ok':
            rep.violation({'entry': 'decode', 'component': 'strict mode', 'kind': 'accepted-invalid'},
                          f'strict decode() accepted {raw[:90]!r}, a sentence without a checksum', replay)


def reader_route_cases(ctx):
    """The flag of a sentence as the READERS deliver it (IterMessages, NMEAQueue; with and without a TagBlockQueue), for
    sentences with a right / wrong checksum behind tag blocks with a right / wrong / no checksum of their own: the flag is about
    the two hex digits after '*' and the bytes between the start delimiter and '*' of the SENTENCE, nothing else; an assembled
    message is valid iff all of its parts are."""
    import pyais.stream as ps
    from pyais.queue import NMEAQueue
    rng, rep = ctx.rng, ctx.rep

    def tagged(line, how):
        if how == 'none':
            return line
        body = b's:r%d,c:%d' % (rng.randrange(1000), 1600000000 + rng.randrange(10 ** 6))
        x = ais.xor_checksum(body)
        cs = {'right': x, 'wrong': x ^ 0x2A}[how]
        return b'\\' + body + b'*' + format(cs, '02X').encode() + b'\\' + line
    msgs = [[f] for f in sample_sentences(rng, 4) if f[0][3:].upper() in (b'VDM', b'VDO') and f[1] == b'1' and f[2] == b'1'][:8] \
        + multi_messages(rng)
    for fields_list in msgs:
        for bad in ([None] + list(range(len(fields_list)))):
            lines, want = [], True
            for k, f in enumerate(fields_list):
                p = part_of(f)
                text = p.text
                if bad == k:
                    text = text[:-2] + format(int(text[-2:], 16) ^ 0x15, '02X').encode()
                    want = False
                lines.append(tagged(text, rng.choice(['none', 'right', 'wrong', 'wrong'])))
            for tbq in (False, True):
                for name in ('IterMessages', 'NMEAQueue'):
                    rep.case(('reader-route', name, tbq, tuple(lines)), kind=f'reader-route:{name}:{"tbq" if tbq else "plain"}')
                    q = ps.TagBlockQueue() if tbq else None
                    got = []
                    try:
                        if name == 'IterMessages':
                            got = [bool(m.is_valid) for m in ps.IterMessages(lines, tbq=q)]
                        else:
                            nq = NMEAQueue(tbq=q)
                            for ln in lines:
                                nq.put_line(ln)
                            while True:
                                m = nq.get_or_none()
                                if m is None:
                                    break
                                got.append(bool(m.is_valid))
                    except Exception as e:      # noqa: BLE001
                        got = ['raised ' + type(e).__name__]
                    if got != [want]:
                        rep.violation({'entry': name, 'component': 'is_valid', 'kind': 'wrong-flag-through-reader', 'tbq': tbq},
                                      f'{name}{" with a tag block queue" if tbq else ""} delivers validity {got} for '
                                      f'{[l[:70] for l in lines]}; the sentence checksums say {[want]}',
                                      {'reader_route': True, 'entry': name, 'tbq': tbq, 'lines': [l.hex() for l in lines], 'want': want})


def direct_construction_cases(ctx):
    """The flag of a sentence object built DIRECTLY from the received line (NMEAMessage / AISSentence(raw), from_bytes, from_string
    -- no factory, hence no stripping) with the line ends a reader hands over (none, LF, CR LF, a blank): the two hex digits after
    '*' and the bytes before it are the same, so the flag must be what the factory route reports for the bare line."""
    from pyais.messages import NMEAMessage
    rng, rep = ctx.rng, ctx.rep
    sents = [f for f in sample_sentences(rng, 6) if f[0][3:].upper() in (b'VDM', b'VDO')][:10]
    for f in sents:
        for wrong in (False, True):
            p = part_of(f)
            text = p.text if not wrong else p.text[:-2] + format(int(p.text[-2:], 16) ^ 0x21, '02X').encode()
            ref = nc.impl_produce(text)
            if ref[0] != 'Ok':
                continue
            want = bool(ref[1][1][6])
            for suffix in (b'', b'\n', b'\r\n', b' ', b'\r'):
                rep.case(('direct-construction', text, suffix), kind='direct-construction')
                for name, mk in (('NMEAMessage(raw)', lambda r: NMEAMessage(r)), ('NMEAMessage.from_bytes', NMEAMessage.from_bytes),
                                 ('NMEAMessage.from_string', lambda r: NMEAMessage.from_string(r.decode('ascii')))):
                    try:
                        got = bool(mk(text + suffix).is_valid)
                    except Exception as e:      # noqa: BLE001
                        got = 'raised ' + type(e).__name__
                    if got != want:
                        rep.violation({'entry': name, 'component': 'is_valid', 'kind': 'entry-point-dependent-flag'},
                                      f'{name} of {text + suffix!r}: is_valid = {got}; the factory route flags the same sentence {want}',
                                      {'direct': True, 'line': (text + suffix).hex(), 'entry': name, 'want': want})
                        break


def run(ctx):
    reader_route_cases(ctx)
    direct_construction_cases(ctx)
    cases = generate(ctx)
    run_cases(ctx, cases, model_decode_every=3 if ctx.quick else 1)
    no_checksum_cases(ctx)
    if ctx.rep.disagreements or ctx.rep.violations:
        return      # the generator self-check below is only meaningful when implementation and model agree
    d = ctx.rep.dist
    for k in ('demanded:valid', 'demanded:invalid', 'strict:InvalidNMEAChecksum', 'strict:Ok', 'multi', 'subst', 'chk-value'):
        if d.get(k, 0) < 20:
            ctx.rep.internal(f'generator self-check: {k} reached only {d.get(k, 0)} times')
    ctx.rep.exhaustive.append('per swept sentence: every body position x every printable byte; all 256 checksum values x case; '
                              'every subset of corrupted parts of each multi-part message')


def hunt(ctx):
    ctx.escalated = True
    run_cases(ctx, generate(ctx, deep=True))


def replay(ctx, data):
    if data.get('direct'):
        from pyais.messages import NMEAMessage
        raw = bytes.fromhex(data['line'])
        mk = {'NMEAMessage(raw)': lambda r: NMEAMessage(r), 'NMEAMessage.from_bytes': NMEAMessage.from_bytes,
              'NMEAMessage.from_string': lambda r: NMEAMessage.from_string(r.decode('ascii'))}[data['entry']]
        try:
            got = bool(mk(raw).is_valid)
        except Exception as e:      # noqa: BLE001
            got = 'raised ' + type(e).__name__
        return None if got == data['want'] else f"{data['entry']} of {raw!r}: is_valid = {got}, the factory route says {data['want']}"
    if data.get('reader_route'):
        import pyais.stream as ps
        from pyais.queue import NMEAQueue
        lines = [bytes.fromhex(h) for h in data['lines']]
        q = ps.TagBlockQueue() if data['tbq'] else None
        try:
            if data['entry'] == 'IterMessages':
                got = [bool(m.is_valid) for m in ps.IterMessages(lines, tbq=q)]
            else:
                nq = NMEAQueue(tbq=q)
                for ln in lines:
                    nq.put_line(ln)
                got = []
                while True:
                    m = nq.get_or_none()
                    if m is None:
                        break
                    got.append(bool(m.is_valid))
        except Exception as e:      # noqa: BLE001
            got = ['raised ' + type(e).__name__]
        return None if got == [data['want']] else f"{data['entry']} delivers validity {got}, the sentence checksums say {[data['want']]}"
    if data.get('no_checksum'):
        raw = bytes.fromhex(data['raw'])
        prod = nc.impl_produce(raw)
        strict = nc.impl_decode([raw], True)
        if prod[0] == 'Ok' and prod[1][1][6]:
            return 'a sentence without a checksum is flagged valid'
        if prod[0] == 'Ok' and strict[0] == 'Ok':
            return 'strict decode() accepts a sentence without a checksum'
        return None
    import vlib
    model = ctx.model or vlib.FastModel()
    parts = [Part(bytes.fromhex(q[1]), bytes.fromhex(q[2]), bytes.fromhex(q[3]), prefix=bytes.fromhex(q[0]),
                  suffix=bytes.fromhex(q[4])) for q in data['parts']]
    specs = spec_flags(model, parts)
    if not all(s[0] and s[2] is not None for s in specs):
        return None
    texts = [p.text for p in parts]
    bad = oracle(parts, specs, [nc.impl_produce(t) for t in texts], nc.impl_decode(texts, False), nc.impl_decode(texts, True))
    return '; '.join(t for _, _, t in bad) if bad else None
