"""H-nmea: shared generators, canonicalisation, model/implementation glue and the primitive micro-harness for the
sentence parser (Model/Nmea.v) and the one-shot decode API (Model/DecodeApi.v).  Used by C05 and C10."""
import itertools
import os
import sys

sys.path.insert(0, os.path.dirname(os.path.dirname(os.path.abspath(__file__))))
sys.path.insert(0, os.path.dirname(os.path.abspath(__file__)))
import ais  # noqa: E402
import codec_common as cc  # noqa: E402


# ---------------------------------------------------------------------------------------------------
# small helpers
# ---------------------------------------------------------------------------------------------------
def hx(b):
    return b.hex() if b else '-'


def unhx(s):
    return b'' if s in ('-', '') else bytes.fromhex(s)


def cps(s):
    """str -> tuple of code points"""
    return tuple(ord(c) for c in s)


def cps_txt(t):
    return tuple(int(x) for x in t.split('.')) if t not in ('-', '') else ()


def zint(t):
    """integer text of cmd_nmea.ml: decimal or (-)0x.. for big values"""
    return int(t, 0) if ('x' in t) else int(t)


def xor(b):
    c = 0
    for x in b:
        c ^= x
    return c


def line(parts, chk=None, lower=False):
    """parts: list of bytes (comma fields; parts[0] = start delimiter + talker + type) -> sentence bytes with checksum"""
    txt = b','.join(parts)
    c = xor(txt[1:]) if chk is None else chk
    h = format(c & 0xff, '02x' if lower else '02X').encode()
    return txt + b'*' + h


def split_line(s):
    """inverse of line() for a well-formed sentence: (parts, two checksum characters)"""
    body, _, hh = s.rpartition(b'*')
    return body.split(b','), hh


# ---------------------------------------------------------------------------------------------------
# the implementation through its public API, canonicalised
# ---------------------------------------------------------------------------------------------------
def canon_common(s):
    return (s.raw.hex(), s.delimiter.hex(), cps(s.talker_id), cps(s.type), int(s.checksum), int(s.fill_bits),
            bool(s.is_valid), tuple(f.hex() for f in s.data_fields),
            None if s.tag_block is None else s.tag_block.raw.hex())


def canon_sentence(s):
    """explicit attribute tuple (never ==, NMEASentence.__eq__ looks at the subclass slots only)"""
    from pyais.messages import AISSentence, GatehouseSentence
    if isinstance(s, AISSentence):
        return ('AIS', canon_common(s), int(s.frag_cnt), int(s.frag_num), None if s.seq_id is None else int(s.seq_id),
                cps(s.channel), s.payload.hex(), s.bit_array.to01(), int(s.ais_id))
    if isinstance(s, GatehouseSentence):
        t = s.timestamp
        return ('GH', canon_common(s), (t.year, t.month, t.day, t.hour, t.minute, t.second, t.microsecond),
                cps(s.country), cps(s.region), cps(s.pss), int(s.online_data))
    return ('?', type(s).__name__)


def where_raised(e):
    """name of the innermost pyais function on the traceback (used in violation signatures)"""
    tb = e.__traceback__
    name = '?'
    while tb is not None:
        fn = tb.tb_frame.f_code.co_filename
        if os.sep + 'pyais' + os.sep in fn:
            name = tb.tb_frame.f_code.co_name
        tb = tb.tb_next
    return name


def is_library_exception(e):
    from pyais.exceptions import AISBaseException
    return isinstance(e, AISBaseException)


def impl_produce(raw):
    from pyais.decode import decode_nmea_line
    try:
        return ('Ok', canon_sentence(decode_nmea_line(raw)))
    except Exception as e:   # noqa: BLE001 -- the class of the exception is the observation
        return ('Raise', type(e).__name__, e)


def impl_decode(parts, strict):
    """decode_nmea_and_ais(*parts) -> ('Ok', sentence tuple, (class, [(field, value)])) | ('Raise', name, exc)"""
    from pyais.decode import decode_nmea_and_ais
    try:
        nmea, msg = decode_nmea_and_ais(*parts, error_if_checksum_invalid=strict)
    except Exception as e:   # noqa: BLE001
        return ('Raise', type(e).__name__, e)
    d = msg.asdict()
    names = [f.name for f in type(msg).fields()]
    return ('Ok', canon_sentence(nmea), ('Ok', type(msg).__name__, [(n, d[n]) for n in names], msg))


# ---------------------------------------------------------------------------------------------------
# the extracted model
# ---------------------------------------------------------------------------------------------------
def parse_fieldlist(t):
    return () if t == '-' else tuple(x for x in t[:-1].split(','))


def parse_common(tok):
    raw, delim, talker, typ, chk, fill, valid, fields, tb = tok[:9]
    return (unhx(raw).hex(), unhx(delim).hex(), cps_txt(talker), cps_txt(typ), zint(chk), zint(fill), valid == '1',
            parse_fieldlist(fields), None if tb == 'None' else unhx(tb).hex())


def parse_sentence_tokens(tok):
    kind = tok[0]
    common = parse_common(tok[1:10])
    r = tok[10:]
    if kind == 'AIS':
        return ('AIS', common, zint(r[0]), zint(r[1]), None if r[2] == 'None' else zint(r[2]), cps_txt(r[3]),
                unhx(r[4]).hex(), '' if r[5] == '-' else r[5], zint(r[6]))
    ts = tuple(zint(x) for x in r[0].split('/'))
    return ('GH', common, ts, cps_txt(r[1]), cps_txt(r[2]), cps_txt(r[3]), zint(r[4]))


def parse_produce_reply(reply):
    if reply.startswith('Raise '):
        return ('Raise', reply[6:].strip())
    if not reply.startswith('Ok '):
        raise RuntimeError('driver: ' + reply[:200])
    return ('Ok', parse_sentence_tokens(reply[3:].split(' ')))


def parse_decode_reply(reply):
    """reply of decodeapi_full: Ok <sentence> | <Class> <fields>"""
    if reply.startswith('Raise '):
        return ('Raise', reply[6:].strip())
    if not reply.startswith('Ok '):
        raise RuntimeError('driver: ' + reply[:200])
    s, _, m = reply[3:].partition(' | ')
    return ('Ok', parse_sentence_tokens(s.split(' ')), cc.parse_msg('Ok ' + m))


def model_produce(model, raws):
    return [parse_produce_reply(r) for r in model.ask_many([f'produce {hx(r)}' for r in raws])]


def model_decode(model, cases):
    """cases: list of (strict, parts)"""
    return [parse_decode_reply(r) for r in
            model.ask_many([f'decodeapi_full {1 if s else 0} ' + ' '.join(hx(p) for p in parts) for s, parts in cases])]


def srepr(v):
    """repr that survives integers beyond the 4300-digit str() limit"""
    if isinstance(v, int) and not isinstance(v, bool) and v.bit_length() > 256:
        return f'<int of {v.bit_length()} bits, 0x{v >> (v.bit_length() - 32):x}...>'
    if isinstance(v, (tuple, list)):
        return '(' + ', '.join(srepr(x) for x in v) + ')'
    return repr(v)[:300]


def first_diff(a, b, names):
    for n, x, y in zip(names, a, b):
        if x != y:
            return f'{n}: impl {srepr(x)} model {srepr(y)}'
    return 'tuples differ in length'


COMMON_NAMES = ['raw', 'delimiter', 'talker_id', 'type', 'checksum', 'fill_bits', 'is_valid', 'data_fields', 'tag_block']
AIS_NAMES = ['kind', 'common', 'frag_cnt', 'frag_num', 'seq_id', 'channel', 'payload', 'bit_array', 'ais_id']
GH_NAMES = ['kind', 'common', 'timestamp', 'country', 'region', 'pss', 'online_data']


def diff_sentence(impl, model):
    if impl == model:
        return None
    if impl[0] != model[0]:
        return f'kind: impl {impl[0]} model {model[0]}'
    if impl[1] != model[1]:
        return first_diff(impl[1], model[1], COMMON_NAMES)
    return first_diff(impl, model, AIS_NAMES if impl[0] == 'AIS' else GH_NAMES)


def short_outcome(x):
    """('Raise', name) | ('Ok', sentence kind): printable whatever the attribute values are"""
    return ('Raise', x[1]) if x[0] == 'Raise' else ('Ok', x[1][0])


def diff_produce(impl, model):
    """None when the outcome classes agree (delivered attributes | exception name)"""
    if impl[0] == 'Raise' or model[0] == 'Raise':
        if impl[0] == model[0] and impl[1] == model[1]:
            return None
        return f'outcome: impl {short_outcome(impl)} model {short_outcome(model)}'
    return diff_sentence(impl[1], model[1])


def diff_decode(impl, model):
    if impl[0] == 'Raise' or model[0] == 'Raise':
        if impl[0] == model[0] and impl[1] == model[1]:
            return None
        return f'outcome: impl {short_outcome(impl)} model {short_outcome(model)}'
    d = diff_sentence(impl[1], model[1])
    if d:
        return 'sentence ' + d
    return cc.compare_model(impl[2], model[2])


# ---------------------------------------------------------------------------------------------------
# generators
# ---------------------------------------------------------------------------------------------------
TOKENS = [b'', b'-1', b'0', b'00', b'99999999999999999999', str(2 ** 63).encode(), str(2 ** 63 + 7).encode(),
          b'1' * 4301, b'1_0', b'+1', b' 1', b'0x1', b'abc', b'\xff', b',', b'*', b'\\', b'!', b'$']
TOKENS_EXTRA = [b'1 ', b'\t2\n', b'2', b'5', b'6', b'7', b'9', b'100', b'101', b'-300', b'1__0', b'_1', b'0_', b'\x00',
                b'1\x00', b'A', b'a', b'\xc3\xa9', b'-0', b'+', b'-', b' ', b'0' * 4301, b'1' * 4300, b'1E3', b'1.0', b'0X1f',
                b'-0x5', b'5_b', b'005b']

P1 = b'15M67FC000G?ufbE`FepT@3n00Sa'
P2A = b'538CQ>02A;h?D9QC800pu8@T>0P4l9E8L0000017Ah:;;5r50Ahm5;C0'
P2B = b'F@V@00000000000'


def base_sentences(rng):
    """valid sentences of every carrier form, as (name, list of comma fields); the last field is the fill-bit count"""
    out = [
        ('single', [b'!AIVDM', b'1', b'1', b'', b'B', P1, b'0']),
        ('single-vdo', [b'!AIVDO', b'1', b'1', b'', b'A', P1, b'0']),
        ('single-bs-lower', [b'!BSvdm', b'1', b'1', b'', b'1', P1, b'0']),
        ('single-seq', [b'!ABVDM', b'1', b'1', b'3', b'', P1, b'0']),
        ('single-dollar', [b'$AIVDM', b'1', b'1', b'', b'2', P1, b'0']),
        ('part1of2', [b'!AIVDM', b'2', b'1', b'1', b'A', P2A, b'0']),
        ('part2of2', [b'!AIVDM', b'2', b'2', b'1', b'A', P2B, b'2']),
        ('fill5', [b'!AIVDM', b'1', b'1', b'', b'A', b'H52KMe', b'5']),
        ('extra-field', [b'!AIVDM', b'1', b'1', b'', b'B', P1, b'x', b'0']),
        ('empty-payload', [b'!AIVDM', b'1', b'1', b'', b'A', b'', b'0']),          # decode(): MissingPayloadException
        ('unknown-id', [b'!AIVDM', b'1', b'1', b'', b'A', b'h0000', b'0']),        # decode(): UnknownMessageException
        ('gatehouse', [b'$PGHP', b'1', b'2020', b'12', b'31', b'23', b'59', b'58', b'239', b'0', b'0', b'0', b'1', b'2C']),
        ('gatehouse-lower', [b'$PGhp', b'1', b'2004', b'2', b'29', b'0', b'0', b'0', b'0', b'219', b'', b'219000001', b'0',
                             b'']),
    ]
    # one sentence with a random payload of each fill count
    for fill in (1, 3, 4):
        n = rng.randrange(2, 20) * 6 - fill
        payload, f = ais.armor(''.join(rng.choice('01') for _ in range(n)))
        out.append((f'random-fill{fill}', [b'!AIVDM', b'1', b'1', b'', rng.choice([b'A', b'B']), payload.encode(),
                                           str(f).encode()]))
    return out


def low_xor_sentence():
    """a valid single sentence whose XOR is below 0x10 (one hex digit significant)"""
    for c in range(0x30, 0x78):
        if 0x58 <= c < 0x60:
            continue
        parts = [b'!AIVDM', b'1', b'1', b'', b'A', P1[:-1] + bytes([c]), b'0']
        if xor(b','.join(parts)[1:]) < 0x10:
            return parts
    raise RuntimeError('no low-XOR sentence found')


def matrix(bases, tokens):
    """FIELD x TOKEN: every comma field, the talker/type word (whole, delimiter, talker, type part), the whole last field
    and the two halves of the checksum field; each with the checksum recomputed and with the original one kept."""
    for bi, (name, parts) in enumerate(bases):
        good = line(parts)
        orig_chk = int(good[-2:], 16)
        if bi > 0:    # very long tokens (the 4300-digit limit) are costly in the model: first base only
            tokens = [t for t in tokens if len(t) < 1000]
        for i in range(len(parts)):
            for tok in tokens:
                p = list(parts)
                p[i] = tok
                yield (f'matrix:{name}:f{i}', line(p))
                yield (f'matrix-keepchk:{name}:f{i}', line(p, chk=orig_chk))
        w = parts[0]
        for tok in tokens:
            for label, word in (('delim', tok + w[1:]), ('talker', w[:1] + tok + w[3:]), ('type', w[:3] + tok),
                                ('talker1', w[:2] + tok + w[3:])):
                p = [word] + list(parts[1:])
                yield (f'matrix:{name}:{label}', line(p))
        body = b','.join(parts)
        for tok in tokens:
            yield (f'matrix:{name}:chk', body + b'*' + tok)                                   # checksum characters
            yield (f'matrix:{name}:lastfield', b','.join(parts[:-1]) + b',' + tok)           # fill*hh as a whole
            yield (f'matrix:{name}:fill', b','.join(parts[:-1]) + b',' + tok + b'*' + good[-2:])
            yield (f'matrix:{name}:nochk', b','.join(parts[:-1]) + b',' + tok)


def truncations(bases):
    for name, parts in bases:
        good = line(parts)
        for k in range(len(good)):
            yield (f'trunc:{name}', good[:k])


MUT_BYTES = [0x00, 0x09, 0x0a, 0x0d, 0x20, 0x21, 0x24, 0x2a, 0x2c, 0x2d, 0x30, 0x31, 0x39, 0x41, 0x5c, 0x5f, 0x61, 0x7e,
             0x7f, 0x80, 0xff]


def mutations(bases, rng, per_base, exhaustive=False):
    """single insertions / deletions / byte flips"""
    for name, parts in bases:
        good = line(parts)
        n = len(good)
        if exhaustive:
            for k in range(n):
                yield (f'delete:{name}', good[:k] + good[k + 1:])
                for b in MUT_BYTES:
                    yield (f'insert:{name}', good[:k] + bytes([b]) + good[k:])
                    yield (f'flip:{name}', good[:k] + bytes([b]) + good[k + 1:])
            continue
        for k in range(n):
            yield (f'delete:{name}', good[:k] + good[k + 1:])
        for _ in range(per_base):
            k = rng.randrange(n + 1)
            b = rng.choice(MUT_BYTES) if rng.random() < 0.7 else rng.randrange(256)
            yield (f'insert:{name}', good[:k] + bytes([b]) + good[k:])
            k = rng.randrange(n)
            yield (f'flip:{name}', good[:k] + bytes([b]) + good[k + 1:])
            k = rng.randrange(n)
            yield (f'bitflip:{name}', good[:k] + bytes([good[k] ^ (1 << rng.randrange(8))]) + good[k + 1:])


def tag_blocks(bases):
    """tag-block prefixes: well-formed, no '*', two '*', non-hex, no closing backslash, empty, only a backslash ..."""
    tbs = [b's:2573535,c:1671533231*08', b'g:1-2-3,s:x*00', b's:2573535,c:1671533231', b's:x*00*11', b's:x*zz', b'*00', b'',
           b'c:\xff*00', b'1G2:0125,s:r3669961*4E', b's:x*', b' s:x*00 ', b',', b'g:a-b-c*00', b'g:1-2*00', b's*12']
    for name, parts in bases[:4] + [b for b in bases if b[0] == 'gatehouse']:
        good = line(parts)
        for tb in tbs:
            yield (f'tagblock:{name}', b'\\' + tb + b'\\' + good)
            yield (f'tagblock-open:{name}', b'\\' + tb + good)                 # no closing backslash
        yield (f'tagblock:{name}', b'\\\\' + good)
        yield (f'tagblock:{name}', b'\\s:x*00\\\\' + good)
        yield (f'tagblock:{name}', b'  \\s:x*00\\' + good + b'\r\n')
        yield (f'tagblock:{name}', b'\\s:x*00\\ ' + good)
        yield (f'tagblock:{name}', b'\\s:x*00\\')
    yield ('tagblock:alone', b'\\')
    yield ('tagblock:alone', b'\\\\')
    yield ('tagblock:alone', b'\\a')


def gatehouse_dates():
    def gh(y, mo, d, h=b'1', mi=b'2', s=b'3', ms=b'4', tail=(b'219', b'0', b'219000001', b'1')):
        return line([b'$PGHP', b'1', y, mo, d, h, mi, s, ms] + list(tail) + [b'2C'])
    S = lambda v: str(v).encode()   # noqa: E731
    for y in (0, 1, 4, 100, 400, 1900, 2000, 2019, 2020, 2100, 9999, 10000, -1, 2 ** 31 - 1, 2 ** 31, 10 ** 30):
        for mo in (0, 1, 2, 3, 4, 6, 9, 11, 12, 13):
            for d in (0, 1, 28, 29, 30, 31, 32):
                yield ('gh-date', gh(S(y), S(mo), S(d)))
    for h in (-1, 0, 23, 24, 2 ** 31):
        yield ('gh-time', gh(b'2020', b'1', b'1', h=S(h)))
    for mi in (-1, 0, 59, 60):
        yield ('gh-time', gh(b'2020', b'1', b'1', mi=S(mi)))
    for s in (-1, 0, 59, 60, 61):
        yield ('gh-time', gh(b'2020', b'1', b'1', s=S(s)))
    for ms in (-1, 0, 999, 1000, 2147483, 2147484, 2 ** 31, 10 ** 30):
        yield ('gh-time', gh(b'2020', b'1', b'1', ms=S(ms)))
    for tok in (b'', b' 7 ', b'+7', b'0_7', b'0x7', b'\xff', b'7.0'):
        yield ('gh-token', gh(tok, b'1', b'1'))
        yield ('gh-token', gh(b'2020', b'1', tok))
        yield ('gh-token', gh(b'2020', b'1', b'1', ms=tok))
        yield ('gh-token', gh(b'2020', b'1', b'1', tail=(b'219', b'0', b'219000001', tok)))
        yield ('gh-token', gh(b'2020', b'1', b'1', tail=(tok, b'0', b'219000001', b'1')))
        yield ('gh-token', gh(b'2020', b'1', b'1', tail=(b'219', tok, b'\xc3', b'1')))
    for n in range(0, 14):   # too few / too many fields
        yield ('gh-arity', line([b'$PGHP'] + [b'1'] * n + [b'2C']))
    yield ('gh-delim', line([b'!PGHP', b'1', b'2020', b'12', b'31', b'23', b'59', b'58', b'239', b'0', b'0', b'0', b'1', b'2C']))
    yield ('gh-delim', line([b'$P\xffHP', b'1', b'2020', b'12', b'31', b'23', b'59', b'58', b'239', b'0', b'0', b'0', b'1', b'2C']))
    yield ('gh-delim', b'$*xHP,1,2020,12,31,23,59,58,239,0,0,0,1,2C*5B')


def specials():
    good = line([b'!AIVDM', b'1', b'1', b'', b'B', P1, b'0'])
    # lengths far from the small cases: a thousand stacked tag blocks, a thousand backslashes, a very long field list
    for k in (3, 50, 998, 1200, 3000):
        yield 'stacked-tag-blocks', b'\\x\\' * k + good
        yield 'stacked-tag-blocks', b'\\' * k + good
        yield 'many-fields', b'!AIVDM' + b',1' * k + b'*00'
    for s in (b'', b' ', b'\r\n', b'\t \x0b\x0c', b'\n', b'!', b'$', b',', b'*', b'AAA', b'$AAA', b'?!?!', b'$AIVDM,', b'!AIVDM',
              b'!AIVDM,1,1,,A,,0*00', b'!AIVDM,1,1,,A,,0', b'1234567890', b'A' * 82, b'$ANABK,,B,8,5,3*17',
              b',1,1,,A,403Ovl@000Htt<tSF0l4Q@100`Pq,0*28', b'!*xVDM,1,1,,A,15M67FC000G?ufbE`FepT@3n00Sa,0*5B',
              b'!*VDM,1,1,,A,15M,0*5B', b'x*yVDO,1,1,,A,15M,0*5B', b'!AIVDM,1,1,,A,' + b'1' * 200 + b',0*00',
              b'!AIVDM,1,1,,A,' + b'1' * 201 + b',0*00', b'!AIVDM,100,100,,A,15M,0*00', b'!AIVDM,101,1,,A,15M,0*00',
              b'!AIVDM,1,101,,A,15M,0*00', b'!AIVDM,0,1,,A,15M,0*00', b'!AIVDM,1,0,,A,15M,0*00', b'!AIVDM,0,0,,A,15M,0*00',
              b'!AIVDM,1,-1,,A,15M,0*00', b'!AIVDM,-1,1,,A,15M,0*00', b'!AIVDM,2,-300,1,A,15M,0*00',
              b'!AIVDM,1,1,,A,15M,-1*00', b'!AIVDM,1,1,,A,15M,6*00', b'!AIVDM,1,1,,A,15M,7*00', b'!AIVDM,1,1,,A,15M,63*00',
              b'!AIVDM,1,1,,A,15M,' + str(2 ** 63 + 6).encode() + b'*00', b'!AIVDM,1,1,,A,15M,' + str(2 ** 63 + 7).encode() + b'*00',
              b'!AIVDM,1,1,,A,,-1*00', b'!AIVDM,1,1,,A,1\x7f,0*00', b'!AIVDM,1,1,,A,1\x1f,0*00', b'!AIVDM,1,1,,A,1 ,0*00',
              b'!AIVDM,1,1,,A,~,0*00', b'!A\xffVDM,1,1,,A,15M,0*00', b'!\xffIVDM,1,1,,A,15M,0*00', b'!AIVDM,1,1,,\xff,15M,0*00',
              b'!AIVDM,1,1,\xff,A,15M,0*00', b'  ' + good + b'  ', good + b'\r\n', b'\n' + good, good + b'\x00', good + b' x',
              good[:-2] + good[-2:].lower(), good[:-1], good + b'0', good[:-2] + b'0x', good[:-2] + b' 5b',
              good[:-2] + b'5_B', good[:-2] + b'+5B', good[:-3] + b'*05B', good[:-2] + b'-1', good[:-3],
              b'!AIVDM,1,1,,A,w,0*00', b'!AIVDM,1,1,,A,0,0*00', b'!AIVDM,1,1,,A,K,0*00', b'!AIVDM,1,1,,A,H00000P,0*00',
              b'!AIVDM,1,1,,A,H000003,0*00', b'!AIVDM,1,1,,A,P,0*00', b'!AIVDM,1,1,,A,t,0*00'):
        yield ('special', s)


def random_garbage(rng, n):
    alphabet = b'!$\\,*AIVDMOHPG0123456789 \r\n\xff'
    for _ in range(n):
        k = rng.randrange(0, 40)
        yield ('garbage', bytes(rng.choice(alphabet) for _ in range(k)))


def multi_sets(rng):
    """argument lists for decode(): complete and incomplete multi-part sets, duplicates, mixtures with wrappers"""
    a = line([b'!AIVDM', b'2', b'1', b'1', b'A', P2A, b'0'])
    b = line([b'!AIVDM', b'2', b'2', b'1', b'A', P2B, b'2'])
    s = line([b'!AIVDM', b'1', b'1', b'', b'B', P1, b'0'])
    g = line([b'$PGHP', b'1', b'2020', b'12', b'31', b'23', b'59', b'58', b'239', b'0', b'0', b'0', b'1', b'2C'])
    bad_a = a[:-2] + b'00'
    bad_b = b[:-2] + b'FF'
    t1 = line([b'!AIVDM', b'3', b'1', b'7', b'B', P2A[:20], b'0'])
    t2 = line([b'!AIVDM', b'3', b'2', b'7', b'B', P2A[20:40], b'0'])
    t3 = line([b'!AIVDM', b'3', b'3', b'7', b'B', P2A[40:], b'0'])
    sets = [[a, b], [b, a], [a], [b], [a, a], [a, b, b], [a, b, s], [s, a, b], [s, s], [g], [g, s], [s, g], [g, a, b],
            [a, g, b], [], [bad_a, b], [a, bad_b], [bad_a, bad_b], [t1, t2, t3], [t3, t1, t2], [t2, t3], [t1, t2, t3, s],
            [b'', a], [a, b''], [a, b' '], [g, g], [a, b'$ANABK,,B,8,5,3*17'], [line([b'!AIVDM', b'2', b'2', b'1', b'A', b'', b'0']), a],
            [line([b'!AIVDM', b'2', b'1', b'1', b'A', b'', b'0']), line([b'!AIVDM', b'2', b'2', b'1', b'A', b'', b'0'])],
            [line([b'!AIVDM', b'2', b'1', b'', b'A', b'1', b'0']), line([b'!AIVDM', b'1', b'2', b'', b'A', b'5', b'0'])],
            [line([b'!AIVDM', b'2', b'2', b'', b'A', b'5M', b'0']), line([b'!AIVDM', b'2', b'1', b'', b'A', b'1', b'0'])]]
    for x in sets:
        yield ('multi', x)
    # the same first fragment number twice, counts that disagree, zero / negative numbers
    for cnt, num in itertools.product((b'0', b'1', b'2', b'3', b'-1', b'100'), (b'0', b'1', b'2', b'3', b'-1')):
        yield ('multi-numbers', [line([b'!AIVDM', cnt, num, b'1', b'A', b'15M', b'0']), b])
        yield ('multi-numbers', [a, line([b'!AIVDM', cnt, num, b'1', b'A', b'15M', b'0'])])


# ---------------------------------------------------------------------------------------------------
# primitive micro-harness (H-prim): the model's CPython primitives against CPython itself
# ---------------------------------------------------------------------------------------------------
def _py(f, *a):
    try:
        return ('Ok', f(*a))
    except Exception as e:   # noqa: BLE001
        return ('Raise', type(e).__name__)


def _m_int(reply):
    return ('Raise', reply[6:]) if reply.startswith('Raise ') else ('Ok', zint(reply[3:]))


def _m_bytes(reply):
    return ('Raise', reply[6:]) if reply.startswith('Raise ') else ('Ok', unhx(reply[3:]))


def _fl(reply):
    return [unhx(x) for x in parse_fieldlist(reply)]


def int_strings(rng, n, full=False):
    ws = [b'', b' ', b'\t', b'\n ', b'\x0b', b'\x0c\r', b'\x1c', b'\x00', b'\xa0']
    sign = [b'', b'+', b'-', b'+-', b'- ']
    prefix = [b'', b'0x', b'0X', b'0x_', b'0x__', b'0b', b'0o', b'0_x', b'0']
    digits = [b'', b'0', b'1', b'00', b'12', b'1_0', b'1__0', b'_1', b'1_', b'ff', b'Fg', b'abc', b'z', b'9' * 20, b'f' * 30,
              b'1_2_3', b'0_0', b'x1', b'7\xff']
    trail = ws + [b'x', b'_', b' 1', b' \t\n']
    core = [b'', b' ', b'1', b'-1', b'+1', b'0x1', b'1' * 4300, b'1' * 4301, b'0' * 4301, b'1_' * 4300 + b'1', b'-' + b'9' * 4300,
            b' ' + b'9' * 4300 + b' ', b'f' * 5000, b'5B', b'5b', b'0x5B', b' 5b', b'5_b', b'+5B', b'05B']
    for s in core:
        yield s
    if full:
        for t in itertools.product(ws, sign, prefix, digits, trail):
            yield b''.join(t)
        return
    for _ in range(n):
        yield rng.choice(ws) + rng.choice(sign) + rng.choice(prefix) + rng.choice(digits) + rng.choice(trail)


def prim_harness(ctx, n_random, full=False):
    """-> number of primitive evaluations; disagreements are recorded on ctx.rep (layer H-prim)"""
    import datetime
    from functools import reduce
    from operator import xor as opxor
    rng, rep, model = ctx.rng, ctx.rep, ctx.model
    alpha = b',*\\!$\r\n 7a\xff'
    strings = [b'', b',', b'*', b',,', b'a,b', b' a ', b'\\a\\b', b'a*b*c']
    for k in range(1, 7 if not full else 8):
        if full or k <= 3:
            strings += [bytes(t) for t in itertools.product(alpha, repeat=k)] if k <= (3 if full else 2) else []
    while len(strings) < (4000 if full else 700):
        strings.append(bytes(rng.choice(alpha) for _ in range(rng.randrange(3, 12))))
    reqs, want, what = [], [], []

    def add(req, expected, conv, desc):
        reqs.append(req)
        want.append((expected, conv))
        what.append(desc)

    idx = [None, -2 ** 70, -100, -4, -3, -2, -1, 0, 1, 2, 3, 4, 5, 8, 100, 2 ** 70]
    for s in strings:
        h = hx(s)
        for sep in (b',', b'*'):
            add(f'prim_split {sep[0]} {h}', s.split(sep), _fl, ('split', s, sep))
            for mx in (0, 1, 2):
                add(f'prim_splitmax {sep[0]} {mx} {h}', s.split(sep, mx), _fl, ('split-max', s, sep, mx))
        add(f'prim_strip {h}', s.strip(), unhx, ('strip', s))
        add(f'prim_find 92 {h}', s.find(b'\\'), zint, ('find', s))
        add(f'prim_upper {h}', s.upper(), unhx, ('upper', s))
        add(f'prim_ascii {h}', _py(lambda x: cps(x.decode('ascii')), s),
            lambda r: ('Raise', r[6:]) if r.startswith('Raise ') else ('Ok', cps_txt(r[3:])), ('decode-ascii', s))
        add(f'prim_xor {h}', _py(lambda x: reduce(opxor, x), s), _m_int, ('reduce-xor', s))
        for n in (2, 5, 7):
            def unpack(x, n=n):
                if n == 2:
                    a, b = x.split(b',')
                elif n == 5:
                    a, b, c, d, e = x.split(b',')
                else:
                    a, b, c, d, e, f, g = x.split(b',')
                return 'ok'
            add(f'prim_unpack {n} 44 {h}', _py(unpack, s),
                lambda r: ('Raise', r[6:]) if r.startswith('Raise ') else ('Ok', 'ok'), ('unpack', s, n))
        lo, hi = rng.choice(idx), rng.choice(idx)
        add(f'prim_slice {lo} {hi} {h}', s[lo:hi], unhx, ('slice', s, lo, hi))
        i = rng.choice(idx[1:])
        add(f'prim_index {i} {h}', _py(lambda x, i=i: x[i], s), _m_int, ('index', s, i))
    for s in strings[:60 if full else 12]:
        for lo, hi in itertools.product(idx, idx):
            add(f'prim_slice {lo} {hi} {hx(s)}', s[lo:hi], unhx, ('slice', s, lo, hi))
        for i in idx[1:]:
            add(f'prim_index {i} {hx(s)}', _py(lambda x, i=i: x[i], s), _m_int, ('index', s, i))
    for s in int_strings(rng, n_random, full):
        add(f'prim_int 10 {hx(s)}', _py(int, s), _m_int, ('int', s[:40], 10))
        add(f'prim_int 16 {hx(s)}', _py(int, s, 16), _m_int, ('int', s[:40], 16))
        if all(c < 128 for c in s) and len(s) < 200:
            t = s.decode('ascii')
            c = '.'.join(str(x) for x in s) or '-'
            add(f'prim_intstr 16 {c}', _py(int, t, 16), _m_int, ('int-str', t[:40], 16))
            add(f'prim_intstr 10 {c}', _py(int, t), _m_int, ('int-str', t[:40], 10))
    for a, n in itertools.product((0, 1, 5, 63, -7), (-2 ** 64, -1, 0, 1, 3, 6, 2 ** 70)):
        add(f'prim_rshift {a} {n}', _py(lambda a, n: a >> n, a, n), _m_int, ('rshift', a, n))
    for n in (-2 ** 63 - 1, -2 ** 63, -2 ** 63 + 1, -1, 0, 1, 6, 9, 2 ** 63 + 1):
        for s in (b'', b'0', b'101', b'1111111'):
            def zf(s, n):
                return s.decode().zfill(n).encode()
            if n < 100:
                add(f'prim_zfill {n} {hx(s)}', _py(zf, s, n), _m_bytes, ('zfill', s, n))
    vals = {'y': (0, 1, 4, 100, 400, 1900, 2000, 2023, 2024, 9999, 10000, -1, 2 ** 31 - 1, 2 ** 31),
            'mo': (0, 1, 2, 3, 4, 5, 6, 7, 8, 9, 10, 11, 12, 13), 'd': (0, 1, 28, 29, 30, 31, 32)}
    for y, mo, d in itertools.product(vals['y'], vals['mo'], vals['d']):
        add(f'prim_datetime {y} {mo} {d} 0 0 0 0', _py(lambda *a: datetime.datetime(*a) and 'ok', y, mo, d, 0, 0, 0, 0),
            lambda r: ('Raise', r[6:]) if r.startswith('Raise ') else ('Ok', 'ok'), ('datetime', y, mo, d))
    for t in itertools.product((-1, 0, 23, 24), (-1, 0, 59, 60), (-1, 0, 59, 60), (-1, 0, 999999, 1000000, 2 ** 31, -2 ** 31 - 1)):
        add('prim_datetime 2024 2 29 ' + ' '.join(str(x) for x in t),
            _py(lambda *a: datetime.datetime(*a) and 'ok', 2024, 2, 29, *t),
            lambda r: ('Raise', r[6:]) if r.startswith('Raise ') else ('Ok', 'ok'), ('datetime-time',) + t)
    # util.py helpers through the implementation
    from pyais.util import chk_to_int, compute_checksum, checksum
    chk_fields = [b'', b'0*5B', b'0*5b', b'2*3', b'*', b'**', b'0', b'5*', b'*5B', b'0*5B*', b'a*zz', b' 1 * 5b ', b'-1*-1', b'0*0x1F',
                  b'1_0*1_0', b'\xff*\xff', b'9' * 30 + b'*' + b'f' * 30, b'2C*5B', b'+2*+5', b'0*5B\r']
    for s in chk_fields + strings[:400]:
        add(f'chk_to_int {hx(s)}', _py(chk_to_int, s),
            lambda r: ('Raise', r[6:]) if r.startswith('Raise ') else ('Ok', tuple(zint(x) for x in r[3:].split())),
            ('chk_to_int', s))
        add(f'compute_checksum {hx(s)}', _py(compute_checksum, s), _m_int, ('compute_checksum', s))
        add(f'nmea_checksum {hx(s)}', _py(checksum, s), _m_int, ('checksum', s))
    replies = model.ask_many(reqs, batch=256)
    bad = 0
    for req, (expected, conv), desc, reply in zip(reqs, want, what, replies):
        rep.count('prim:' + desc[0])
        got = conv(reply) if not reply.startswith('ERROR') else reply
        if got != expected and bad < 20:
            bad += 1
            rep.disagree('H-prim', {'primitive': desc[0], 'request': req[:300]}, repr(got)[:300], repr(expected)[:300])
    rep.evaluations += len(reqs)
    return len(reqs)
