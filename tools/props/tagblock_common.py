"""Shared by C16, C17 and C05_tbq: generators, canonical forms and model glue for tag blocks and the tag block queue.

Python str values travel to the model as the hex of their UTF-8 bytes (coq/Prim/PyText.v represents a str by the
bytes it decodes from)."""
import os
import sys

sys.path.insert(0, os.path.dirname(os.path.dirname(os.path.abspath(__file__))))
import ais  # noqa: E402

TEXT_FIELDS = ['receiver_timestamp', 'destination_station', 'line_count', 'relative_time', 'source_station', 'text']
ALL_FIELDS = TEXT_FIELDS + ['group']
# NMEA 4.10 parameter codes, written down here independently of pyais
CODES = {'receiver_timestamp': 'c', 'destination_station': 'd', 'line_count': 'n', 'relative_time': 'r',
         'source_station': 's', 'text': 't', 'group': 'g'}


def hx(b):
    return b.hex() if b else '-'


def unhx(s):
    return b'' if s == '-' else bytes.fromhex(s)


def xor(b):
    c = 0
    for x in b:
        c ^= x
    return c


def with_checksum(content, fmt='02X'):
    return content + b'*' + format(xor(content), fmt).encode()


# ---------------------------------------------------------------- model replies
def parse_m(reply):
    """'Ok ...' / 'Raise X' [+ ' oracle=b'] -> (ok, payload-or-exception, oracle_consulted)"""
    consulted = False
    if reply.endswith(' oracle=1') or reply.endswith(' oracle=0'):
        consulted = reply.endswith('1')
        reply = reply[:-9]
    if reply.startswith('Ok'):
        return True, reply[3:], consulted
    if reply.startswith('Raise '):
        return False, reply[6:], consulted
    raise RuntimeError('model driver: ' + reply)


def parse_tagblock(txt):
    actual, expected, valid, attrs, group = txt.split(' ')
    d = {k: None for k in TEXT_FIELDS}
    if attrs != '-':
        for kv in attrs.split(';'):
            k, v = kv.split('=')
            d[k] = unhx(v)
    d['group'] = None if group == 'None' else tuple(int(x) for x in group.split(','))
    d['actual'], d['expected'], d['valid'] = int(actual), int(expected), valid == '1'
    return d


def observe_init(raw):
    """TagBlock(raw).init() and every accessor -> ('ok', dict) | ('raise', class name, is_library_exception)."""
    from pyais.messages import TagBlock
    from pyais.exceptions import AISBaseException
    tb = TagBlock(raw)
    try:
        tb.init()
    except Exception as e:
        return ('raise', type(e).__name__, isinstance(e, AISBaseException))
    d = {}
    k = '?'
    try:                  # after a successful init() every accessor returns; one that raises is an observation, not a crash
        for k in TEXT_FIELDS:
            v = getattr(tb, k)
            d[k] = None if v is None else v.encode()
        k = 'group'
        g = tb.group
        d['group'] = None if g is None else (g.sentence_num, g.sentence_tot, g.group_id)
        k = 'checksum accessors'
        d['actual'], d['expected'], d['valid'] = tb.actual_checksum, tb.expected_checksum, tb.is_valid
    except Exception as e:      # noqa: BLE001
        return ('raise', f'{type(e).__name__} (from the accessor `{k}` after init() succeeded)', isinstance(e, AISBaseException))
    return ('ok', d)


def _nonascii_text(b):
    try:
        b.decode()
    except UnicodeDecodeError:
        return False
    return any(c > 127 for c in b)


def needs_oracle(raw):
    """True if int() would be applied to non-ASCII text in this tag block (checksum or group triple): the model takes
    that value from an oracle variable, so values are not compared there."""
    parts = raw.split(b'*')
    if len(parts) != 2:
        return False
    if _nonascii_text(parts[1]):
        return True
    return any(f.startswith(b'g:') and _nonascii_text(f) for f in parts[0].split(b','))


# ---------------------------------------------------------------- sentences
def ais_line(rng, idx=None, channel='A', talker='AIVDM'):
    """A valid single-fragment AIS sentence (type 1/2/3/18 position report, random content)."""
    mt = rng.choice((1, 2, 3, 18))
    bits = [rng.choice('01') for _ in range(168)]
    bits[0:6] = format(mt, '06b')
    if idx is not None:
        bits[8:38] = format(100000000 + idx, '030b')
    return ais.bits_to_sentences(''.join(bits), talker=talker, channel=channel)[0]


def multi_lines(rng, nbits=424):
    bits = [rng.choice('01') for _ in range(nbits)]
    bits[0:6] = format(5, '06b')
    return ais.bits_to_sentences(''.join(bits), seq=rng.randrange(10))


def gatehouse_line():
    body = b'PGHP,1,2020,12,31,23,59,58,239,0,0,0,1,2C'
    return b'$' + body + b'*' + format(xor(body), '02X').encode()


def sentence_attrs(s):
    """Everything a parsed sentence holds except the tag block, as a comparable tuple (never __eq__)."""
    out = [type(s).__name__]
    names = []
    for klass in type(s).__mro__:
        for n in getattr(klass, '__slots__', ()):
            if n not in names:
                names.append(n)
    names += sorted(getattr(s, '__dict__', {}))
    for n in names:
        if n == 'tag_block':
            continue
        try:
            v = getattr(s, n)
        except AttributeError:
            v = '<unset>'
        if hasattr(v, 'to01'):
            v = v.to01()
        elif not isinstance(v, (bytes, str, int, float, bool, type(None), tuple, list)):
            v = repr(v)
        out.append((n, v))
    return tuple(out)


def produce(line):
    """NMEASentenceFactory.produce -> ('ok', sentence) | ('raise', class name, is_library)."""
    from pyais.messages import NMEASentenceFactory
    from pyais.exceptions import AISBaseException
    try:
        return ('ok', NMEASentenceFactory.produce(line))
    except Exception as e:
        return ('raise', type(e).__name__, isinstance(e, AISBaseException))


def check_codes(ctx):
    """The model's FIELD_CODES table against the class attribute (and the reverse table)."""
    from pyais.messages import TagBlock
    if not ctx.model:
        return
    model = [tuple(kv.split('=')) for kv in ctx.model.ask('tbcodes').split(',')]
    impl = [(k, v.encode().hex()) for k, v in TagBlock.FIELD_CODES.items()]
    rev = {v: k for k, v in TagBlock.FIELD_CODES.items()}
    if model != impl or TagBlock.FIELD_NAMES != rev:
        ctx.rep.disagree('H-tagblock', {'what': 'TagBlock.FIELD_CODES / FIELD_NAMES'}, model,
                         {'codes': impl, 'names': sorted(TagBlock.FIELD_NAMES.items())})
