"""C16 -- tag blocks round-trip through create and parse and never alter the sentence.

Model: coq/Model/TagBlock.v (TagBlock.create / init / _parse_payload, TagBlockGroup.from_str, _pre_process) over
coq/Prim/PyText.v.  Correspondence: the extracted model against TagBlock.create(...), TagBlock(raw).init() + every
accessor, NMEASentenceFactory.produce(raw).  Oracle: the four clauses of the property on what the implementation
returned (a few lines of Python each; the XOR is also taken from the extracted Spec/TagBlockSpec.v)."""
import itertools
import os
import sys

sys.path.insert(0, os.path.dirname(os.path.abspath(__file__)))
from tagblock_common import (TEXT_FIELDS, ALL_FIELDS, CODES, hx, xor, with_checksum, parse_m, parse_tagblock,  # noqa: E402
                             observe_init, needs_oracle, ais_line, multi_lines, gatehouse_line, sentence_attrs,
                             produce, check_codes)

GEN = []
RULE = ('(a) create/init round trip: every one of the 127 non-empty subsets of the seven fields, in shuffled keyword order, '
        'x value kinds (ASCII text, text with ":" inside, empty text, int, float, non-ASCII text, blanks, control '
        'characters, dashes, long text; group as TagBlockGroup or "n-t-g" text incl. leading zeros and 20-digit numbers), '
        'with None values and unknown keywords mixed in, a share of them steered to a checksum below 0x10; '
        '(b) is_valid: sampled contents x all 256 two-hex-digit checksums in upper/lower/mixed case; '
        '(c) extras: unknown codes, fields without ":", malformed groups, invalid UTF-8 inserted at every position; '
        '(d) sentence: sampled valid single/multi-fragment/VDO/Gatehouse sentences and invalid ones x tag blocks, with '
        'line endings; (e) random malformed tag blocks; (f) micro-harness of the text primitives against CPython. '
        'distinct = distinct (clause, input)')
ASSUMPTIONS = ['values given to create() are rendered with str(); a str is compared with the model through its UTF-8 bytes',
               'int() of non-ASCII digit text (checksum field, group triple) is an oracle variable of the model: such inputs '
               'are excluded from the value comparison (the theorems hold for every oracle)',
               'TagBlock.create() without any supported field and checksum fields that are not two hex digits are outside '
               'the property (DESIGN.md section 9)']
TRUSTED_EXTRA = ['coq/Prim/PyText.v: bytes.split/strip/find, slices, UTF-8 validity, int(str[,16]) of ASCII text, '
                 'hex()[2:].upper(), reduce(xor) -- hand-written after CPython 3.12, compared with CPython on every run',
                 'TagBlock.FIELD_CODES is transcribed in Model/TagBlock.v and compared with the class attribute on every run']

SAFE = [c for c in range(0x20, 0x7f) if chr(c) not in ',*\\']
NONASCII = ['Brücke', '北京', '🚢 ship', 'é:ü', 'ñ', '\u00a0x', 'Ωmega-1', '\u0663']


# ------------------------------------------------------------------ values
def gen_text_value(rng):
    kind = rng.choice(['ascii', 'ascii', 'colon', 'empty', 'int', 'float', 'nonascii', 'blank', 'ctrl', 'dash', 'long',
                       'single', 'digits', 'fieldlike'])
    if kind == 'ascii':
        v = ''.join(chr(rng.choice(SAFE)) for _ in range(rng.randint(1, 12)))
    elif kind == 'colon':
        v = rng.choice([':', 'a:b', '::', 'x:', ':y', 'g:1-2-3', 'c:1:2'])
    elif kind == 'empty':
        v = ''
    elif kind == 'int':
        v = rng.choice([0, 1, 1671533231, -5, 10 ** 20, rng.randrange(10 ** 9)])
    elif kind == 'float':
        v = rng.choice([1.5, 0.0, 1e21, -2.25])
    elif kind == 'nonascii':
        v = rng.choice(NONASCII)
    elif kind == 'blank':
        v = rng.choice([' x', 'x ', ' ', '  a  b  '])
    elif kind == 'ctrl':
        v = rng.choice(['\t', 'a\x00b', '\x7f', 'a\nb', '\r'])
    elif kind == 'dash':
        v = rng.choice(['1-2-3', '-', 'a-b'])
    elif kind == 'long':
        v = ''.join(chr(rng.choice(SAFE)) for _ in range(rng.randint(60, 300)))
    elif kind == 'single':
        v = chr(rng.choice(SAFE))
    elif kind == 'digits':
        v = str(rng.randrange(10 ** rng.randint(1, 12)))
    else:
        v = rng.choice(['s:x', 't', 'g', 'c:'])
    return v, kind


def gen_group_value(rng):
    from pyais.messages import TagBlockGroup
    n, t, g = (rng.choice([0, 1, 2, 3, 9, 10, 255, 4242, 10 ** 20, rng.randrange(10 ** 6)]) for _ in range(3))
    kind = rng.choice(['object', 'object', 'text', 'zeros'])
    if kind == 'object':
        return TagBlockGroup(n, t, g), 'group-object', (n, t, g)
    if kind == 'text':
        return f'{n}-{t}-{g}', 'group-text', (n, t, g)
    return f'0{n}-00{t}-{g}', 'group-leading-zeros', (n, t, g)


def enc_value(v):
    """JSON-able form of a keyword value (for replays)."""
    if v is None:
        return ['none']
    if type(v).__name__ == 'TagBlockGroup':
        return ['group', v.sentence_num, v.sentence_tot, v.group_id]
    if isinstance(v, (bytes, bytearray)):
        return ['bytes', bytes(v).hex()]
    if isinstance(v, tuple):
        return ['tuple', [enc_value(x) for x in v]]
    return [type(v).__name__, v]


def dec_value(e):
    from pyais.messages import TagBlockGroup
    if e[0] == 'none':
        return None
    if e[0] == 'group':
        return TagBlockGroup(e[1], e[2], e[3])
    if e[0] == 'bytes':
        return bytes.fromhex(e[1])
    if e[0] == 'tuple':
        return tuple(dec_value(x) for x in e[1])
    return {'str': str, 'int': int, 'float': float, 'bool': bool}[e[0]](e[1])


def render(kw):
    """The content the NMEA 4.10 format prescribes for these fields (independent of pyais)."""
    return ','.join(f'{CODES[k]}:{v}' for k, v in kw if v is not None and k in CODES).encode()


def gen_kwargs(rng, subset, low_checksum=False):
    kw, kinds, triple = [], [], None
    for f in subset:
        if f == 'group':
            v, kind, triple = gen_group_value(rng)
        else:
            v, kind = gen_text_value(rng)
        kw.append((f, v))
        kinds.append(kind)
    # noise that create() must skip
    if rng.random() < 0.3:
        # unknown keywords with every kind of value, in particular things that look like a tag block themselves (a parsed
        # block's asdict() carries `raw`): all of them must be ignored
        kw.append((rng.choice(['foo', 'station', 'raw', 'raw', 'g', 's', 'Text']),
                   rng.choice(['x', 1, 'a:b', b'c:1*68', b's:OLD,d:HQ*00', 'c:1*68', b'', None, 0, ('t', 1)])))
    if rng.random() < 0.3:
        free = [f for f in ALL_FIELDS if f not in subset]
        if free:
            kw.append((rng.choice(free), None))
    rng.shuffle(kw)
    if low_checksum:
        texts = [i for i, (k, v) in enumerate(kw) if k in TEXT_FIELDS and isinstance(v, str)]
        if texts:
            i = rng.choice(texts)
            for _ in range(400):
                if xor(render(kw)) < 16:
                    break
                kw[i] = (kw[i][0], kw[i][1] + chr(rng.choice(SAFE)))
    return kw, kinds, triple


# ------------------------------------------------------------------ (a) round trip
def model_create_line(kw):
    toks = []
    for k, v in kw:
        toks.append(f'{k}=' + ('None' if v is None else hx(str(v).encode())))
    return 'tbcreate ' + ' '.join(toks)


def roundtrip_oracle(kw, raw, obs):
    """Clause 1 of the property on the implementation's answers.  -> list of (component, kind, text)"""
    bad = []
    if obs[0] != 'ok':
        return [('init', f'foreign-exception:{obs[1]}' if not obs[2] else f'exception:{obs[1]}',
                 f'init() of the created tag block {raw!r} raised {obs[1]}')]
    d = obs[1]
    if not d['valid']:
        bad.append(('is_valid', 'wrong-value', f'created tag block {raw!r} does not report a matching checksum '
                                                f'(actual {d["actual"]}, expected {d["expected"]})'))
    given = {k: v for k, v in kw if v is not None}
    for f in TEXT_FIELDS:
        want = str(given[f]).encode() if f in given else None
        if d[f] != want:
            bad.append((f, 'wrong-value', f'{f} given as {given.get(f)!r} parses back as {d[f]!r} (tag block {raw!r})'))
    if 'group' in given:
        parts = str(given['group']).split('-')
        want = tuple(int(p) for p in parts)
        if d['group'] != want:
            bad.append(('group', 'wrong-value', f'group given as {str(given["group"])!r} parses back as {d["group"]!r}'))
    elif d['group'] is not None:
        bad.append(('group', 'wrong-value', f'no group given but {d["group"]!r} parsed (tag block {raw!r})'))
    return bad


_LAST_EQ = {}


def run_roundtrip(ctx, cases):
    """cases: list of keyword lists.  Returns the created tag blocks."""
    from pyais.messages import TagBlock
    rep = ctx.rep
    created = []
    asks = []
    earlier_of = []
    for kw in cases:
        # the most recent earlier create() call that gave some field a value EQUAL to one given now (1 == 1.0 == True,
        # 0 == 0.0 == False: one dictionary key): a result remembered under the value alone only reproduces after that call
        eq = []
        for k, v in kw:
            try:
                prev = _LAST_EQ.get((k, v))
                _LAST_EQ[(k, v)] = [[a, enc_value(b)] for a, b in kw]
            except TypeError:       # unhashable value
                prev = None
            if prev is not None and prev not in eq:
                eq.append(prev)
        earlier_of.append(eq)
        try:
            raw = TagBlock.create(**dict(kw))
        except Exception as e:
            rep.violation({'entry': 'TagBlock.create', 'component': 'exception', 'kind': f'foreign-exception:{type(e).__name__}'},
                          f'TagBlock.create({dict(kw)!r}) raised {type(e).__name__}: {e}',
                          {'kind': 'roundtrip', 'kwargs': [[k, enc_value(v)] for k, v in kw]})
            created.append(None)
            asks += ['tbxor -', 'tbxor -']
            continue
        created.append(raw)
        asks += [model_create_line(kw), 'tbinit ' + hx(raw)]
    replies = ctx.model.ask_many(asks) if ctx.model else None
    for i, (kw, raw) in enumerate(zip(cases, created)):
        if raw is None:
            continue
        n_eff = sum(1 for k, v in kw if v is not None and k in CODES)
        rep.case(('roundtrip', repr(kw)), kind='a:roundtrip')
        rep.count(f'a:fields={n_eff}')
        content = raw.rsplit(b'*', 1)[0]
        if xor(content) < 16:
            rep.count('a:checksum<0x10')
        if any(b':' in str(v).encode() for k, v in kw if k in TEXT_FIELDS and v is not None):
            rep.count('a:value-with-colon')
        if any(c > 127 for c in raw):
            rep.count('a:non-ascii')
        obs = observe_init(raw)
        if replies:
            okc, mraw, _ = parse_m(replies[2 * i])
            if not okc or mraw != hx(raw):
                rep.disagree('H-tagblock', {'create': [[k, enc_value(v)] for k, v in kw]}, replies[2 * i], hx(raw))
            oki, mt, consulted = parse_m(replies[2 * i + 1])
            if not (consulted or needs_oracle(raw)):
                mview = parse_tagblock(mt) if oki else ('raise', mt)
                iview = obs[1] if obs[0] == 'ok' else ('raise', obs[1])
                if (oki != (obs[0] == 'ok')) or (oki and mview != iview):
                    rep.disagree('H-tagblock', {'init': hx(raw)}, str(mview), str(iview))
        for comp, kind, text in roundtrip_oracle(kw, raw, obs):
            rep.violation({'entry': 'TagBlock.create+init', 'component': comp, 'kind': kind}, text,
                          {'kind': 'roundtrip', 'kwargs': [[k, enc_value(v)] for k, v in kw],
                           'earlier_equal': earlier_of[i]})
        if i % 211 == 0:
            rep.sample({'clause': 'round trip', 'kwargs': {k: str(v) for k, v in kw}, 'created': raw.decode('utf-8', 'replace'),
                        'parsed': {k: (v.decode('utf-8', 'replace') if isinstance(v, bytes) else v)
                                   for k, v in (obs[1].items() if obs[0] == 'ok' else [])}})
    return [r for r in created if r is not None]


# ------------------------------------------------------------------ (b) is_valid iff checksum = XOR
def run_validity(ctx, contents, fmts):
    rep = ctx.rep
    raws = []
    for content in contents:
        for v in range(256):
            for fmt in fmts:
                hh = format(v, '02x')
                if fmt == 'upper':
                    hh = hh.upper()
                elif fmt == 'mixed':
                    hh = hh[0].upper() + hh[1].lower() if v % 2 else hh[0].lower() + hh[1].upper()
                raws.append((content, v, content + b'*' + hh.encode()))
    asks = ['tbinit ' + hx(r) for _, _, r in raws]
    replies = ctx.model.ask_many(asks) if ctx.model else None
    spec_x = {}
    if ctx.model:
        for c, x in zip(contents, ctx.model.ask_many(['tbxor ' + hx(c) for c in contents])):
            spec_x[c] = int(x)
    for i, (content, v, raw) in enumerate(raws):
        x = spec_x.get(content, xor(content))
        if x != xor(content):
            rep.internal(f'Spec tbs_xor {x} differs from the XOR {xor(content)} of {content!r}')
            return
        rep.case(('valid', raw), kind='b:right-checksum' if v == x else 'b:wrong-checksum')
        if v < 16:
            rep.count('b:checksum<0x10')
        obs = observe_init(raw)
        if replies:
            oki, mt, consulted = parse_m(replies[i])
            mview = parse_tagblock(mt) if oki else ('raise', mt)
            iview = obs[1] if obs[0] == 'ok' else ('raise', obs[1])
            if (oki != (obs[0] == 'ok')) or (oki and mview != iview):
                rep.disagree('H-tagblock', {'init': hx(raw)}, str(mview), str(iview))
        rp = {'kind': 'valid', 'raw': raw.hex()}
        if obs[0] != 'ok':
            rep.violation({'entry': 'TagBlock.init', 'component': 'exception',
                           'kind': f'exception:{obs[1]}' if obs[2] else f'foreign-exception:{obs[1]}'},
                          f'init() of {raw!r} raised {obs[1]}', rp)
        elif obs[1]['valid'] != (v == x) or obs[1]['actual'] != x or obs[1]['expected'] != v:
            rep.violation({'entry': 'TagBlock.init', 'component': 'is_valid', 'kind': 'wrong-value'},
                          f'{raw!r}: content XOR {x}, checksum field {v}: is_valid={obs[1]["valid"]} '
                          f'actual={obs[1]["actual"]} expected={obs[1]["expected"]}', rp)


# ------------------------------------------------------------------ (c) unknown / malformed extras
JUNK = {
    'unknown-code': [b'x:1', b'S:UP', b'G:1-2-3', b'ss:1', b':v', b' s:1', b'q:', b'C:123', b'gg:1-2-3', b'\xc3\xa9:1'],
    'no-colon': [b'abc', b'', b's', b'g', b'1-2-3', b' ', b'\xc3\xa9'],
    'bad-group': [b'g:', b'g:1-2', b'g:1-2-3-4', b'g:a-b-c', b'g:1--3', b'g:1-2-', b'g:-1-2-3', b'g:1.0-2-3', b'g:1-2-3x',
                  b'g:1-2-0x3', b'g:1_-2-3', b'g:1', b'g:--', b'g:1-2-3-'],
    'bad-utf8': [b'\xff', b's:\xc3', b't:\xed\xa0\x80', b'\x80:1', b'c:\xf5\x80\x80\x80', b'g:1-2-\xff', b'd:\xc0\x80'],
}


def accessor_view(d):
    return {k: d[k] for k in ALL_FIELDS}


def run_extras(ctx, cases):
    """cases: (base fields, junk, position)"""
    rep = ctx.rep
    asks = []
    for base, junk, pos, kind in cases:
        a = with_checksum(b','.join(base))
        b = with_checksum(b','.join(base[:pos] + [junk] + base[pos:]))
        asks += ['tbinit ' + hx(a), 'tbinit ' + hx(b)]
    replies = ctx.model.ask_many(asks) if ctx.model else None
    for i, (base, junk, pos, kind) in enumerate(cases):
        a = with_checksum(b','.join(base))
        b = with_checksum(b','.join(base[:pos] + [junk] + base[pos:]))
        rep.case(('extras', b), kind='c:' + kind)
        oa, ob = observe_init(a), observe_init(b)
        if replies:
            for raw, obs, r in ((a, oa, replies[2 * i]), (b, ob, replies[2 * i + 1])):
                oki, mt, consulted = parse_m(r)
                if consulted or needs_oracle(raw):
                    continue
                mview = parse_tagblock(mt) if oki else ('raise', mt)
                iview = obs[1] if obs[0] == 'ok' else ('raise', obs[1])
                if (oki != (obs[0] == 'ok')) or (oki and mview != iview):
                    rep.disagree('H-tagblock', {'init': hx(raw)}, str(mview), str(iview))
        rp = {'kind': 'extras', 'base': [f.hex() for f in base], 'junk': junk.hex(), 'pos': pos}
        if oa[0] != 'ok' or ob[0] != 'ok':
            bad = oa if oa[0] != 'ok' else ob
            rep.violation({'entry': 'TagBlock.init', 'component': 'extra-field:' + kind,
                           'kind': f'exception:{bad[1]}' if bad[2] else f'foreign-exception:{bad[1]}'},
                          f'init() raised {bad[1]} with the {kind} field {junk!r} at position {pos} of {base!r}', rp)
        elif accessor_view(oa[1]) != accessor_view(ob[1]) or not ob[1]['valid']:
            diff = [k for k in ALL_FIELDS if oa[1][k] != ob[1][k]] or ['is_valid']
            rep.violation({'entry': 'TagBlock.init', 'component': diff[0], 'kind': 'changed-by-extra-field:' + kind},
                          f'the {kind} field {junk!r} at position {pos} of {base!r} changes {diff}: '
                          f'{ {k: oa[1].get(k) for k in diff} } -> { {k: ob[1].get(k) for k in diff} }', rp)


# ------------------------------------------------------------------ (d) the sentence is parsed as without the tag block
def _decode_view(line, strict):
    import pyais
    try:
        m = pyais.decode(line, error_if_checksum_invalid=strict)
    except Exception as e:      # noqa: BLE001 -- the class is the observation
        return ('raise', type(e).__name__)
    return ('ok', type(m).__name__, repr(sorted((k, repr(v)) for k, v in m.asdict().items())))


def run_sentences(ctx, cases):
    """cases: (tag block bytes, bare line, kind)"""
    from pyais.messages import NMEASentenceFactory
    rep = ctx.rep
    def full(tb, s, kind):
        return s if kind.startswith('framing:') else b'\\' + tb + b'\\' + s
    asks = ['tbpre ' + hx(full(*c)) for c in cases]
    replies = ctx.model.ask_many(asks) if ctx.model else None
    for i, (tb, s, kind) in enumerate(cases):
        line = full(tb, s, kind)
        rep.case(('sentence', line), kind='d:' + kind)
        r0, r1 = produce(s), produce(line)
        if replies:
            okm, mt, _ = parse_m(replies[i])
            try:
                rest, t = NMEASentenceFactory._pre_process(line)
                iview = hx(rest) + ' ' + ('None' if t is None else hx(t))
                oki = True
            except Exception as e:
                iview, oki = type(e).__name__, False
            if okm != oki or mt != iview:
                rep.disagree('H-tagblock', {'pre_process': hx(line)}, replies[i], iview)
            if r1[0] == 'ok' and okm:
                got = hx(r1[1].raw) + ' ' + ('None' if r1[1].tag_block is None else hx(r1[1].tag_block.raw))
                mrest, mtb = mt.split(' ')
                want = mrest + ' ' + ('None' if mtb in ('None', '-') else mtb)   # `if tb:` an empty one is not attached
                if got != want:
                    rep.disagree('H-tagblock', {'produce': hx(line)}, want, got)
        # oracle: in scope when the tag block has no backslash and the bare line starts with its delimiter
        if kind.startswith('framing:') or b'\\' in tb or not s or s[:1] in b' \t\r\n\x0b\x0c\\':
            rep.count('d:out-of-scope')
            continue
        rp = {'kind': 'sentence', 'tb': tb.hex(), 'sentence': s.hex()}
        if r0[0] != r1[0] or (r0[0] == 'raise' and r0[1] != r1[1]):
            rep.violation({'entry': 'NMEASentenceFactory.produce', 'component': 'outcome', 'kind': 'differs-with-tag-block'},
                          f'{s!r} alone: {r0[:2] if r0[0] == "raise" else "parsed"}; behind the tag block {tb!r}: '
                          f'{r1[:2] if r1[0] == "raise" else "parsed"}', rp)
        elif r0[0] == 'ok':
            a0, a1 = sentence_attrs(r0[1]), sentence_attrs(r1[1])
            if a0 != a1:
                diff = [x[0] for x, y in zip(a0[1:], a1[1:]) if x != y] or ['class']
                rep.violation({'entry': 'NMEASentenceFactory.produce', 'component': diff[0], 'kind': 'changed-by-tag-block'},
                              f'{s!r}: attribute(s) {diff} differ when the tag block {tb!r} precedes the sentence', rp)
            tbo = r1[1].tag_block
            if r0[1].tag_block is not None or (tb and (tbo is None or tbo.raw != tb)) or (not tb and tbo is not None):
                rep.violation({'entry': 'NMEASentenceFactory.produce', 'component': 'tag_block', 'kind': 'wrong-value'},
                              f'tag block {tb!r} before {s!r}: sentence.tag_block = '
                              f'{None if tbo is None else tbo.raw!r}', rp)
        # white space in front of the LINE (the factory strips the line first): the padded line with the tag block must fare
        # like the padded line without it
        for pad in (b' ', b'\t ', b'\r\n'):
            p0, p1 = produce(pad + s), produce(pad + line)
            if p0[0] != p1[0] or (p0[0] == 'raise' and p0[1] != p1[1]) or \
                    (p0[0] == 'ok' and sentence_attrs(p0[1]) != sentence_attrs(p1[1])):
                rep.violation({'entry': 'NMEASentenceFactory.produce', 'component': 'outcome', 'kind': 'differs-with-tag-block/padded-line'},
                              f'{pad + s!r}: {p0[:2] if p0[0] == "raise" else "parsed"}; with the tag block {tb!r} behind the same '
                              f'padding: {p1[:2] if p1[0] == "raise" else "parsed (other attributes)" if p0[0] == "ok" else "parsed"}',
                              dict(rp, pad=pad.hex()))
                break
        # the same through the decoding API, lenient and strict (error_if_checksum_invalid=True): what decode() makes of the
        # line must not depend on the tag block in front of it, whatever the tag block's own checksum says
        for strict in (False, True):
            d0, d1 = _decode_view(s, strict), _decode_view(line, strict)
            if d0 != d1:
                rep.violation({'entry': 'decode' + ('(strict)' if strict else ''), 'component': 'outcome',
                               'kind': 'differs-with-tag-block'},
                              f'decode({s!r}{", error_if_checksum_invalid=True" if strict else ""}) gives {str(d0)[:120]}; behind '
                              f'the tag block {tb!r}: {str(d1)[:120]}', dict(rp, strict=strict))
                break
        if i % 97 == 0 and r1[0] == 'ok':
            rep.sample({'clause': 'sentence unchanged', 'line': line.decode('utf-8', 'replace'),
                        'raw': r1[1].raw.decode('ascii', 'replace')})


def sentence_cases(ctx, tbs, n):
    rng = ctx.rng
    bare = []
    for k in range(n):
        bare.append((ais_line(rng, k), 'single'))
    bare.append((ais_line(rng, 1, talker='AIVDO'), 'vdo'))
    bare.append((ais_line(rng, 2, talker='BSVDM', channel='B'), 'single'))
    for part in multi_lines(rng):
        bare.append((part, 'fragment'))
    bare.append((gatehouse_line(), 'gatehouse'))
    bare += [(b'$GPGGA,123519,4807.038,N,01131.000,E,1,08,0.9,545.4,M,46.9,M,,*47', 'unknown-type'),
             (b'!AIVDM,1,1,,A,,0*26', 'invalid'), (b'!AIVDM,garbage', 'invalid'), (b'hello', 'invalid'),
             (ais_line(rng, 3) + b'\r\n', 'crlf'), (ais_line(rng, 4) + b'  ', 'trailing-blank'),
             (b' ' + ais_line(rng, 5), 'leading-blank'), (b'', 'empty'), (b'\\x\\' + ais_line(rng, 6), 'second-tag-block')]
    fixed = [b's:x*15', b'abc', b'', b's:x*00', b'g:1-2-3*6B', b'*', b'**', b'a\\b', b' ', b's:\xc3\xa9*00']
    cases = []
    for s, kind in bare:
        for tb in rng.sample(tbs, min(len(tbs), 6)) + fixed:
            k = kind if tb not in (b'', b'a\\b') else kind + '/tb-' + ('empty' if tb == b'' else 'backslash')
            cases.append((tb, s, k))
    # malformed framing of the tag block itself (model vs _pre_process only)
    for raw, kind in [(b'\\abc', 'no-closing'), (b'\\', 'backslash-only'), (b'\\\\', 'two-backslashes'),
                      (b' \\a\\b ', 'blanks-around'), (b'\\a\\b\\c', 'three-backslashes'), (b'   ', 'blank-line'),
                      (b'\r\n', 'blank-line'), (b'x', 'one-byte'), (b'\\a*00\\ !AIVDM', 'blank-after-tag-block')]:
        cases.append((b'', raw, 'framing:' + kind))
    return cases


# ------------------------------------------------------------------ (e) random malformed tag blocks
def run_malformed(ctx, raws):
    rep = ctx.rep
    replies = ctx.model.ask_many(['tbinit ' + hx(r) for r in raws]) if ctx.model else None
    for i, raw in enumerate(raws):
        obs = observe_init(raw)
        rep.case(('malformed', raw), kind='e:init-ok' if obs[0] == 'ok' else 'e:init-raises')
        if obs[0] != 'ok':
            rep.count('e:' + obs[1])
        if replies:
            oki, mt, consulted = parse_m(replies[i])
            if consulted or needs_oracle(raw):
                rep.count('e:oracle-dependent')
                continue
            # which exception class init() raises is the business of C05 (see C05_tbq.py); here: raises or not, and
            # the parsed content
            if oki != (obs[0] == 'ok') or (oki and parse_tagblock(mt) != obs[1]):
                rep.disagree('H-tagblock', {'init': hx(raw)}, replies[i], str(obs[1]))


def malformed_raws(rng, n, created=()):
    alpha = [b',', b'*', b':', b'-', b'g', b's', b't', b'c', b'1', b'2', b'0', b'A', b'f', b'_', b' ', b'x', b'\xff', b'\xc3\xa9',
             b'g:1-2-3', b'*00', b'\\', b'+']
    out = [b'', b'*', b'**', b'*00', b's:x', b's:x*', b's:x*zz', b's:x*1', b's:x*015', b's:x* 15 ', b's:x*0x15', b's:x*1_5',
           b's:x*+15', b's:x*-15', b's:x*15*', b',*2C', b',,,*2C', b':*3A', b'g:1-1-1*00', b's:x*\xff', b's:x*_15',
           b's:x*115', b's:x*AB15', b's:x*10015', b's:x*-EB', b's:x*-1EB']      # wider than a byte, low byte = the content's XOR
    # one or two byte-level edits of well-formed tag blocks (most stay parseable), then plain noise
    pool = [r for r in created if len(r) < 80] or [b's:x*15']
    while len(out) < n * 2 // 3:
        b = bytearray(rng.choice(pool))
        for _ in range(rng.randint(1, 2)):
            op, pos = rng.choice('dir'), rng.randrange(len(b) + 1)
            if op == 'd' and b:
                del b[min(pos, len(b) - 1)]
            elif op == 'i':
                b[pos:pos] = rng.choice(alpha)
            elif b:
                b[min(pos, len(b) - 1):min(pos, len(b) - 1) + 1] = rng.choice(alpha)
        out.append(bytes(b))
    while len(out) < n:
        out.append(b''.join(rng.choice(alpha) for _ in range(rng.randint(1, 10))))
    return out


# ------------------------------------------------------------------ (f) text primitives against CPython
def run_prims(ctx, n):
    rng, rep, m = ctx.rng, ctx.rep, ctx.model
    if not m:
        return
    toks = ['', ' ', '\t', '\n', '\x0b', '\x0c', '\r', '\x1c', '+', '-', '_', '0', '1', '9', 'a', 'f', 'F', 'g', 'x', 'X', '0x',
            '0X', '00', '12', '\x00', '.', 'e']
    ints = ['', '0', '-0', '+1', ' 1 ', '1_0', '_1', '1_', '1__0', '0x1f', '0X_1f', '0x__1', '0x', '0_x1', '+_1', '- 1', '1 2',
            '0b1', '0o7', '1e3', '\x1c1', '1\x00',
            # the 4300-digit limit of base 10 (leading zeros count, underscores and blanks do not), cheap to evaluate
            '0' * 4299 + '7', '0' * 4300 + '7', '0' * 4301, '0_' * 4299 + '7', '0_' * 4300 + '7', ' ' * 50 + '0' * 4299 + '7\n',
            '-' + '0' * 4300 + '7', '+' + '0' * 4299 + '7', '0x' + '0' * 4400 + 'f']
    if not ctx.quick:
        ints += ['1' * 4300, '1' * 4301, '1_' * 4299 + '1', '1_' * 4300 + '1', ' ' * 50 + '9' * 4300 + '\n', 'f' * 5000,
                 '-' + '1' * 4301]
    while len(ints) < n:
        ints.append(''.join(rng.choice(toks) for _ in range(rng.randint(1, 6))))
    asks, want = [], []
    for s in ints:
        for base in (10, 16):
            asks.append(f'ptint {base} {hx(s.encode())}')
            try:
                want.append(f'Ok {int(s, base) % (2 ** 61 - 1)}')
            except ValueError:
                want.append('Raise ValueError')
    alpha = [b',', b'*', b'\\', b'!', b'$', b'\r', b'\n', b' ', b'1', b'a', b'\xff', b':', b'-', b'\t', b'\x0b', b'\x0c', b'\x1c']
    for _ in range(n):
        b = b''.join(rng.choice(alpha) for _ in range(rng.randint(0, 9)))
        sep = rng.choice(b',*:-\\')
        mx = rng.choice([None, 0, 1, 2, 3])
        asks.append(f'ptsplit {sep} {"-" if mx is None else mx} {hx(b)}')
        want.append(','.join(hx(p) for p in (b.split(bytes([sep])) if mx is None else b.split(bytes([sep]), mx))))
        asks.append('ptstrip ' + hx(b))
        want.append(hx(b.strip()))
        asks.append(f'ptfind {sep} {hx(b)}')
        want.append(str(b.find(bytes([sep]))))
    u8 = [b'\xc0\x80', b'\xe0\x80\x80', b'\xed\xa0\x80', b'\xf4\x90\x80\x80', b'\xf0\x8f\x80\x80', b'\xc2', b'\xc2\x80',
          b'\xf4\x8f\xbf\xbf', b'\xf5\x80\x80\x80', b'\xef\xbf\xbf', b'\x80', b'\xe1\x80', b'\xee\x80\x80', b'\xed\x9f\xbf',
          b'\xf0\x90\x80\x80', b'\xc1\xbf', b'\xdf\xbf', b'\xe0\xa0\x80', b'\xe0\x9f\x80', b'a\xc3\xa9b', b'\xe2\x82', b'\xf0\x9f\x9a']
    lead = [0x7f, 0x80, 0xbf, 0xc0, 0xc1, 0xc2, 0xdf, 0xe0, 0xe1, 0xec, 0xed, 0xee, 0xef, 0xf0, 0xf1, 0xf3, 0xf4, 0xf5, 0xff, 0x41]
    cont = [0x7f, 0x80, 0x8f, 0x90, 0x9f, 0xa0, 0xbf, 0xc0, 0x41]
    for _ in range(n):
        u8.append(bytes([rng.choice(lead)] + [rng.choice(cont) for _ in range(rng.randint(0, 4))]))
    for b in u8:
        asks.append('ptutf8 ' + hx(b))
        try:
            b.decode()
            want.append('1')
        except UnicodeDecodeError:
            want.append('0')
    for v in list(range(256)) + [256, 4095, 4096, 65535, 10 ** 12]:
        asks.append(f'pthex {v}')
        want.append(hx(hex(v)[2:].upper().encode()))
    got = m.ask_many(asks)
    for a, w, g in zip(asks, want, got):
        rep.case(('prim', a), kind='f:' + a.split(' ')[0])
        if g.replace(' oracle=0', '') != w:
            rep.disagree('H-prim', {'request': a[:200]}, g[:200], w[:200])


# ------------------------------------------------------------------ drivers
def subsets():
    for r in range(1, 8):
        for c in itertools.combinations(ALL_FIELDS, r):
            yield list(c)


def run(ctx, scale=1):
    rng = ctx.rng
    check_codes(ctx)
    per_subset = ctx.budget(3, 30) * scale
    cases = []
    for sub in subsets():
        for j in range(per_subset):
            cases.append(gen_kwargs(rng, sub, low_checksum=(j % 3 == 2))[0])
    # every single supported field alone with every value kind a few times (boundary list of DESIGN.md section 5)
    for f in ALL_FIELDS:
        for _ in range(ctx.budget(10, 100)):
            cases.append(gen_kwargs(rng, [f])[0])
    created = run_roundtrip(ctx, cases)
    low = sum(1 for r in created if xor(r.rsplit(b'*', 1)[0]) < 16)
    if created and low * 20 < len(created):
        ctx.rep.internal(f'generator self-check: only {low}/{len(created)} created tag blocks have a checksum below 0x10')

    contents = [r.rsplit(b'*', 1)[0] for r in rng.sample(created, min(len(created), ctx.budget(5, 40)))]
    contents += [b's:x', b'g:1-2-3', b'\x01', b'c:1671533231,s:2573535']
    run_validity(ctx, contents, ['upper', 'lower'] if ctx.quick else ['upper', 'lower', 'mixed'])

    extras = []
    for _ in range(ctx.budget(40, 400) * scale):
        sub = rng.sample(ALL_FIELDS, rng.randint(1, 4))
        kw, _, _ = gen_kwargs(rng, sub)
        base = [f'{CODES[k]}:{v}'.encode() for k, v in kw if v is not None and k in CODES]
        for kind, junks in JUNK.items():
            junk = rng.choice(junks)
            for pos in range(len(base) + 1):
                extras.append((base, junk, pos, kind))
    # every junk field once next to every single known field
    for kind, junks in JUNK.items():
        for junk in junks:
            f = rng.choice(ALL_FIELDS)
            base = [b'g:1-2-3' if f == 'group' else f'{CODES[f]}:v'.encode()]
            extras += [(base, junk, 0, kind), (base, junk, 1, kind)]
    # very many unknown fields in front of / behind the known ones (a tag block has no field limit)
    for nfields in (200, 254, 255, 256, 300, 1000):
        base = [b's:STATION', b'g:1-2-3', b'c:1671533231']
        junk = b','.join(b'x%d:%d' % (i, i) for i in range(nfields))
        extras += [(base, junk, 0, 'unknown-code'), (base, junk, 1, 'unknown-code'), (base, junk, 3, 'unknown-code')]
    run_extras(ctx, extras)

    run_sentences(ctx, sentence_cases(ctx, created, ctx.budget(6, 40)))
    run_malformed(ctx, malformed_raws(rng, ctx.budget(600, 6000) * scale, created))
    run_prims(ctx, ctx.budget(300, 3000))


def hunt(ctx):
    """Something no longer checks: the same clauses, ten times as many draws."""
    run(ctx, scale=10)


def replay(ctx, data):
    from pyais.messages import TagBlock
    import vlib
    rep = vlib.Report('C16', 'quick', 0)

    class C:
        pass
    c = C()
    c.rep, c.model, c.rng, c.quick = rep, None, ctx.rng, True
    kind = data['kind']
    if kind == 'roundtrip':
        kw = [(k, dec_value(v)) for k, v in data['kwargs']]
        for e in data.get('earlier_equal') or []:          # the earlier calls with equal values, as in the recorded run
            try:
                TagBlock.create(**{k: dec_value(v) for k, v in e})
            except Exception:      # noqa: BLE001
                pass
        try:
            raw = TagBlock.create(**dict(kw))
        except Exception as e:
            return f'TagBlock.create raised {type(e).__name__}: {e}'
        bad = roundtrip_oracle(kw, raw, observe_init(raw))
        return '; '.join(t for _, _, t in bad) if bad else None
    if kind == 'valid':
        raw = bytes.fromhex(data['raw'])
        content, check = raw.rsplit(b'*', 1)
        obs = observe_init(raw)
        if obs[0] != 'ok':
            return f'init() of {raw!r} raised {obs[1]}'
        if obs[1]['valid'] != (xor(content) == int(check, 16)):
            return f'{raw!r}: is_valid={obs[1]["valid"]} but XOR of the content is {xor(content)}'
        return None
    if kind == 'extras':
        run_extras(c, [([bytes.fromhex(f) for f in data['base']], bytes.fromhex(data['junk']), data['pos'], 'replay')])
    elif kind == 'sentence':
        run_sentences(c, [(bytes.fromhex(data['tb']), bytes.fromhex(data['sentence']), 'replay')])
    return rep.violations[0]['what'] if rep.violations else None
