"""C18 -- a Gatehouse wrapper is attached to the next delivered message only.

Model: Model/Assemble.v (stream_step, queue_step over Prim/PyList.v and Model/AssembleIter.v).  Correspondence: H-stream
(tools/props/stream_common.py): the extracted loops, given the real parser's per-line outcomes, against the six real
front-ends.  Oracle: Spec/AssembleSpec.v spec_wrapper (extracted) over the wrapper lines the harness wrote and the delivery positions.
Backpressure extension: wherever NMEAQueue is a front-end the same lines also go into a bounded NMEAQueue(maxsize=k) with
non-blocking puts (stream_common.py, "bounded NMEAQueue"): correspondence with the extracted queue_step_b, oracle from
Proofs/AssembleBounded.v (what comes out is what the unbounded reference delivers at the accepted lines)."""
import os
import sys

sys.path.insert(0, os.path.dirname(os.path.abspath(__file__)))
import stream_common as sc  # noqa: E402

GEN = ['GenConst.v']
RULE = ('line sequences built by the harness from K messages (1..9 fragments, random bit payloads of real message types '
        'armored and cut by tools/ais.py) in distinct or reused (sequence id, channel) slots, per-message fragment permutation, '
        'random interleaving, some messages left incomplete, mixed with Gatehouse wrappers (valid / invalid dates), tag-blocked '
        'lines, foreign NMEA lines and malformed lines, plus the boundary sequences of DESIGN.md section 5; every sequence goes '
        'through IterMessages, ByteStream, BinaryIOStream, FileReaderStream, SocketStream (scripted recv) and NMEAQueue, with and '
        'without a TagBlockQueue; a case = (front-end, tbq, terminator, line list); distinct = distinct such tuples; thorough tier '
        'adds all arrival orders of small message sets' + sc.RULE_BOUNDED)
ASSUMPTIONS = [sc.ASSUMPTION_BOUNDED,
               'the model receives the per-line outcome of the REAL NMEASentenceFactory.produce / TagBlockQueue.put_sentence '
               '(the byte-level parser and the tag block queue are separate layers); the theorems quantify over these outcomes',
               'fragment count 0 / non-positive fragment numbers (IndexError in both loops) belong to C05 and are outside the '
               'schedules of C03; the model shows them, the correspondence check covers them']
TRUSTED_EXTRA = ['Prim/PyList.v: list index / store / slice / repeat with CPython semantics (micro-harness on every run)',
                 'queue.Queue as a FIFO list, generators as lazy lists, a file object as the list of its LF-terminated lines']
WANT = ('C18',)


def run(ctx):
    sc.pylist_micro(ctx)
    sc.source_micro(ctx)
    sc.run_generated(ctx, WANT, ctx.budget(140, 1500), ctx.budget(40, 400))
    if ctx.quick:
        sc.small_scope(ctx, WANT, [(2, 1), (2, 2)], sc.FRONTENDS, with_wrappers=True)
    else:
        sc.small_scope(ctx, WANT, [(2, 1), (2, 2), (2, 2, 1), (3, 2), (2, 2, 2)], sc.FRONTENDS, with_wrappers=True)
        sc.small_scope(ctx, WANT, [(3, 3, 1), (3, 2, 2)], ['IterMessages', 'NMEAQueue'], with_wrappers=True)


def hunt(ctx):
    """All arrival orders (= interleavings x per-message permutations) of up to 3 in-flight messages with up to 3 fragments
    plus singles, then random larger schedules; bounded by a time limit."""
    import time
    deadline = time.time() + (240 if ctx.quick else 900)
    fast = ['IterMessages', 'ByteStream', 'BinaryIOStream', 'NMEAQueue']
    two = ['IterMessages', 'NMEAQueue']
    sc.small_scope(ctx, WANT, [(2, 1), (2, 2), (3, 1), (3, 2, 1), (2, 2, 2)], fast, with_wrappers=True, deadline=deadline)
    if not ctx.rep.violations:
        sc.small_scope(ctx, WANT, [(3, 3, 1), (3, 2, 2)], two, with_wrappers=True, deadline=deadline)
    if not ctx.rep.violations:
        sc.run_generated(ctx, WANT, 600, 0, frontends=fast, deadline=deadline)
    if not ctx.rep.violations:
        sc.small_scope(ctx, WANT, [(3, 3, 2), (3, 3, 3), (3, 3, 3, 1)], two, with_wrappers=True, limit=6000, deadline=deadline)


def replay(ctx, data):
    return sc.replay_case(ctx, data, WANT)
