"""H-codec, create/encode direction: layouts from the extracted Spec, in-range / out-of-range value generators,
the three API paths, value text <-> Python values.  Shared by C02 and C08."""
import enum
import os
import sys
from decimal import Decimal
from fractions import Fraction

sys.path.insert(0, os.path.dirname(os.path.abspath(__file__)))
import codec_common as cc  # noqa: E402

ALPHABET = [chr(c) for c in range(32, 96)]            # the 64 characters of the six-bit alphabet
SCALE = {'U10': 10, 'I10': 10, 'F1': 1, 'LL': 600000, 'LL600': 600}
SIGNED = {'I10', 'LL', 'LL600'}
APIS = ('encode_dict:type', 'encode_dict:msg_type', 'create+encode_msg')


class Field:
    def __init__(self, txt):
        n, k, o, w, vl, en, codes = txt.split(':')
        self.name, self.kind, self.off, self.width, self.varlen = n, k, int(o), int(w), vl == '1'
        self.enum = None if en == '-' else en
        self.codes = [] if codes == '-' else [int(c) for c in codes.split('.')]


class Layout:
    def __init__(self, cls, reply):
        tid, fields, req, disc = reply.split(' ')
        self.cls, self.tid = cls, int(tid)
        self.fields = [Field(t) for t in fields.split(';')]
        self.by_name = {f.name: f for f in self.fields}
        self.required = req.split(',')
        self.disc = dict(cc.parse_fields(disc))
        self.nominal = max(f.off + f.width for f in self.fields)


_layouts = {}


def layout(model, cls):
    if cls not in _layouts:
        _layouts[cls] = Layout(cls, model.ask(f'rtlayout {cls}'))
    return _layouts[cls]


# ---------------------------------------------------------------------------------------------------
# Python values <-> driver text
# ---------------------------------------------------------------------------------------------------
def enum_class(name):
    import pyais.constants as C
    return getattr(C, name)


def py_of_text(txt):
    """driver value text -> the Python value handed to the API (inverse of cc.value_text)"""
    k, body = txt[0], txt[1:]
    if k == 'N':
        return None
    if k == 'i':
        return int(body)
    if k == 'b':
        return body == '1'
    if k == 'f':
        n, d = body.split('/')
        return float(Fraction(int(n), int(d)))
    if k == 's':
        return ''.join(chr(c) for c in cc.cps(body))
    if k == 'y':
        return bytes.fromhex(body)
    if k == 'e':
        name, code = body.split(':')[:2]
        return enum_class(name)(int(code))
    if k == 't':
        return enum_class('TurnRate')(int(body))
    raise ValueError(txt)


def real_fraction(py):
    """the real number a Python value denotes: ints exactly, floats as the decimal they print as"""
    if isinstance(py, bool) or isinstance(py, enum.Enum):
        return None
    if isinstance(py, int):
        return Fraction(py)
    if isinstance(py, float):
        return Fraction(Decimal(repr(py)))
    return None


def assignment_text(a):
    return ';'.join(f'{k}={cc.value_text(v)}' for k, v in a.items()) if a else '-'


def dec_float(num, den_pow10):
    """the float written as the decimal num / 10^den_pow10"""
    return float(Decimal(num).scaleb(-den_pow10))


# ---------------------------------------------------------------------------------------------------
# generators
# ---------------------------------------------------------------------------------------------------
def code_range(f):
    w = f.width
    if f.kind in SIGNED:
        return -(1 << (w - 1)), (1 << (w - 1)) - 1
    return 0, (1 << w) - 1


def representable(f, code):
    """the documented decimal of a wire code, as a Python float"""
    if f.kind in ('U10', 'I10'):
        return dec_float(code, 1)
    if f.kind == 'F1':
        return float(code)
    s = SCALE[f.kind]
    q, r = divmod(code * 10 ** 6, s)
    if 2 * r > s or (2 * r == s and q % 2):
        q += 1
    return dec_float(q, 6)


def rot_value(code):
    """to_turn of a code, computed with integers (documented: sign * round((code / 4.733) ** 2))"""
    a, b = code * code * 10 ** 6, 4733 * 4733
    q, r = divmod(a, b)
    if 2 * r > b or (2 * r == b and q % 2):
        q += 1
    return float(q if code > 0 else -q)


def boundary_values(f):
    """in-range boundary values of a field (Python values)"""
    w, k = f.width, f.kind
    out = []
    if k == 'U':
        out = sorted({0, 1, (1 << w) - 1, (1 << w) - 2, 1 << (w - 1), (1 << (w - 1)) - 1} & set(range(1 << w)) if w < 20
                     else {0, 1, (1 << w) - 1, (1 << w) - 2, 1 << (w - 1), (1 << (w - 1)) - 1})
    elif k == 'B':
        out = [True, False, 0, 1]
    elif k in SCALE:
        lo, hi = code_range(f)
        codes = {lo, lo + 1, hi, hi - 1, 0, 1, -1 if lo < 0 else 2, 2, 3, 7, 10, 11}
        for name, vals in cc.SENTINELS.items():
            if f.name.replace('ne_', '').replace('sw_', '') == name:
                codes |= set(vals)
        for c in sorted(c for c in codes if lo <= c <= hi):
            out.append(representable(f, c))
            if k in ('F1',) or c % 3 == 0:
                out.append(int(representable(f, c)) if float(representable(f, c)).is_integer() else representable(f, c))
        s = SCALE[k]
        # not representable: just inside the ends, between codes, on and around quantisation ties (finite decimals of
        # at most 10 digits; whether a value is in range is decided by the Spec, not here)
        for c in (lo, hi, 0, 1, 4, 7):
            for delta in (Fraction(1, 4), Fraction(-1, 4), Fraction(49, 100), Fraction(-49, 100), Fraction(1, 2),
                          Fraction(-1, 2), Fraction(51, 100), Fraction(999, 1000)):
                y = (Fraction(c) + delta) / s
                if lo <= y * s <= hi:
                    out.append(round(float(y), 10))
        out += [dec_float(25, 7), dec_float(9, 7), dec_float(5, 2), dec_float(15, 2), dec_float(25, 2)]
    elif k == 'ROT':
        TR = enum_class('TurnRate')
        out = [TR.NO_TI_RIGHT, TR.NO_TI_LEFT, TR.NO_TI_DEFAULT, 0, 0.0, 1, -1, 0.5, 0.05, 708.0, -708.0, 714.0, -714.3, 25.0, 2.5,
               720, 0.011]
        out += [rot_value(c) for c in (1, 2, 3, 4, 5, 6, 7, 10, 64, 125, 126, -1, -4, -5, -6, -10, -126)]
    elif k == 'T':
        n = w // 6
        out = ['', 'A', '@', '@ABC'[:max(n, 1)], ' ' * min(n, 3), (' AB ' * n)[:n], 'Z' * n, 'abc xyz'[:n], ('?' * n)[:n],
               ('A@B' + '_' * n)[:n], (' ' + 'Q' * n)[:n], ('Q' * n)[:max(n - 1, 0)] + ' ']
        for pos in sorted({0, n // 2, n - 1}):
            for ch in ALPHABET:
                s = ['K'] * n
                s[pos] = ch
                out.append(''.join(s))
    elif k in ('D', 'X'):
        full = (w + 7) // 8
        padmask = (0xff << ((8 - w % 8) % 8)) & 0xff
        def full_bytes(fill):
            b = bytearray([fill] * full)
            b[-1] &= padmask
            return bytes(b)
        out = [full_bytes(0xff), full_bytes(0), full_bytes(0xa5), full_bytes(0x01)]
        if f.varlen:
            out += [b'', b'\x00', b'\x80', b'\xff', b'\x01\x02', bytes([0x5a] * (w // 8)), bytes([0xff] * max(w // 8 - 1, 1))]
    elif k == 'E':
        E = enum_class(f.enum)
        out = [E(c) for c in f.codes] + list(f.codes)
    return out


def random_value(rng, f, representable_share=0.5):
    """a random in-range value of a field"""
    w, k = f.width, f.kind
    if k == 'U':
        return rng.choice([rng.randrange(1 << w), rng.randrange(min(1 << w, 16)), (1 << w) - 1 - rng.randrange(min(1 << w, 4))])
    if k == 'B':
        return rng.choice([True, False, True, False, 0, 1])
    if k in SCALE:
        lo, hi = code_range(f)
        s = SCALE[k]
        r = rng.random()
        if r < representable_share:
            c = rng.randint(lo, hi) if rng.random() < 0.7 else rng.choice([lo, hi, 0, rng.randint(-20, 20)])
            c = min(max(c, lo), hi)
            v = representable(f, c)
            if float(v).is_integer() and rng.random() < 0.3:
                return int(v)
            return v
        digits = rng.choice([1, 2, 3, 5, 6, 7])
        # a decimal inside the representable interval [lo/s, hi/s]
        num = rng.randint(-(-lo * 10 ** digits // s), hi * 10 ** digits // s)
        return dec_float(num, digits)
    if k == 'ROT':
        r = rng.random()
        TR = enum_class('TurnRate')
        if r < 0.15:
            return rng.choice(list(TR))
        if r < 0.55:
            return rot_value(rng.randint(-126, 126))
        if r < 0.65:
            return rng.randint(-700, 700)
        digits = rng.choice([0, 1, 2, 3])
        v = dec_float(rng.randint(-7140 * 10 ** digits // 10, 7140 * 10 ** digits // 10), digits)
        return 2.0 if abs(v) in (127.0, 128.0) else v
    if k == 'T':
        n = w // 6
        ln = rng.choice([n, rng.randint(0, n), rng.randint(0, min(n, 8))])
        pool = rng.choice([ALPHABET, 'ABCDEFGHIJKLMNOPQRSTUVWXYZ0123456789 ', 'abcdefghijklmnopqrstuvwxyz @?_'])
        return ''.join(rng.choice(pool) for _ in range(ln))
    if k in ('D', 'X'):
        full = (w + 7) // 8
        if f.varlen and rng.random() < 0.6:
            ln = rng.choice([rng.randint(0, w // 8), rng.randint(0, min(w // 8, 6)), w // 8])
            return bytes(rng.getrandbits(8) for _ in range(ln))
        b = bytearray(rng.getrandbits(8) for _ in range(full))
        if w % 8:
            b[-1] &= (0xff << (8 - w % 8)) & 0xff
        return bytes(b)
    if k == 'E':
        c = rng.choice(f.codes)
        return enum_class(f.enum)(c) if rng.random() < 0.6 else c
    raise ValueError(k)


def out_of_range_value(rng, f):
    """a value the wire cannot carry in this field, or of an unexpected type"""
    w, k = f.width, f.kind
    if k == 'U':
        return rng.choice([1 << w, (1 << w) + rng.randrange(1000), -1, -rng.randrange(1, 1 << w), str(rng.randrange(1 << w)),
                           dec_float(rng.randrange(10 << w), 1), None, 'x1', b'\x01'])
    if k == 'B':
        return rng.choice([2, -1, 'x', '', None, 0.0, 1.5])
    if k in SCALE:
        lo, hi = code_range(f)
        s = SCALE[k]
        c = rng.choice([hi + 1, hi + 2, lo - 1, lo - 2, 2 * hi + 1, (1 << w) - 1, (1 << w), (1 << w) - 2, -(1 << w), 10 * hi])
        return rng.choice([representable(f, c), None, 'abc', float(Fraction(2 * c + 1, 2 * s))])
    if k == 'ROT':
        return rng.choice([128, 128.0, 127, -127.0, 720.0, 1000, -720, -128.0, None, 'x'])
    if k == 'T':
        n = w // 6
        return rng.choice(['Q' * (n + 1), 'Q' * (n + 5), '{', 'AB~', '\xe4', '`', 'a' * n + 'b', None, 5, b'AB'])
    if k in ('D', 'X'):
        full = (w + 7) // 8
        return rng.choice([bytes([0xff] * (full + 1)), bytes([0xff] * full) if w % 8 else bytes([1] * (full + 2)),
                           bytes([0x01] * max(full - 1, 0)) if not f.varlen else bytes([1] * (full + 3)), 'abc', 5, None])
    if k == 'E':
        E = enum_class(f.enum)
        bad = [c for c in range(1 << w) if c not in f.codes]
        return rng.choice(([rng.choice(bad)] if bad else []) + [1 << w, -1, None, 'x'])
    raise ValueError(k)


def random_assignment(rng, lay, api, p_present=0.7, focus=None):
    """field name -> Python value, in range, the fields the API requires present; focus = (name, value) forces one entry"""
    a = {}
    for f in lay.fields:
        if f.name == 'msg_type':
            if api == 'encode_dict:msg_type' or rng.random() < 0.4:
                a[f.name] = lay.tid
            continue
        if f.name in lay.disc:
            txt = lay.disc[f.name]
            v = py_of_text(txt)
            if isinstance(v, bool) and rng.random() < 0.3:
                v = int(v)
            a[f.name] = v
            continue
        if f.name in lay.required or rng.random() < p_present or (focus and focus[0] == f.name):
            a[f.name] = random_value(rng, f)
    if focus:
        a[focus[0]] = focus[1]
    # dictionaries are unordered for the API: shuffle the insertion order
    keys = list(a)
    rng.shuffle(keys)
    return {k: a[k] for k in keys}


def near_tie(lay, a):
    """does a supplied real sit within float noise of a quantisation tie (where binary64 and exact arithmetic may
    legitimately pick different neighbours)?  -> the model-vs-code comparison is skipped for such a case"""
    for k, v in a.items():
        f = lay.by_name.get(k)
        x = real_fraction(v)
        if f is None or x is None:
            continue
        if f.kind in ('LL', 'LL600'):
            y = x * SCALE[f.kind]
            fr = y - (y.numerator // y.denominator)
            if abs(fr - Fraction(1, 2)) < Fraction(1, 10 ** 6):
                return True
        elif f.kind in ('U10', 'I10', 'F1'):
            y = x * SCALE[f.kind]
            fr = y - (y.numerator // y.denominator)
            if fr != 0 and (fr < Fraction(1, 10 ** 9) or 1 - fr < Fraction(1, 10 ** 9)):
                return True
        elif f.kind == 'ROT' and x != 0:
            y2 = abs(x) * 4733 * 4733 / 10 ** 6           # (4.733 sqrt|x|)^2
            import math
            kf = math.isqrt(int(y2))
            for h in (kf - 1, kf, kf + 1):
                t = Fraction(2 * h + 1, 2) ** 2
                if t > 0 and abs(y2 - t) / t < Fraction(1, 10 ** 9):
                    return True
    return False


# ---------------------------------------------------------------------------------------------------
# the implementation through its three API paths
# ---------------------------------------------------------------------------------------------------
def impl_roundtrip(lay, api, a):
    """-> dict(created=[(name, value)], bits=str, payload=(str, fill), decoded=impl_decode-like tuple) or
    dict(error=(stage, exception class name, text))"""
    import pyais
    import pyais.messages as M
    out = {}
    try:
        if api == 'create+encode_msg':
            msg = getattr(M, lay.cls).create(**a)
        else:
            from pyais.encode import data_to_payload, get_ais_type
            data = dict(a)
            if api == 'encode_dict:type':
                data['type'] = lay.tid
            msg = data_to_payload(get_ais_type(data), data)
    except Exception as e:
        return {'error': ('create', type(e).__name__, str(e)[:200])}
    out['class'] = type(msg).__name__
    out['created'] = [(f.name, getattr(msg, f.name)) for f in type(msg).fields()]
    try:
        out['bits'] = msg.to_bitarray().to01()
        out['payload'] = msg.encode()
        if api == 'create+encode_msg':
            sentences = pyais.encode_msg(msg)
        else:
            sentences = pyais.encode_dict(data)
        out['sentences'] = sentences
    except Exception as e:
        return {'error': ('encode', type(e).__name__, str(e)[:200]), **out}
    try:
        m2 = pyais.decode(*sentences)
    except Exception as e:
        out['decoded'] = ('Raise', type(e).__name__, str(e)[:200])
        return out
    d = m2.asdict()
    names = [f.name for f in type(m2).fields()]
    out['decoded'] = ('Ok', type(m2).__name__, [(n, d[n]) for n in names], m2)
    # result independence: what the library handed out belongs to the caller.  Overwrite it (every field of the decoded
    # message, the list of sentences) and do the SAME round trip again: it must give the same sentences and field values
    # (a cache that hands out its own mutable objects shows only here)
    try:
        first = list(sentences)
        out['sentences'] = first
        for n in names:
            try:
                setattr(m2, n, None)
            except Exception:      # noqa: BLE001
                pass
        if isinstance(sentences, list):
            sentences.clear()
        again = pyais.encode_msg(getattr(M, lay.cls).create(**a)) if api == 'create+encode_msg' else pyais.encode_dict(dict(data))
        if list(again) != first:
            out['aliasing'] = f'the same message encoded a second time gives {list(again)[:2]!r}, the first time {first[:2]!r}'
        else:
            m3 = pyais.decode(*again)
            d3 = m3.asdict()
            diff = [n for n in names if repr(d3.get(n)) != repr(d[n])]
            if type(m3) is not type(m2) or diff:
                out['aliasing'] = (f'decoding the same sentences a second time (after the caller overwrote the first result) gives '
                                   f'{diff[0] if diff else "class"} = {d3.get(diff[0]) if diff else type(m3).__name__!r}, '
                                   f'the first time {d[diff[0]] if diff else type(m2).__name__!r}')
    except Exception as e:      # noqa: BLE001
        out['aliasing'] = f'the second, identical round trip raised {type(e).__name__}: {e}'
    return out


def parse_c02model(reply):
    """'Ok cls bits payload fill created | decoded' | 'Raise X'"""
    if reply.startswith('Raise '):
        return {'error': reply[6:].strip()}
    if reply.startswith('ERROR'):
        raise RuntimeError('driver: ' + reply)
    left, right = reply.split(' | ', 1)
    _, cls, bits, payload, fill, created = left.split(' ', 5)
    return {'class': cls, 'bits': '' if bits == '-' else bits,
            'payload': ('' if payload == '-' else bytes.fromhex(payload).decode('latin-1'), int(fill)),
            'created': cc.parse_fields(created), 'decoded': cc.parse_msg(right)}


def compare_c02(impl, model):
    """-> None if the model and the implementation agree on every stage, else text"""
    if 'error' in model:
        if 'error' in impl and impl['error'][1] == model['error']:
            return None
        return f"outcome: impl {impl.get('error', 'Ok')} model Raise {model['error']}"
    if 'error' in impl:
        # the model splits nothing by stage: a raise in to_bitarray is a Raise of the whole chain
        return f"outcome: impl {impl['error']} model Ok"
    if impl['class'] != model['class']:
        return f"created class: impl {impl['class']} model {model['class']}"
    if [k for k, _ in impl['created']] != [k for k, _ in model['created']]:
        return 'created field names differ'
    for (k, pv), (_, mv) in zip(impl['created'], model['created']):
        if not cc.value_matches(pv, mv):
            return f'created {k}: impl {cc.show(pv)} model {mv}'
    if impl['bits'] != model['bits']:
        return f"bits: impl {impl['bits'][:80]}.. ({len(impl['bits'])}) model {model['bits'][:80]}.. ({len(model['bits'])})"
    if tuple(impl['payload']) != tuple(model['payload']):
        return f"armored payload/fill: impl {impl['payload']} model {model['payload']}"
    d = cc.compare_model(impl['decoded'], model['decoded'])
    return ('decoded ' + d) if d else None
