"""C14 -- tracker (see tracker_common.py for the shared H-tracker harness)."""
import os
import sys

sys.path.insert(0, os.path.dirname(os.path.abspath(__file__)))
import tracker_common as tc  # noqa: E402

GEN = []
RULE = tc.RULE['C14']
ASSUMPTIONS = tc.ASSUMPTIONS
TRUSTED_EXTRA = tc.TRUSTED_EXTRA


def run(ctx):
    tc.run_common(ctx, 'C14')
    tc.self_check(ctx, tc.NEEDED['C14'])


def hunt(ctx):
    tc.hunt_common(ctx, 'C14')


def replay(ctx, data):
    return tc.replay_common(ctx, 'C14', data)
