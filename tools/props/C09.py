"""C09 -- the encoder emits well-formed NMEA 0183 sentences.

Model: Model/Frame.v (ais_to_nmea_0183, encode_dict, encode_msg, get_ais_type, data_to_payload, compute_checksum) over
Prim/Fmt.v and Model/Codec.v (create / to_bitarray / encode_ascii_6).  Correspondence: the extracted model against
pyais.ais_to_nmea_0183 / encode_dict / encode_msg on the produced strings (exceptions: class name only).
Oracle: the clause list of Spec/FrameSpec.v (extracted) on the implementation's sentences, the armoring/padding demanded by
the specification, and acceptance by the decoder (the sentences parse, carry valid checksums, reassemble to the encoded
payload bits and -- for real messages -- pyais.decode succeeds)."""
import os
import sys

sys.path.insert(0, os.path.dirname(os.path.dirname(os.path.abspath(__file__))))
sys.path.insert(0, os.path.dirname(os.path.abspath(__file__)))
import ais  # noqa: E402
import codec_common as cc  # noqa: E402

GEN = ['GenTables.v', 'GenDispatch.v', 'GenConv.v', 'GenEnums.v', 'GenAlpha.v', 'GenConst.v']
RULE = ('ais_to_nmea_0183 on PRNG-drawn armored payloads of EVERY length 0..200 and of the boundary lengths 59/60/61/119/120/'
        '121/178/179/180/181/239/240/241/479/480/481/539/540 (x both talkers x both channels x fill 0..5), payloads searched so '
        'that a sentence checksum is below 0x10, lengths beyond 540, malformed talker/channel/payload/fill arguments; '
        'encode_dict / encode_msg on messages of all 35 layout variants (decoded from random payloads and synthesised with '
        'full-width text/binary fields: types 5, 6, 8, 12, 14, 17, 19, 21, 24, 26 at maximum length) with the type given as '
        '`type`, `msg_type`, both, neither, text, float, bool, None; a case is (entry point, arguments); distinct = distinct '
        'argument tuples')
ASSUMPTIONS = ['only ASCII arguments are modelled (str.encode() is then the identity on character codes); other characters are '
               'counted as unmodelled and skipped',
               'floats in generated dictionaries are small dyadic rationals or values decoded by pyais itself, on which the '
               'binary64 arithmetic of the converters is exact']
TRUSTED_EXTRA = ['Prim/Fmt.v models str(int) and format(int, "02X") by hand (micro-harness against CPython on every run)',
                 'Spec/FrameSpec.v is the hand-written reading of the clause list of C09 (NMEA 0183 / AIVDM sentence layout)']

ARMOR = [chr(c) for c in list(range(48, 88)) + list(range(96, 120))]
TALKERS = ['AIVDM', 'AIVDO']
CHANNELS = ['A', 'B']
BOUNDARY = [1, 2, 59, 60, 61, 119, 120, 121, 178, 179, 180, 181, 239, 240, 241, 299, 300, 301, 479, 480, 481, 539, 540]
TEXT_CLAUSES = ['length', 'shape', 'start', 'checksum', 'alphabet', 'numbering', 'seq', 'fill', 'concat']
FRAMING_EXC = ('InvalidNMEAChecksum', 'InvalidNMEAMessageException', 'MissingMultipartMessageException',
               'TooManyMessagesException', 'NonPrintableCharacterException', 'MissingPayloadException')


def hx(s):
    return s.encode('latin-1').hex() if s else '-'


def unhx(h):
    return '' if h == '-' else bytes.fromhex(h).decode('latin-1')


def is_latin1(s):
    try:
        s.encode('latin-1')
        return True
    except UnicodeEncodeError:
        return False


def parse_sentences(reply):
    """'Ok hex,hex' | 'Ok -' | 'Raise X' | 'CreateRaise X' -> ('Ok', [str]) | ('Raise', X)"""
    if reply.startswith('ERROR'):
        raise RuntimeError('driver: ' + reply)
    if reply.startswith('Ok '):
        body = reply[3:].strip()
        return ('Ok', [] if body == '-' else [unhx(h) for h in body.split(',')])
    kind, name = reply.split(' ', 1)
    return ('Raise', name.strip())


_LAST = {'aliasing': None}


def impl_call(fn, *a, **kw):
    _LAST['aliasing'] = None
    try:
        r = fn(*a, **kw)
    except Exception as e:     # noqa: BLE001  -- the class name is the observation
        return ('Raise', type(e).__name__)
    out = list(r)
    # result independence: the returned list belongs to the caller.  Empty it and encode the same thing again: the second
    # result must be the same sentences (an encoder that hands out a list it also keeps in a cache shows only here)
    if isinstance(r, list) and r:
        r.clear()
        try:
            again = list(fn(*a, **kw))
        except Exception as e:     # noqa: BLE001
            again = [f'<{type(e).__name__}>']
        if again != out:
            _LAST['aliasing'] = (f'{fn.__name__} called a second time with the same arguments (after the caller emptied the first '
                                 f'result) returns {again[:2]!r}, the first time {out[:2]!r}')
    return ('Ok', out)


# ---------------------------------------------------------------------------------------------------
# oracle
# ---------------------------------------------------------------------------------------------------
def spec_request(talker, channel, payload, fill, sentences):
    return f"c09spec {hx(talker)} {hx(channel)} {hx(payload)} {fill} {','.join(hx(s) for s in sentences) or '-'}"


def acceptance(sentences, bits, full_decode):
    """Is the list of sentences accepted by the decoder and does it give back the encoded payload bits?
    -> list of (component, kind, text)."""
    import pyais
    bad = []
    if not sentences:
        return [('decoder-acceptance', 'no-sentence', 'no sentence was produced for a non-empty payload')]
    try:
        parts = [pyais.NMEAMessage.from_string(s) for s in sentences]
        for s, part in zip(sentences, parts):
            if not part.is_valid:
                bad.append(('decoder-acceptance', 'invalid-checksum', f'the decoder finds the checksum of {s!r} invalid'))
        whole = pyais.NMEAMessage.assemble_from_iterable(parts)
        got = whole.bit_array.to01()
        if got != bits:
            bad.append(('decoder-acceptance', 'wrong-bits',
                        f'reassembled payload has {len(got)} bits, encoded {len(bits)} bits; first difference at '
                        f'{next((i for i, (a, b) in enumerate(zip(got, bits)) if a != b), min(len(got), len(bits)))}'))
    except Exception as e:     # noqa: BLE001
        bad.append(('decoder-acceptance', f'rejected:{type(e).__name__}', f'sentence parsing/assembly raised {type(e).__name__}: {e}'))
        return bad
    try:
        pyais.decode(*sentences, error_if_checksum_invalid=True)
    except Exception as e:     # noqa: BLE001
        # random armored content need not be a meaningful message: there only verdicts about the framing count
        if full_decode or type(e).__name__ in FRAMING_EXC:
            bad.append(('decoder-acceptance', f'rejected:{type(e).__name__}',
                        f'pyais.decode(*sentences) raised {type(e).__name__}: {e}'))
    return bad


def judge(rep, entry, talker, channel, payload, fill, sentences, spec_reply, bits, full_decode, replay, label):
    """Apply the clause list (reply of c09spec) and the acceptance test to sentences produced by the implementation."""
    failed_text, _failed_extra = spec_reply.split(' ')
    for cl in ([] if failed_text == '-' else failed_text.split(',')):
        rep.violation({'entry': entry, 'component': cl, 'kind': 'clause-failed'},
                      f'{label}: clause "{cl}" fails on {sentences!r}'[:600], replay)
    for comp, kind, text in acceptance(sentences, bits, full_decode):
        rep.violation({'entry': entry, 'component': comp, 'kind': kind}, f'{label}: {text}'[:600], replay)


# ---------------------------------------------------------------------------------------------------
# H-prim: Prim/Fmt.v against CPython
# ---------------------------------------------------------------------------------------------------
def check_fmt(ctx):
    rep, rng = ctx.rep, ctx.rng
    ns = list(range(-40, 600)) + [rng.randrange(-10 ** 6, 10 ** 6) for _ in range(200)] \
        + [10 ** k for k in range(1, 30)] + [10 ** k - 1 for k in range(1, 30)] + [16 ** k for k in range(1, 20)] \
        + [-(16 ** k) for k in range(1, 20)] + [rng.getrandbits(200), -rng.getrandbits(130)]
    replies = ctx.model.ask_many([f'fmt {n}' for n in ns])
    for n, r in zip(ns, replies):
        rep.case(('fmt', n), kind='fmt')
        want = f"{hx(str(n))} {hx(format(n, '02X'))}"
        if r != want:
            rep.disagree('H-prim/fmt', {'n': n}, r, want)


# ---------------------------------------------------------------------------------------------------
# util.encode_ascii_6 directly (anchor "armoring and fill-bit computation"): every bit length, every remainder mod 6
# ---------------------------------------------------------------------------------------------------
def check_armor(ctx):
    from bitarray import bitarray
    from pyais.util import encode_ascii_6, decode_into_bit_array
    rep, rng = ctx.rep, ctx.rng
    cases = ['']
    for n in range(1, (11 if ctx.quick else 15)):
        cases.extend(format(v, f'0{n}b') for v in range(1 << n))            # all bit strings of up to 10 (14) bits
    for n in range(11, 400):
        cases.append(cc.random_bits(rng, n))
    for n in (1008, 1063, 1064, 3239, 3240):
        cases.append(cc.random_bits(rng, n))
    lines = []
    for b in cases:
        lines.append(f'armor {b or "-"}')
        lines.append(f'armorspec {b or "-"}')
    replies = ctx.model.ask_many(lines)
    for i, b in enumerate(cases):
        rep.case(('armor', b), kind='encode_ascii_6')
        rep.count(f'armor/bits-mod-6:{len(b) % 6}')
        try:
            p, fill = encode_ascii_6(bitarray(b))
            impl = f'Ok {hx(p)} {fill}'
        except Exception as e:      # noqa: BLE001
            p = fill = None
            impl = f'Raise {type(e).__name__}'
        if replies[2 * i] != impl:
            rep.disagree('H-codec/encode_ascii_6', {'bits': b}, replies[2 * i], impl)
        # 'earlier' (shared, not copied): the inputs encoded before this one in the same process -- a result that depends on
        # earlier calls (a cache keyed too coarsely) only reproduces after them
        replay = {'entry': 'encode_ascii_6', 'bits': b, 'talker': '', 'channel': '', 'earlier': cases, 'upto': i}
        if p is None:
            rep.violation({'entry': 'encode_ascii_6', 'component': 'exception', 'kind': f'exception:{impl[6:]}'},
                          f'encode_ascii_6(<{len(b)} bits>) raised {impl[6:]}', replay)
            continue
        for text in armor_oracle(b, p, fill, replies[2 * i + 1], decode_into_bit_array):
            rep.violation({'entry': 'encode_ascii_6', 'component': text[0], 'kind': 'wrong-value'},
                          f'encode_ascii_6(<{len(b)} bits> {b[:40]}): {text[1]}', replay)
    rep.exhaustive.append(f'encode_ascii_6 on all bit strings of 0..{10 if ctx.quick else 14} bits')


def armor_oracle(b, p, fill, spec_reply, decode_into_bit_array):
    """fill = padding to a six-bit boundary; text = the specification's armoring; de-armoring gives the bits back."""
    bad = []
    p_spec, fill_spec = spec_reply.split(' ')
    if fill != int(fill_spec):
        bad.append(('fill-padding', f'{fill} fill bits returned, the padding to a six-bit boundary is {fill_spec}'))
    if p != unhx(p_spec):
        bad.append(('armor', f'armored text {p!r} differs from the specification {unhx(p_spec)!r}'))
    if p:
        try:
            back = decode_into_bit_array(p.encode(), fill).to01()
        except Exception as e:      # noqa: BLE001
            back = f'{type(e).__name__}: {e}'
        if back != b:
            bad.append(('decoder-acceptance', f'de-armoring {p!r} with fill {fill} gives {back[:60]!r}, not the encoded bits'))
    return bad


# ---------------------------------------------------------------------------------------------------
# ais_to_nmea_0183 directly
# ---------------------------------------------------------------------------------------------------
def random_armored(rng, n):
    return ''.join(rng.choice(ARMOR) for _ in range(n))


def low_checksum_payload(rng, n, talker, channel, fill):
    """An armored payload of n characters such that every sentence expected for it has a checksum below 0x10
    (found by redrawing one character per fragment; expectations from the harness's own framing, tools/ais.py)."""
    p = list(random_armored(rng, n))
    for start in range(0, n, 60):
        for _ in range(400):
            s = ais.frame(''.join(p), fill, talker=talker, channel=channel)[start // 60]
            if int(s[-2:], 16) < 0x10:
                break
            p[rng.randrange(start, min(n, start + 60))] = rng.choice(ARMOR)
    return ''.join(p)


def direct_cases(ctx):
    rng = ctx.rng
    cases = []          # (kind, payload, talker, channel, fill, oracle?)
    combos = [(t, c, f) for t in TALKERS for c in CHANNELS for f in range(6)]
    lengths = list(range(0, 201))
    for n in lengths:
        for t, c, f in combos:
            cases.append(('len<=200', random_armored(rng, n), t, c, f, True))
    for n in BOUNDARY:
        for t, c, f in combos:
            cases.append(('boundary', random_armored(rng, n), t, c, f, True))
    for _ in range(ctx.budget(150, 600)):
        t, c, f = rng.choice(combos)
        cases.append(('len<=540', random_armored(rng, rng.randrange(201, 541)), t, c, f, True))
    if not ctx.quick:
        # thorough: every length up to 540 with every talker, channel and fill
        for n in range(201, 541):
            for t, c, f in combos:
                cases.append(('len<=540', random_armored(rng, n), t, c, f, True))
    # the two extreme characters of the alphabet and its inner edges, at both ends of every fragment
    for ch in '0W`w':
        for n in (1, 60, 61, 120, 178):
            t, c, f = rng.choice(combos)
            cases.append(('alphabet-edges', ch * n, t, c, f, True))
    # sentence checksum below 0x10
    for n in (1, 7, 28, 59, 60, 61, 100, 120, 121, 178):
        for _ in range(ctx.budget(2, 12)):
            t, c, f = rng.choice(combos)
            cases.append(('checksum<0x10', low_checksum_payload(rng, n, t, c, f), t, c, f, True))
    # outside the quantifier: correspondence only
    for n in (541, 599, 600, 601, 660, 5999, 6001):
        t, c, f = rng.choice(combos)
        cases.append(('len>540', random_armored(rng, n), t, c, f, False))
    for f in (-1, -7, 6, 9, 10, 15, 16, 255, 256, 1000, -1000, 2 ** 70):
        cases.append(('fill-out-of-range', random_armored(rng, rng.choice([5, 60, 61, 130])), 'AIVDM', 'A', f, False))
    for t in ('', 'A', 'AIVD', 'AIVDMM', 'AIVDMXYZ', 'ABCDE', 'aivdm', 'BSVDM', '*IVDM', 'A*VDM', 'AIVD*', 'AI,DM', '!!!!!', '     ',
              'AIVD\xd6', 'AIVD\xd6M'):
        for n in (0, 5, 61):
            cases.append(('talker-arg', random_armored(rng, n), t, rng.choice(CHANNELS), rng.randrange(6), False))
    for c in ('', 'AB', 'C', '1', '*', ',', ' ', 'a', 'ABC', '\xe9'):
        for n in (0, 5, 61):
            cases.append(('channel-arg', random_armored(rng, n), rng.choice(TALKERS), c, rng.randrange(6), False))
    for t, c in (('', ''), ('AIVDMM', 'AB'), ('AIV', '')):
        cases.append(('talker+channel-arg', random_armored(rng, 9), t, c, 0, False))
    for p in ('*', 'ab*cd', ',', 'a,b', '!x', ' ', 'hello world', 'xyz~', 'AB\xe9', '*' * 61, ('0' * 59 + '*') * 2 + '*'):
        cases.append(('payload-not-armored', p, rng.choice(TALKERS), rng.choice(CHANNELS), rng.randrange(6), False))
    return cases


def run_direct(ctx, cases, want_samples=True):
    import pyais
    rep = ctx.rep
    impl = []
    aliasing = []
    for kind, p, t, c, f, _ in cases:
        impl.append(impl_call(pyais.ais_to_nmea_0183, p, t, c, f))
        aliasing.append(_LAST['aliasing'])
    lines = []
    for (kind, p, t, c, f, orc), im in zip(cases, impl):
        if is_latin1(p + t + c):
            lines.append(f'frame {hx(p)} {hx(t)} {hx(c)} {f}')
        else:
            lines.append('fmt 0')
        if orc and im[0] == 'Ok' and p:
            lines.append(spec_request(t, c, p, f, im[1]))
        else:
            lines.append('fmt 0')
    replies = ctx.model.ask_many(lines) if ctx.model else None
    for i, ((kind, p, t, c, f, orc), im) in enumerate(zip(cases, impl)):
        rep.case(('direct', p, t, c, f), kind=kind)
        rep.count(f'direct/fragments:{min(len(im[1]), 10) if im[0] == "Ok" else "exception"}')
        replay = {'entry': 'ais_to_nmea_0183', 'payload': p, 'talker': t, 'channel': c, 'fill': f}
        label = f'ais_to_nmea_0183(<{len(p)} chars>, {t!r}, {c!r}, {f})'
        if aliasing[i]:
            rep.violation({'entry': 'ais_to_nmea_0183', 'component': 'result-independence', 'kind': 'aliased-result'},
                          f'{label}: {aliasing[i]}', dict(replay, aliasing=True))
        if replies is not None:
            model = parse_sentences(replies[2 * i]) if lines[2 * i].startswith('frame') else ('Raise', 'Unmodelled')
            if model == ('Raise', 'Unmodelled'):
                rep.count('unmodelled')
            elif model != im:
                rep.disagree('H-frame/ais_to_nmea_0183', replay, model, im)
            if im[0] == 'Raise':
                rep.count(f'direct/exception:{im[1]}')
        if not orc:
            continue
        # what the harness's own framing (tools/ais.py) expects: used only to describe the inputs
        if p:
            rep.count(f'expect/fragments:{min((len(p) + 59) // 60, 10)}')
        if p and any(int(s[-2:], 16) < 0x10 for s in ais.frame(p, f, talker=t, channel=c)):
            rep.count('expect/sentence-checksum<0x10')
        if im[0] == 'Raise':
            rep.violation({'entry': 'ais_to_nmea_0183', 'component': 'exception', 'kind': f'exception:{im[1]}'},
                          f'{label} raised {im[1]} on valid arguments', replay)
            continue
        if not p:
            rep.count('oracle-skipped:empty-payload')
            continue
        if replies is not None:
            judge(rep, 'ais_to_nmea_0183', t, c, p, f, im[1], replies[2 * i + 1], ais.dearmor(p, f), False, replay, label)
        if want_samples and i % 1201 == 7:
            rep.sample({'entry': 'ais_to_nmea_0183', 'payload_len': len(p), 'talker': t, 'channel': c, 'fill': f,
                        'sentences': im[1][:3]})


# ---------------------------------------------------------------------------------------------------
# encode_dict / encode_msg
# ---------------------------------------------------------------------------------------------------
SIXBIT_TEXT = [chr(c) for c in range(32, 96) if chr(c) != '@']


def synth_value(rng, f, full):
    md = f.metadata
    w, ty, signed = md['width'], md['d_type'], md['signed']
    if ty is str:
        n = w // 6
        k = n if full else rng.randrange(0, n + 1)
        s = ''.join(rng.choice(SIXBIT_TEXT) for _ in range(k))
        return s.rstrip() if not full else s[:-1] + 'Z' if s else s
    if ty is bytes:
        n = (w + 7) // 8
        k = n if (full or not md['variable_length']) else rng.randrange(0, n + 1)
        return bytes(rng.randrange(256) for _ in range(k))
    if ty is bool:
        return rng.random() < 0.5
    if ty is int:
        if signed:
            return rng.randrange(-(1 << (w - 1)), 1 << (w - 1))
        return rng.randrange(0, 1 << w)
    if ty is float:
        if f.name == 'turn':
            return rng.choice([0.0, 127.0, -127.0, -128.0])
        # small dyadic rationals, in range for every scaled field: every float operation of the converters is exact on them
        v = rng.randrange(0, 25 * 64) / 64.0
        return -v if (signed and rng.random() < 0.5) else v
    raise TypeError(ty)


def synth_dict(rng, cls, full):
    """A dictionary of in-range values for every bit field of cls (msg_type excluded: the caller adds the type key)."""
    import attr
    d = {}
    for f in cls.fields():
        if f.name == 'msg_type':
            continue
        if not full and f.default is not attr.NOTHING and rng.random() < 0.1:
            continue                                  # leave the default
        d[f.name] = synth_value(rng, f, full)
        if f.name == 'partno' and rng.random() < 0.9:
            d[f.name] = rng.randrange(2)              # type 24: parts 2 and 3 are not encodable (UnknownPartNoException)
    return d


def kwargs_text(data):
    """data dict -> driver text, or None if a value is outside the driver's syntax."""
    items = []
    for k, v in data.items():
        if any(ch in k for ch in ' ;='):
            return None
        try:
            txt = cc.value_text(v)
        except TypeError:
            return None
        items.append(f'{k}={txt}')
    return ';'.join(items) if items else '-'


def value_from_text(txt):
    """Inverse of codec_common.value_text (for replays)."""
    import pyais.constants as C
    k, body = txt[0], txt[1:]
    if k == 'N':
        return None
    if k == 'i':
        return int(body)
    if k == 'b':
        return body == '1'
    if k == 'f':
        n, d = body.split('/')
        return int(n) / int(d)
    if k == 's':
        return ''.join(chr(c) for c in cc.cps(body))
    if k == 'y':
        return bytes.fromhex(body)
    if k == 'e':
        name, code = body.split(':')
        return getattr(C, name)(int(code))
    if k == 't':
        return C.TurnRate(float(body))
    raise ValueError(txt)


def dict_from_text(txt):
    return {} if txt == '-' else {kv.split('=', 1)[0]: value_from_text(kv.split('=', 1)[1]) for kv in txt.split(';')}


def type_key_variants(rng, tid, data):
    """(kind, data dict, oracle?) -- the ways a caller can name the message type."""
    base = {k: v for k, v in data.items() if k not in ('type', 'msg_type')}
    other = rng.choice([t for t in range(1, 28) if t != tid])
    out = [
        ('key:msg_type', dict(base, msg_type=tid), True),
        ('key:type', dict(base, type=tid), True),
        ('key:both-equal', dict(base, type=tid, msg_type=tid), True),
    ]
    pick = rng.randrange(9)
    extra = [
        ('key:both-differ', dict(base, type=tid, msg_type=other), False),
        ('key:type-text-digits', dict(base, type=str(tid)), True),
        ('key:type-not-a-number', dict(base, type='abc', msg_type=tid), True),
        ('key:type-empty-text', dict(base, type='', msg_type=tid), True),
        ('key:type-float', dict(base, type=float(tid)), True),
        ('key:type-none', dict(base, type=None, msg_type=tid), False),
        ('key:neither', dict(base), False),
        ('key:unsupported-type', dict(base, type=rng.choice([0, 28, 31, 63, 99, -1])), False),
        ('key:msg_type-not-a-number', dict(base, msg_type='x1'), False),
    ]
    out.append(extra[pick % len(extra)])
    out.append(extra[(pick + 4) % len(extra)])
    return out


def message_cases(ctx):
    """(kind, type id, variant name, data dict without type key)"""
    import pyais
    import pyais.messages as M
    rng = ctx.rng
    out = []
    n_dec = ctx.budget(2, 12)
    n_syn = ctx.budget(2, 12)
    for variant in cc.VARIANTS:
        name, tid, nominal, fixed = variant
        cls = getattr(M, name)
        # decoded from random payloads (nominal length and a shorter one)
        for j in range(n_dec):
            bits = cc.make_payload(rng, variant, None if j % 2 == 0 else rng.randrange(40, nominal + 1))
            try:
                msg = pyais.decode(*ais.bits_to_sentences(bits))
            except Exception:      # noqa: BLE001  -- not C09's business
                continue
            data = {f.name: getattr(msg, f.name) for f in type(msg).fields() if f.name != 'msg_type'}
            out.append(('decoded', tid, name, data))
        for j in range(n_syn):
            out.append(('synthetic', tid, name, synth_dict(rng, cls, False)))
        out.append(('synthetic-full-width', tid, name, synth_dict(rng, cls, True)))
        out.append(('synthetic-full-width', tid, name, synth_dict(rng, cls, True)))
        # over-long variable-length values (the encoder cuts them to the field width): still an encodable message, and its
        # sentences must be well formed -- in particular never longer than 82 characters
        for f in cls.fields():
            md = f.metadata
            if md['variable_length'] and md['d_type'] in (bytes, str):
                for extra in (1, 37, 450, 1200):
                    d = synth_dict(rng, cls, True)
                    n = (md['width'] + 7) // 8 if md['d_type'] is bytes else md['width'] // 6
                    d[f.name] = (bytes(rng.randrange(256) for _ in range(n + extra)) if md['d_type'] is bytes
                                 else ''.join(rng.choice([c for c in SIXBIT_TEXT if c != ' ']) for _ in range(n + extra)))
                    out.append(('over-long:' + f.name, tid, name, d))
    # defaults only
    for tid in range(1, 28):
        out.append(('defaults', tid, M.MSG_CLASS[tid].__name__, {'mmsi': rng.randrange(1 << 30)}))
    return out


def expected_bits(tid, data):
    """The payload bits of the message, through the public API of the message classes."""
    from pyais.messages import MSG_CLASS
    msg = MSG_CLASS[tid].create(**data)
    return msg, msg.to_bitarray().to01()


def run_messages(ctx, cases, want_samples=True):
    import pyais
    rep, rng = ctx.rep, ctx.rng
    jobs = []     # (entry, kind, data, tid, talker, channel, oracle?, impl result, msg object or None)
    for kind, tid, name, data in cases:
        talker, channel = rng.choice(TALKERS), rng.choice(CHANNELS)
        for kkind, d, orc in type_key_variants(rng, tid, data):
            jobs.append(('encode_dict', f'{kind}/{kkind}', d, tid, name, talker, channel, orc))
        jobs.append(('encode_msg', kind, dict(data), tid, name, talker, channel, True))
    # invalid talker / channel at the entry points (exception class only)
    for kind, tid, name, data in cases[:: max(1, len(cases) // 24)]:
        for talker, channel in (('AIVDX', 'A'), ('aivdm', 'A'), ('', 'A'), ('AIVDMM', 'B'), ('BSVDM', 'A'), ('AIVDM', 'C'),
                                ('AIVDM', ''), ('AIVDO', 'AB'), ('AIVDO', 'a'), ('AIVD', 'AB')):
            jobs.append(('encode_dict', 'bad-talker-or-channel', dict(data, type=tid), tid, name, talker, channel, False))
            jobs.append(('encode_msg', 'bad-talker-or-channel', dict(data), tid, name, talker, channel, False))
    lines, impls, metas, aliasing = [], [], [], []
    for entry, kind, d, tid, name, talker, channel, orc in jobs:
        kw = kwargs_text(d)
        if kw is None:
            rep.count('outside-driver-syntax')
            continue
        msg = bits = None
        if entry == 'encode_dict':
            im = impl_call(pyais.encode_dict, d, talker, channel)
            lines.append(f'encdict {hx(talker)} {hx(channel)} {kw}')
        else:
            try:
                msg = pyais.messages.MSG_CLASS[tid].create(**d)
            except Exception as e:      # noqa: BLE001
                im = ('Raise', 'create:' + type(e).__name__)
            else:
                im = impl_call(pyais.encode_msg, msg, talker, channel)
            lines.append(f'encmsg {hx(talker)} {hx(channel)} {tid} {kw}')
        if orc and im[0] == 'Ok':
            try:
                msg, bits = expected_bits(tid, {k: v for k, v in d.items() if k != 'type'} if entry == 'encode_dict' else d)
            except Exception:      # noqa: BLE001
                bits = None
        lines.append(f'armorspec {bits}' if bits else 'fmt 0')
        impls.append(im)
        aliasing.append(_LAST['aliasing'] if im[0] == 'Ok' else None)
        metas.append((entry, kind, d, kw, tid, name, talker, channel, orc, bits))
    replies = ctx.model.ask_many(lines) if ctx.model else None
    spec_lines, spec_idx = [], []
    for i, (im, meta) in enumerate(zip(impls, metas)):
        entry, kind, d, kw, tid, name, talker, channel, orc, bits = meta
        rep.case((entry, kw, talker, channel), kind=f'{entry}/{kind}')
        rep.count(f'class:{name}')
        replay = {'entry': entry, 'type': tid, 'data': kw, 'talker': talker, 'channel': channel}
        if aliasing[i]:
            rep.violation({'entry': entry, 'component': 'result-independence', 'kind': 'aliased-result'},
                          f'{entry}({name}): {aliasing[i]}', dict(replay, aliasing=True))
        if replies is not None:
            raw = replies[2 * i]
            model = parse_sentences(raw)
            if raw.startswith('CreateRaise '):
                model = ('Raise', 'create:' + model[1])
            if model[0] == 'Raise' and model[1].endswith('Unmodelled'):
                rep.count('unmodelled')
            elif model != im:
                rep.disagree(f'H-frame/{entry}', replay, model, im)
        if im[0] == 'Raise':
            rep.count(f'{entry}/exception:{im[1]}')
        else:
            rep.count(f'{entry}/fragments:{len(im[1])}')
        if not orc or replies is None:
            continue
        label = f'{entry}({name} {"" if entry == "encode_msg" else [k for k in d if k in ("type", "msg_type")]}, {talker!r}, {channel!r})'
        if im[0] == 'Raise':
            # an encodable message (the message classes accept it) must be encoded
            if bits:
                rep.violation({'entry': entry, 'class': name, 'component': 'exception', 'kind': f'exception:{im[1]}'},
                              f'{label} raised {im[1]} although {name}.create(**data).to_bitarray() gives {len(bits)} bits', replay)
            continue
        if not bits:
            rep.count('oracle-skipped:no-payload-bits')
            continue
        p_spec, fill_spec = replies[2 * i + 1].split(' ')
        p_spec, fill_spec = unhx(p_spec), int(fill_spec)
        if (p_spec, fill_spec) != ais.armor(bits):
            rep.internal(f'Spec/FrameSpec.v fs_spec_armor and tools/ais.py armor disagree on {bits}')
            continue
        too_long = [x for x in im[1] if len(x) > 80]
        if too_long:
            # the length clause holds for every MESSAGE the entry points accept, whatever bits the message classes produce
            rep.violation({'entry': entry, 'class': name, 'component': 'length', 'kind': 'clause-violated'},
                          f'{label}: a sentence of {len(too_long[0])} characters ({len(too_long[0]) + 2} with CR LF): '
                          f'{too_long[0][:100]}', replay)
            continue
        if len(p_spec) > 540:
            continue
        spec_lines.append(spec_request(talker, channel, p_spec, fill_spec, im[1]))
        spec_idx.append((i, p_spec, fill_spec, label, replay))
        if want_samples and i % 97 == 3:
            rep.sample({'entry': entry, 'class': name, 'bits': len(bits), 'fill': fill_spec, 'talker': talker,
                        'channel': channel, 'type_keys': {k: repr(v) for k, v in d.items() if k in ('type', 'msg_type')},
                        'sentences': im[1][:4]})
    if spec_lines:
        sreplies = ctx.model.ask_many(spec_lines)
        for (i, p_spec, fill_spec, label, replay), sr in zip(spec_idx, sreplies):
            entry, kind, d, kw, tid, name, talker, channel, orc, bits = metas[i]
            rep.count(f'payload-chars:{(len(p_spec) + 19) // 20 * 20:03d}')
            judge(rep, entry, talker, channel, p_spec, fill_spec, impls[i][1], sr, bits, True, replay, label)


# ---------------------------------------------------------------------------------------------------
def self_check(ctx):
    d = ctx.rep.dist
    # facts about the generated INPUTS only (never about what the implementation answered)
    need = [f'armor/bits-mod-6:{k}' for k in range(6)] + ['len<=200', 'boundary', 'len<=540', 'checksum<0x10',
                                                            'expect/sentence-checksum<0x10', 'talker-arg', 'channel-arg',
                                                            'payload-not-armored', 'fill-out-of-range'] + [f'expect/fragments:{k}' for k in range(1, 10)] \
        + [f'encode_dict/{k}/key:{v}' for k in ('decoded', 'synthetic', 'synthetic-full-width')
           for v in ('type', 'msg_type', 'both-equal')] \
        + ['encode_msg/decoded', 'encode_msg/synthetic', 'encode_msg/synthetic-full-width', 'encode_dict/bad-talker-or-channel',
           'encode_msg/bad-talker-or-channel']
    missing = [k for k in need if not d.get(k)]
    if missing:
        ctx.rep.internal(f'C09 harness self-check: the generators never produced {missing}')
    total = max(1, ctx.rep.evaluations)
    if d.get('unmodelled', 0) > 0.05 * total:
        ctx.rep.internal(f'C09 harness self-check: {d.get("unmodelled")} of {total} cases are outside the model')


def run(ctx):
    if ctx.model is None:
        ctx.rep.notes.append('model driver unavailable: oracle needs the extracted specification; nothing checked')
        return
    check_fmt(ctx)
    check_armor(ctx)
    run_direct(ctx, direct_cases(ctx))
    run_messages(ctx, message_cases(ctx))
    ctx.rep.exhaustive.append(f'every armored payload length 0..{200 if ctx.quick else 540} x {{AIVDM, AIVDO}} x {{A, B}} x fill 0..5 '
                              '(content PRNG-drawn)')
    self_check(ctx)


def hunt(ctx):
    """Deeper: every length 1..540 with every talker/channel/fill, more messages."""
    rng = ctx.rng
    combos = [(t, c, f) for t in TALKERS for c in CHANNELS for f in range(6)]
    cases = []
    for n in range(1, 541):
        for t, c, f in (combos if n % 60 in (59, 0, 1) else rng.sample(combos, 6)):
            cases.append(('hunt', random_armored(rng, n), t, c, f, True))
    run_direct(ctx, cases, want_samples=False)
    for _ in range(3):
        run_messages(ctx, message_cases(ctx), want_samples=False)


def replay(ctx, data):
    import pyais
    import vlib
    m = ctx.model or vlib.FastModel()
    rep = vlib.Report('C09', 'quick', 0)
    entry, talker, channel = data['entry'], data['talker'], data['channel']
    if entry == 'encode_ascii_6':
        from bitarray import bitarray
        from pyais.util import encode_ascii_6, decode_into_bit_array
        b = data['bits']

        def once():
            try:
                p, fill = encode_ascii_6(bitarray(b))
            except Exception as e:      # noqa: BLE001
                return f'raised {type(e).__name__}'
            return '; '.join(x[1] for x in armor_oracle(b, p, fill, m.ask(f'armorspec {b or "-"}'), decode_into_bit_array)) or None
        for e in (data.get('earlier') or [])[:data.get('upto', 0)]:       # the same calls as in the recorded run, in order,
            try:                                                          # BEFORE the failing one (trying it alone first
                encode_ascii_6(bitarray(e))                               # would itself change what a cache holds)
            except Exception:      # noqa: BLE001
                pass
        return once()
    if entry == 'ais_to_nmea_0183':
        p, f = data['payload'], data['fill']
        im = impl_call(pyais.ais_to_nmea_0183, p, talker, channel, f)
        if data.get('aliasing'):
            return _LAST['aliasing']
        if im[0] == 'Raise':
            return f'raised {im[1]}'
        if not im[1]:
            return 'no sentence produced'
        judge(rep, entry, talker, channel, p, f, im[1], m.ask(spec_request(talker, channel, p, f, im[1])),
              ais.dearmor(p, f), False, data, 'replay')
    else:
        d = dict_from_text(data['data'])
        tid = data['type']
        try:
            msg, bits = expected_bits(tid, {k: v for k, v in d.items() if k != 'type'} if entry == 'encode_dict' else d)
        except Exception as e:      # noqa: BLE001
            return None if entry == 'encode_dict' else f'create raised {type(e).__name__}'
        im = impl_call(pyais.encode_dict, d, talker, channel) if entry == 'encode_dict' \
            else impl_call(pyais.encode_msg, msg, talker, channel)
        if data.get('aliasing'):
            return _LAST['aliasing']
        if im[0] == 'Raise':
            return f'raised {im[1]} on an encodable message'
        p, fill = ais.armor(bits)
        judge(rep, entry, talker, channel, p, fill, im[1], m.ask(spec_request(talker, channel, p, fill, im[1])), bits, True,
              data, 'replay')
    return '; '.join(v['what'] for v in rep.violations) or None
