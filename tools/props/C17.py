"""C17 -- tag block groups are delivered complete, once and unmixed.

Model: coq/Model/Tbq.v (TagBlockQueue.put_sentence) over Model/TagBlock.v.  Correspondence: the extracted model against
a TagBlockQueue fed directly (put_sentence + get_nowait after every sentence, and the `groups` attribute at the end),
through IterMessages(..., tbq=...) and through NMEAQueue(tbq=...).  Oracle: Spec/TbqSpec.v (extracted): tbqs_groups on
the group triples the *generator* put into the tag blocks, applied when the sequence meets the provisos (tbqs_wf)."""
import copy
import os
import sys

sys.path.insert(0, os.path.dirname(os.path.abspath(__file__)))
from tagblock_common import hx, with_checksum, ais_line, multi_lines  # noqa: E402

GEN = []
RULE = ('sequences of single-fragment AIS sentences, each with no tag block, a tag block without group, a group of one, '
        'or a group triple written in varying surroundings (alone, between other fields, after an overridden or before a '
        'malformed g field, leading zeros, wrong tag block checksum, a non-UTF-8 byte in ANOTHER field of the tag block); now and '
        'then some sentences are $PGHP wrapper sentences, or all members of a group carry the same AIS body.  Exhaustive part: ALL interleavings that keep each '
        "group's first sentence before its others, of configurations of up to 3 groups of sizes 1..3 plus ungrouped "
        'sentences (quick: a fixed list of configurations; thorough and hunt: every configuration).  Random part: up to 6 '
        'groups of sizes 1..6 plus ungrouped sentences, with group ids used again after completion.  Boundary part '
        '(model comparison; the oracle only where the provisos hold): a non-first sentence before its first, duplicates, '
        'missing first, inconsistent totals, a first sentence repeated while its group is open, totals 0/2-with-3, a '
        'straggler after completion, malformed tag blocks.  Every sequence is fed directly; samples also through '
        'IterMessages and NMEAQueue.  distinct = distinct sequences of (tag block, position)')
ASSUMPTIONS = ['queue.Queue is a FIFO: the lists put by one put_sentence call are read back in order with get_nowait()',
               'sentences are identified by object identity (direct feeding) or by (raw, tag block raw) (readers); '
               'NMEASentence.__eq__ is never used']
TRUSTED_EXTRA = ['coq/Prim/PyText.v text primitives (see C16)']


# ------------------------------------------------------------------ tag block texts
def group_tb(rng, n, t, g, plain=False):
    core = f'g:{n}-{t}-{g}'
    style = 'plain' if plain else rng.choice(['plain', 'plain', 'between', 'override', 'bad-after', 'zeros', 'blank', 'wrong-cs',
                                              'non-utf8-neighbour'])
    if style == 'non-utf8-neighbour':
        # another field of the same tag block is not UTF-8 (Latin-1 station name): that FIELD is skipped, the group stays
        pre = rng.choice([b's:r\xe9x,', b'd:\xff\xfe,', b'\x80,'])
        post = rng.choice([b'', b',t:caf\xe9', b',i:\xc3'])
        if not pre + post:
            pre = b's:\xe9,'
        if rng.random() < 0.5:
            pre = b''
            post = post or b',s:\xe9'
        return with_checksum(pre + core.encode() + post)
    if style == 'between':
        core = f's:st{rng.randrange(99)},{core},c:{rng.randrange(10 ** 9)}'
    elif style == 'override':
        core = f'g:9-9-9,{core}'
    elif style == 'bad-after':
        core = f'{core},g:{n}-{t}'
    elif style == 'zeros':
        core = f'g:0{n}-00{t}-0{g}'
    elif style == 'blank':
        core = f'g: {n}-{t} -+{g}'
    tb = with_checksum(core.encode())
    if style == 'wrong-cs':
        tb = core.encode() + b'*' + format((int(tb[-2:], 16) + 1) % 256, '02X').encode()
    return tb


def ungrouped_tb(rng, kind=None):
    """-> (tag block or None, group triple the queue must see or None)"""
    kind = kind or rng.choice(['none', 'none', 'no-g', 'single', 'single-n5', 'bad-g'])
    if kind == 'none':
        return None, None
    if kind == 'no-g' and rng.random() < 0.2:
        return with_checksum(b's:r\xe9x,c:1'), None
    if kind == 'no-g':
        return with_checksum(f's:rx{rng.randrange(99)},c:{rng.randrange(10 ** 9)}'.encode()), None
    if kind == 'single':
        g = rng.randrange(1000)
        return with_checksum(f'g:1-1-{g}'.encode()), (1, 1, g)
    if kind == 'single-n5':
        g = rng.randrange(1000)
        return with_checksum(f'g:5-1-{g},t:x'.encode()), (5, 1, g)
    return with_checksum(b'g:1-2,s:x'), None


class Item:
    __slots__ = ('grp', 'tb', 'bare', 'line')

    def __init__(self, grp, tb, bare):
        self.grp, self.tb, self.bare = grp, tb, bare
        self.line = bare if tb is None else b'\\' + tb + b'\\' + bare


def mk_items(rng, specs):
    """specs: list of ('u', kind|None) | ('g', n, t, gid) | ('raw', tag block bytes, triple|None)"""
    items = []
    for k, sp in enumerate(specs):
        bare = ais_line(rng, k, channel=rng.choice('AB'))
        if sp[0] == 'u':
            tb, grp = ungrouped_tb(rng, sp[1])
        elif sp[0] == 'g':
            tb, grp = group_tb(rng, sp[1], sp[2], sp[3], plain=len(sp) > 4), (sp[1], sp[2], sp[3])
        else:
            tb, grp = sp[1], sp[2]
        items.append(Item(grp, tb, bare))
    # now and then some of the sentences are Gatehouse wrapper sentences ($PGHP): sentences like any other for the tag
    # block queue (grouped or not), although the readers never turn them into messages
    if rng.random() < 0.2:
        for k, it in enumerate(items):
            if rng.random() < 0.35:
                body = b'PGHP,1,%d,%d,%d,23,59,%d,%d,219,,2190047,1,%02X' % (2000 + k % 30, 1 + k % 12, 1 + k % 28, rng.randrange(60),
                                                                             rng.randrange(1000), rng.randrange(256))
                it.bare = b'$' + with_checksum(body)
                it.line = it.bare if it.tb is None else b'\\' + it.tb + b'\\' + it.bare
    # now and then some AIS sentences have a WRONG NMEA checksum: still sentences (flagged invalid), still members of their group
    if rng.random() < 0.2:
        for it in items:
            if rng.random() < 0.35 and it.bare.startswith(b'!'):
                it.bare = it.bare[:-2] + format((int(it.bare[-2:], 16) + 1 + rng.randrange(254)) % 256, '02X').encode()
                it.line = it.bare if it.tb is None else b'\\' + it.tb + b'\\' + it.bare
    # now and then all members of a group carry the SAME AIS sentence (one message relayed by several receivers): the tag
    # blocks differ, the sentence bodies are equal (and compare equal: NMEASentence.__eq__ looks at the AIS fields only)
    if rng.random() < 0.25:
        first, tbs_seen = {}, {}
        for it, sp in zip(items, specs):
            if sp[0] == 'g':
                if sp[1] == 1:
                    first.pop(sp[3], None)       # a new instance of this group id starts with its own sentence body
                    tbs_seen.pop(sp[3], None)
                if sp[3] in first and it.tb not in tbs_seen[sp[3]]:      # (same body AND same tag block would make two
                    it.bare = first[sp[3]]                               #  sentences indistinguishable for the harness)
                    it.line = it.bare if it.tb is None else b'\\' + it.tb + b'\\' + it.bare
                elif sp[3] not in first:
                    first[sp[3]] = it.bare
                tbs_seen.setdefault(sp[3], set()).add(it.tb)
    return items


# ------------------------------------------------------------------ feeding the implementation
def drain(tbq):
    import queue
    out = []
    while True:
        try:
            out.append(tbq.get_nowait())
        except queue.Empty:
            return out


def exc_view(e):
    from pyais.exceptions import AISBaseException
    return ('raise', type(e).__name__, isinstance(e, AISBaseException))


def feed_direct(items, order, parsed):
    """put_sentence + drain for every position of `order`; sentences are the pre-parsed objects with a fresh TagBlock.
    -> (steps, groups) with steps[i] = list of lists of positions | ('raise', class, is_library)"""
    from pyais.stream import TagBlockQueue
    from pyais.messages import TagBlock
    tbq = TagBlockQueue()
    pos = {}
    steps = []
    used = set()
    for p, k in enumerate(order):
        s = parsed[k]
        if k in used:                      # the same line a second time is a second sentence object
            s = copy.copy(s)
        used.add(k)
        s.tag_block = None if items[k].tb is None else TagBlock(items[k].tb)
        pos[id(s)] = p
        try:
            tbq.put_sentence(s)
        except Exception as e:
            steps.append(exc_view(e))
            continue
        steps.append([[pos.get(id(x), -1) for x in lst] for lst in drain(tbq)])
    groups = [(gid, v['sentence_tot'], [pos.get(id(x), -1) for x in v['sentences']]) for gid, v in tbq.groups.items()]
    return steps, groups


def by_content(lines_tb):
    return {k: p for p, k in enumerate(lines_tb)}


def view_lists(lists, index):
    # A sentence is identified by its bare line plus its tag block (members of one group may carry the same AIS body).  A
    # reader assembles a multi-fragment message IN the object of its first fragment (its .raw becomes the fragments joined
    # by LF), and that object is the one sitting in the group list: identify it by the first line of .raw
    def key(x):
        return (x.raw.split(b'\n')[0], x.tag_block.raw if x.tag_block else None)
    return [[index.get(key(x), -1) for x in lst] for lst in lists]


def feed_iter(items, order):
    from pyais.stream import IterMessages, TagBlockQueue
    tbq = TagBlockQueue()
    index = by_content([(items[k].bare, items[k].tb) for k in order])
    steps, delivered = [], []

    def src():
        for p, k in enumerate(order):
            if p:
                steps.append(view_lists(drain(tbq), index))
            yield items[k].line
    try:
        for msg in IterMessages(src(), tbq=tbq):
            delivered.append(msg.raw)
    except Exception as e:
        steps.append(exc_view(e))
        return steps, delivered
    steps.append(view_lists(drain(tbq), index))
    return steps, delivered


def feed_queue(items, order):
    from pyais.queue import NMEAQueue
    from pyais.stream import TagBlockQueue
    import queue
    tbq = TagBlockQueue()
    q = NMEAQueue(tbq=tbq)
    index = by_content([(items[k].bare, items[k].tb) for k in order])
    steps, delivered = [], []
    for k in order:
        try:
            q.put_line(items[k].line)
        except Exception as e:
            steps.append(exc_view(e))
            continue
        steps.append(view_lists(drain(tbq), index))
    while True:
        try:
            delivered.append(q.get_nowait().raw)
        except queue.Empty:
            break
    return steps, delivered


# ------------------------------------------------------------------ model / spec replies
def parse_run(reply):
    """'step;step;... groups=... oracle=b' -> (steps, groups, consulted)"""
    if reply.startswith('ERROR'):
        raise RuntimeError('model driver: ' + reply)
    body, g, o = reply.rsplit(' ', 2)
    steps = []
    for st in body.split(';') if body else []:
        if st.startswith('!'):
            steps.append(('raise', st[1:]))
        elif st == '-':
            steps.append([])
        else:
            steps.append([[int(x) for x in lst.split(',')] for lst in st.split('|')])
    groups = []
    gtxt = g[len('groups='):]
    if gtxt != '-':
        for e in gtxt.split('/'):
            gid, tot, idx = e.split(':')
            groups.append((int(gid), int(tot), [int(x) for x in idx.split(',')]))
    return steps, groups, o.endswith('1')


def parse_spec(reply):
    if reply.startswith('ERROR'):
        raise RuntimeError('model driver: ' + reply)
    wf, body = reply.split(' ', 1) if ' ' in reply else (reply, '')
    steps = []
    for st in body.split(';') if body else []:
        steps.append([] if st == '-' else [[int(x) for x in lst.split(',')] for lst in st.split('|')])
    return wf == '1', steps


def tb_tok(tb):
    return 'None' if tb is None else hx(tb)


def grp_tok(g):
    return 'None' if g is None or g == 'malformed' else f'{g[0]},{g[1]},{g[2]}'


# ------------------------------------------------------------------ the property on one observed run
def oracle(grps, wf, want, steps):
    """grps[p] = triple of position p; want = tbqs_groups; steps = what the implementation delivered.
    -> list of (component, kind, text)."""
    bad = []
    # clause 1 (no proviso): no group, or a group of one -> delivered at once as a singleton
    for p, g in enumerate(grps):
        if (g is None or g[1] == 1) and steps[p] != [[p]]:
            bad.append(('passthrough', 'wrong-value' if isinstance(steps[p], list) else f'exception:{steps[p][1]}',
                        f'sentence {p} ({"no group" if g is None else "group of one"}) must be delivered at once as [[{p}]], got {steps[p]}'))
    if not wf or bad:
        return bad
    if steps == want:
        return []
    flat = [x for st in steps if isinstance(st, list) for lst in st for x in lst]
    wflat = [x for st in want for lst in st for x in lst]
    for p, st in enumerate(steps):
        if not isinstance(st, list):
            return [('put_sentence', f'exception:{st[1]}', f'put_sentence raised {st[1]} at position {p}')]
    for x in set(flat):
        if flat.count(x) > 1:
            return [('delivery', 'duplicated', f'sentence {x} is delivered {flat.count(x)} times: {steps}')]
    for st in steps:
        for lst in st:
            ids = {grps[x][2] if grps[x] and grps[x][1] != 1 else ('single', x) for x in lst}
            if len(ids) > 1:
                return [('delivery', 'mixed', f'the delivered list {lst} mixes groups {sorted(map(str, ids))}')]
    lost = sorted(set(wflat) - set(flat))
    if lost:
        return [('delivery', 'lost', f'sentences {lost} of a complete group are never delivered: got {steps}, expected {want}')]
    extra = sorted(set(flat) - set(wflat))
    if extra:
        return [('delivery', 'incomplete-group-delivered', f'sentences {extra} are delivered although their group is not complete: {steps}')]
    for p, (a, b) in enumerate(zip(steps, want)):
        if a != b:
            kind = 'wrong-order' if sorted(map(sorted, a)) == sorted(map(sorted, b)) else 'wrong-time'
            return [('delivery', kind, f'at position {p} the queue delivered {a}, the group completes as {b} (whole run {steps})')]
    return [('delivery', 'wrong-value', f'{steps} instead of {want}')]


def check_batch(ctx, batch, kind, readers=False):
    """batch: list of (items, order).  Feeds each sequence directly (and through the readers), compares with the
    model and applies the oracle."""
    rep = ctx.rep
    asks = []
    for items, order in batch:
        asks.append('tbqrun ' + ' '.join(tb_tok(items[k].tb) for k in order))
        asks.append('tbqspec ' + ' '.join(grp_tok(items[k].grp) for k in order))
    replies = ctx.model.ask_many(asks) if ctx.model else None
    cache = {}
    for i, (items, order) in enumerate(batch):
        key = id(items)
        if key not in cache:
            from pyais.messages import NMEASentenceFactory
            cache.clear()
            cache[key] = [NMEASentenceFactory.produce(it.bare) for it in items]
        parsed = cache[key]
        grps = [items[k].grp for k in order]
        rep.case((kind, tuple((items[k].tb, k) for k in order)), kind=kind)
        rep.count(f'len={len(order)}')
        steps, groups = feed_direct(items, order, parsed)
        views = [('put_sentence', steps)]
        if i % 5 == 0:
            import leapclock
            with leapclock.leaping():      # an hour between any two clock readings: grouping must not depend on elapsed time
                s5, _g5 = feed_direct(items, order, [NMEASentenceFactory.produce(it.bare) for it in items])
            views.append(('put_sentence/leaping-clock', s5))
        if readers:
            s2, d2 = feed_iter(items, order)
            s3, d3 = feed_queue(items, order)
            views += [('IterMessages', s2), ('NMEAQueue', s3)]
        wf, want = (False, None)
        if replies:
            msteps, mgroups, consulted = parse_run(replies[2 * i])
            wf, want = parse_spec(replies[2 * i + 1])
            if not consulted:
                for name, st in views:
                    coarse = [('raise',) if not isinstance(x, list) else x for x in st]
                    mcoarse = [('raise',) if not isinstance(x, list) else x for x in msteps]
                    if not name.startswith('put_sentence'):
                        mcoarse = [[] if x == ('raise',) else x for x in mcoarse]     # the readers skip such a line
                    if coarse != mcoarse:
                        rep.disagree('H-tbq', {'entry': name, 'tbs': [tb_tok(items[k].tb) for k in order]}, str(msteps), str(st))
                if groups != mgroups:
                    rep.disagree('H-tbq', {'entry': 'groups', 'tbs': [tb_tok(items[k].tb) for k in order]}, str(mgroups), str(groups))
            rep.count('wf' if wf else 'not-wf')
            if any(st for st in want):
                rep.count('some-group-completes')
        else:
            wf = kind.startswith(('enum', 'random'))
            want = py_spec(grps)
        for name, st in views:
            if 'malformed' in grps:      # a tag block that does not parse: outside C17 (C05 decides what may be raised)
                rep.count('outside-C17:malformed-tag-block')
                break
            for comp, k2, text in oracle(grps, wf, want, st):
                rep.violation({'entry': name, 'component': comp, 'kind': k2}, f'{name}: {text}',
                              {'tbs': [tb_tok(items[k].tb) for k in order], 'grps': [grp_tok(g) for g in grps],
                               'bares': [items[k].bare.hex() for k in order], 'entry': name})
        if i % 1499 == 0:
            rep.sample({'kind': kind, 'tag_blocks': [None if items[k].tb is None else items[k].tb.decode('latin-1') for k in order],
                        'delivered_per_arrival': steps})


def py_spec(grps):
    """The specification in Python (used only when the extracted one is unavailable: replay without a driver)."""
    out, hist = [], []
    for p, g in enumerate(grps):
        hist.append(p)
        if g is None or g[1] == 1:
            out.append([[p]])
            continue
        inst = []
        for q in reversed(hist):
            h = grps[q]
            if h is not None and h[1] != 1 and h[2] == g[2]:
                inst.append(q)
                if h[0] == 1:
                    break
        else:
            inst = None
        out.append([list(reversed(inst))] if inst and len(inst) == g[1] else [])
    return out


# ------------------------------------------------------------------ sequences
def interleavings(sizes, n_ungrouped):
    """All orders of: groups with the given sizes (first sentence before the others, the others in any order) and
    n_ungrouped further sentences (kept in their relative order).  Yields tuples of item numbers; items are numbered
    group by group (first, then others), then the ungrouped ones."""
    firsts, others, k = [], [], 0
    for s in sizes:
        firsts.append(k)
        others.append(list(range(k + 1, k + s)))
        k += s
    ung = list(range(k, k + n_ungrouped))
    total = k + n_ungrouped
    seq = []
    started = [False] * len(sizes)
    rest = [list(o) for o in others]
    ui = [0]

    def rec():
        if len(seq) == total:
            yield tuple(seq)
            return
        if ui[0] < len(ung):
            seq.append(ung[ui[0]])
            ui[0] += 1
            yield from rec()
            ui[0] -= 1
            seq.pop()
        for gi in range(len(sizes)):
            if not started[gi]:
                started[gi] = True
                seq.append(firsts[gi])
                yield from rec()
                seq.pop()
                started[gi] = False
            else:
                for j in range(len(rest[gi])):
                    x = rest[gi].pop(j)
                    seq.append(x)
                    yield from rec()
                    seq.pop()
                    rest[gi].insert(j, x)
    yield from rec()


def config_items(rng, sizes, n_ungrouped, plain=False):
    specs = []
    gids = rng.sample(range(1, 500), len(sizes))
    for gid, s in zip(gids, sizes):
        nums = list(range(1, s + 1))
        for n in nums:
            specs.append(('g', n, s, gid, True) if plain else ('g', n, s, gid))
    specs += [('u', None)] * n_ungrouped
    return mk_items(rng, specs)


QUICK_CONFIGS = [((1,), 1), ((2,), 1), ((3,), 2), ((1, 2), 1), ((2, 2), 1), ((2, 3), 1), ((3, 3), 1), ((1, 1, 2), 0),
                 ((2, 2, 2), 1), ((1, 2, 3), 1), ((2, 2, 3), 0)]


def all_configs():
    out = []
    for a in range(1, 4):
        out.append(((a,), 2))
        for b in range(a, 4):
            out.append(((a, b), 2))
            for c in range(b, 4):
                out.append(((a, b, c), 1))
    return out


def enumerate_configs(ctx, configs, label):
    rng = ctx.rng
    n = 0
    for sizes, nu in configs:
        for u in range(nu + 1):
            items = config_items(rng, sizes, u)
            batch = []
            for order in interleavings(sizes, u):
                batch.append((items, order))
                if len(batch) >= 4000:
                    check_batch(ctx, batch, label)
                    n += len(batch)
                    batch = []
            check_batch(ctx, batch, label)
            n += len(batch)
    ctx.rep.exhaustive.append(f'{label}: all {n} first-before-others interleavings of the configurations '
                              f'{[(list(s), u) for s, u in configs]} (group sizes, up to u ungrouped sentences)')


def random_wf(rng, max_groups=6, max_size=6, reuse=True):
    """A random well-formed sequence, possibly with a group id used again after its group completed."""
    ng = rng.randint(1, max_groups)
    insts = []          # (gid, size, after) : after = index of the instance that must complete before this one starts
    gids = rng.sample(range(1, 10 ** 6), ng)
    for i in range(ng):
        insts.append((gids[i], rng.randint(1, max_size), None))
    if reuse and rng.random() < 0.5:
        i = rng.randrange(ng)
        insts.append((insts[i][0], rng.randint(2, max_size), i))
        if insts[i][1] == 1:
            insts[i] = (insts[i][0], 2, None)
    specs, members = [], []
    for gid, size, _ in insts:
        nums = rng.sample(range(2, 40), size - 1) if rng.random() < 0.3 else list(range(2, size + 1))
        ids = []
        for n in [1] + nums:
            ids.append(len(specs))
            specs.append(('g', n, size, gid))
        members.append(ids)
    for _ in range(rng.randint(0, 4)):
        specs.append(('u', None))
    ung = list(range(sum(len(m) for m in members), len(specs)))
    # draw an order
    order, pending_first = [], {i for i in range(len(insts))}
    rest = [list(m[1:]) for m in members]
    done = [False] * len(insts)
    left = len(specs)
    while left:
        cands = [('u', None)] if ung else []
        for i, (gid, size, after) in enumerate(insts):
            if i in pending_first:
                if after is None or done[after]:
                    cands.append(('f', i))
            elif rest[i]:
                cands.append(('o', i))
        c = rng.choice(cands)
        if c[0] == 'u':
            order.append(ung.pop(0))
        elif c[0] == 'f':
            pending_first.discard(c[1])
            order.append(members[c[1]][0])
            if not rest[c[1]]:
                done[c[1]] = True
        else:
            order.append(rest[c[1]].pop(rng.randrange(len(rest[c[1]]))))
            if not rest[c[1]]:
                done[c[1]] = True
        left -= 1
    return mk_items(rng, specs), tuple(order)


def many_open(rng, ng):
    """ng groups (sizes 2..3) that are ALL open at the same time: every first sentence arrives before any group
    completes; the remaining sentences arrive in random order.  (A bounded table of open groups, an eviction policy or a
    per-reader cache only shows with many groups in flight.)"""
    gids = rng.sample(range(1, 10 ** 6), ng)
    specs, firsts, others = [], [], []
    for gid in gids:
        size = rng.choice([2, 2, 3])
        for n in range(1, size + 1):
            (firsts if n == 1 else others).append(len(specs))
            specs.append(('g', n, size, gid))
    rng.shuffle(firsts)
    rng.shuffle(others)
    return mk_items(rng, specs), tuple(firsts + others)


def boundary_sequences(rng):
    """Hand-made sequences around the provisos; (label, specs in arrival order)."""
    G = lambda n, t, g: ('g', n, t, g, True)   # noqa: E731
    U = ('u', 'none')
    return [
        ('reuse-after-completion', [G(1, 2, 7), G(2, 2, 7), G(1, 2, 7), G(2, 2, 7)]),
        ('reuse-after-completion-3', [G(1, 3, 7), G(3, 3, 7), G(2, 3, 7), U, G(1, 2, 7), G(2, 2, 7)]),
        ('groups-of-one', [G(1, 1, 5), G(1, 1, 5), G(1, 1, 6), U]),
        ('group-of-one-number-5', [('u', 'single-n5'), G(1, 2, 3), ('u', 'single'), G(2, 2, 3)]),
        ('nonfirst-before-first', [G(2, 2, 9), G(1, 2, 9), U]),
        ('nonfirst-before-first-then-complete', [G(2, 3, 9), G(1, 3, 9), G(3, 3, 9), G(2, 3, 9)]),
        ('missing-first', [G(2, 3, 4), G(3, 3, 4), U]),
        ('duplicate-nonfirst', [G(1, 3, 4), G(2, 3, 4), G(2, 3, 4)]),
        ('duplicate-first', [G(1, 3, 4), G(2, 3, 4), G(1, 3, 4), G(3, 3, 4), G(2, 3, 4)]),
        ('inconsistent-total', [G(1, 3, 4), G(2, 2, 4), G(3, 3, 4)]),
        ('total-zero', [G(1, 0, 4), G(2, 0, 4)]),
        ('total-two-with-three', [G(1, 2, 4), G(2, 2, 4), G(3, 2, 4)]),
        ('straggler-after-completion', [G(1, 2, 4), G(2, 2, 4), G(2, 3, 4)]),
        ('same-numbers-different-ids', [G(1, 2, 1), G(1, 2, 2), G(2, 2, 2), G(2, 2, 1)]),
        ('id-zero-and-huge', [G(1, 2, 0), G(1, 2, 10 ** 30), G(2, 2, 10 ** 30), G(2, 2, 0)]),
        ('numbers-not-contiguous', [G(1, 3, 8), G(17, 3, 8), G(5, 3, 8)]),
        ('malformed-tag-block-inside', [G(1, 2, 4), ('raw', b's:x', 'malformed'), G(2, 2, 4)]),
        ('empty-content-inside', [G(1, 2, 4), ('raw', b'*00', 'malformed'), G(2, 2, 4)]),
        ('text-variants-of-one-id', [('raw', with_checksum(b'g:1-3-07'), (1, 3, 7)), ('raw', with_checksum(b'g:2-3-7'), (2, 3, 7)),
                                     ('raw', with_checksum(b's:a,g: 3 -3-+7'), (3, 3, 7))]),
        ('first-also-last', [G(1, 2, 3), G(1, 2, 3)]),
    ]


def run(ctx):
    rng = ctx.rng
    enumerate_configs(ctx, QUICK_CONFIGS if ctx.quick else all_configs(), 'enum')
    batch = [random_wf(rng) for _ in range(ctx.budget(400, 6000))]
    check_batch(ctx, batch, 'random')
    check_batch(ctx, [many_open(rng, n) for n in ((17, 33, 70) if ctx.quick else (17, 18, 33, 64, 65, 130, 257, 600))],
                'random-many-open')
    check_batch(ctx, [many_open(rng, 20)], 'random-many-open+readers', readers=True)
    two_queues(ctx)
    readers_sharing_queue(ctx)
    # through the readers as well
    sample = [random_wf(rng, max_groups=4, max_size=4) for _ in range(ctx.budget(120, 1500))]
    for sizes, nu in QUICK_CONFIGS[:6]:
        items = config_items(rng, sizes, nu)
        orders = list(interleavings(sizes, nu))
        sample += [(items, o) for o in rng.sample(orders, min(len(orders), 10))]
    check_batch(ctx, sample, 'random+readers', readers=True)
    # the typical use: the fragments of a multi-fragment message form one group (in both orders of the ungrouped line)
    for _ in range(ctx.budget(10, 100)):
        parts = multi_lines(rng)
        gid = rng.randrange(1000)
        items = [Item((k + 1, len(parts), gid), group_tb(rng, k + 1, len(parts), gid), p) for k, p in enumerate(parts)]
        items.append(Item(None, None, ais_line(rng, 77)))
        order = list(range(len(parts)))
        order.insert(rng.randrange(len(order) + 1), len(parts))
        check_batch(ctx, [(items, tuple(order))], 'fragments-as-group', readers=True)
    # boundary sequences (mostly outside the provisos: model comparison, passthrough clause)
    for label, specs in boundary_sequences(rng):
        items = mk_items(rng, specs)
        malformed = any(sp[0] == 'raw' and sp[2] == 'malformed' for sp in specs)
        check_batch(ctx, [(items, tuple(range(len(items))))], 'boundary:' + label, readers=not malformed)
    # mutations of well-formed sequences: drop / duplicate / swap one sentence
    mut = []
    for _ in range(ctx.budget(300, 4000)):
        items, order = random_wf(rng, max_groups=3, max_size=4)
        order = list(order)
        op = rng.choice(['drop', 'dup', 'swap'])
        p = rng.randrange(len(order))
        if op == 'drop' and len(order) > 1:
            del order[p]
        elif op == 'dup':
            order.insert(rng.randrange(len(order) + 1), order[p])
        else:
            q = rng.randrange(len(order))
            order[p], order[q] = order[q], order[p]
        mut.append((items, tuple(order)))
    check_batch(ctx, mut, 'mutated')


def two_queues(ctx):
    """Two TagBlockQueue objects alive at once, fed alternately with groups that use the SAME group ids: every queue
    must deliver exactly what the specification says for ITS OWN input (bookkeeping shared between queue objects, or kept
    from a queue that is no longer used, shows only here)."""
    from pyais.stream import TagBlockQueue
    from pyais.messages import TagBlock, NMEASentenceFactory
    rng, rep = ctx.rng, ctx.rep
    for rnd in range(ctx.budget(6, 60)):
        gids = rng.sample(range(1, 50), rng.choice([1, 2, 3]))
        feeds = []
        for q in (0, 1):
            specs = []
            for g in gids:
                size = rng.choice([2, 3, 4])
                specs += [('g', n, size, g, True) for n in range(1, size + 1)]
            feeds.append(mk_items(rng, specs))
        queues = [TagBlockQueue(), TagBlockQueue()]
        sched = [(q, k) for q in (0, 1) for k in range(len(feeds[q]))]
        # a random merge of the two feeds (each feed keeps its own order: first sentences first)
        order, idx = [], [0, 0]
        while idx[0] < len(feeds[0]) or idx[1] < len(feeds[1]):
            q = rng.choice([q for q in (0, 1) if idx[q] < len(feeds[q])])
            order.append((q, idx[q]))
            idx[q] += 1
        pos = [{}, {}]
        steps = [[], []]
        for q, k in order:
            it = feeds[q][k]
            s = NMEASentenceFactory.produce(it.bare)
            s.tag_block = TagBlock(it.tb)
            pos[q][id(s)] = k
            try:
                queues[q].put_sentence(s)
                steps[q].append([[pos[q].get(id(x), -1) for x in lst] for lst in drain(queues[q])])
            except Exception as e:   # noqa: BLE001
                steps[q].append(exc_view(e))
        for q in (0, 1):
            grps = [it.grp for it in feeds[q]]
            rep.case(('two-queues', rnd, q, tuple(it.tb for it in feeds[q])), kind='two-queues')
            wf, want = (True, py_spec(grps))
            if ctx.model:
                wf, want = parse_spec(ctx.model.ask('tbqspec ' + ' '.join(grp_tok(g) for g in grps)))
            if any(-1 in lst for st in steps[q] if isinstance(st, list) for lst in st) or steps[q] != want:
                rep.violation({'entry': 'put_sentence', 'component': 'delivery', 'kind': 'affected-by-another-queue'},
                              f'with two TagBlockQueue objects fed alternately (same group ids {gids}), queue {q} delivered '
                              f'{steps[q]} for its own input, the specification gives {want}',
                              {'two_queues': True, 'feeds': [[tb_tok(it.tb) for it in f] for f in feeds],
                               'order': order, 'entry': 'put_sentence'})
                break


def _read_batches(lines, cuts, kinds, index):
    """the lines in consecutive batches, every batch through a NEW reader (used and closed like a rotated log file) that
    feeds the SAME TagBlockQueue -> the lists the queue delivered, in order"""
    import io
    import pyais.stream as ps
    tbq = ps.TagBlockQueue()
    out = []
    bounds = [0] + list(cuts) + [len(lines)]
    for (a, b), kind in zip(zip(bounds, bounds[1:]), kinds):
        batch = lines[a:b]
        if kind == 'IterMessages':
            for _ in ps.IterMessages(batch, tbq=tbq):
                pass
        elif kind == 'ByteStream':
            with ps.ByteStream(iter(batch), tbq=tbq) as r:
                for _ in r:
                    pass
        else:
            with ps.BinaryIOStream(io.BytesIO(b''.join(x + b'\n' for x in batch)), tbq=tbq) as r:
                for _ in r:
                    pass
        out.extend(view_lists(drain(tbq), index))
    return out


def readers_sharing_queue(ctx):
    """A TagBlockQueue that outlives its readers: the sentences arrive in several batches, each read by a new reader object
    (closed afterwards) attached to the same queue -- a group that starts in one batch and ends in a later one must still be
    delivered complete and once (bookkeeping wiped or kept wrongly when a reader ends shows only here)."""
    rng, rep = ctx.rng, ctx.rep
    for rnd in range(ctx.budget(25, 250)):
        items, order = random_wf(rng, max_groups=3, max_size=4)
        if len(order) < 2 or any(it.bare.startswith(b'$') for it in items):
            continue
        lines = [items[k].line for k in order]
        grps = [items[k].grp for k in order]
        index = by_content([(items[k].bare, items[k].tb) for k in order])
        cuts = sorted(rng.sample(range(1, len(lines)), min(len(lines) - 1, rng.choice([1, 1, 2]))))
        kinds = [rng.choice(['BinaryIOStream', 'BinaryIOStream', 'ByteStream', 'IterMessages']) for _ in range(len(cuts) + 1)]
        rep.case(('readers-sharing-queue', tuple(lines), tuple(cuts), tuple(kinds)), kind='readers-sharing-queue')
        wf, want = (True, py_spec(grps))
        if ctx.model:
            wf, want = parse_spec(ctx.model.ask('tbqspec ' + ' '.join(grp_tok(g) for g in grps)))
        if not wf:
            continue
        flat = [lst for st in want for lst in st]
        try:
            got = _read_batches(lines, cuts, kinds, index)
        except Exception as e:   # noqa: BLE001
            got = exc_view(e)
        if got != flat:
            rep.violation({'entry': 'readers sharing a queue', 'component': 'delivery', 'kind': 'lost-or-changed-across-readers'},
                          f'{len(lines)} sentences read in batches {cuts} by {kinds} attached to ONE TagBlockQueue: the queue '
                          f'delivered {got}, the specification gives {flat}',
                          {'readers_sharing_queue': True, 'lines': [x.hex() for x in lines], 'cuts': cuts, 'kinds': kinds,
                           'grps': [grp_tok(g) for g in grps], 'keys': [[items[k].bare.hex(), tb_tok(items[k].tb)] for k in order]})
            break


def replay_readers_sharing_queue(data):
    lines = [bytes.fromhex(x) for x in data['lines']]
    index = by_content([(bytes.fromhex(b), None if t == 'None' else (b'' if t == '-' else bytes.fromhex(t))) for b, t in data['keys']])
    grps = [None if g == 'None' else tuple(int(x) for x in g.split(',')) for g in data['grps']]
    flat = [lst for st in py_spec(grps) for lst in st]
    try:
        got = _read_batches(lines, data['cuts'], data['kinds'], index)
    except Exception as e:   # noqa: BLE001
        return f'raised {type(e).__name__}'
    return None if got == flat else f'the shared queue delivered {got}, the specification gives {flat}'


def replay_two_queues(data):
    from pyais.stream import TagBlockQueue
    from pyais.messages import TagBlock, NMEASentenceFactory
    bare = b'!AIVDM,1,1,,A,15M67FC000G?ufbE`FepT@3n00Sa,0*5C'
    queues = [TagBlockQueue(), TagBlockQueue()]
    fed = [[], []]
    pos = [{}, {}]
    steps = [[], []]
    for q, k in data['order']:
        s = NMEASentenceFactory.produce(bare)
        s.tag_block = TagBlock(bytes.fromhex(data['feeds'][q][k]))
        pos[q][id(s)] = k
        try:
            queues[q].put_sentence(s)
            steps[q].append([[pos[q].get(id(x), -1) for x in lst] for lst in drain(queues[q])])
        except Exception as e:   # noqa: BLE001
            return f'put_sentence raised {type(e).__name__}'
    for q in (0, 1):
        grps = []
        for h in data['feeds'][q]:
            t = TagBlock(bytes.fromhex(h))
            t.init()
            grps.append((t.group.sentence_num, t.group.sentence_tot, t.group.group_id))
        if steps[q] != py_spec(grps):
            return f'queue {q} delivered {steps[q]} for its own input, the specification gives {py_spec(grps)}'
    return None


def hunt(ctx):
    """Something no longer checks: every configuration of up to 3 groups of sizes <= 3 exhaustively, then random
    sequences up to size 6."""
    enumerate_configs(ctx, all_configs(), 'hunt-enum')
    check_batch(ctx, [random_wf(ctx.rng) for _ in range(20000)], 'random')
    check_batch(ctx, [random_wf(ctx.rng, max_groups=4, max_size=4) for _ in range(1500)], 'random+readers', readers=True)


def replay(ctx, data):
    if data.get('two_queues'):
        return replay_two_queues(data)
    if data.get('readers_sharing_queue'):
        return replay_readers_sharing_queue(data)
    import vlib
    rep = vlib.Report('C17', 'quick', 0)

    class C:
        pass
    c = C()
    own = None if ctx.model else vlib.FastModel()       # the specification (and the provisos) come from the extracted Spec
    c.rep, c.model, c.rng, c.quick = rep, ctx.model or own, ctx.rng, True
    items = []
    for k, (tb, g) in enumerate(zip(data['tbs'], data['grps'])):
        grp = None if g == 'None' else tuple(int(x) for x in g.split(','))
        bare = bytes.fromhex(data['bares'][k]) if data.get('bares') else ais_line(ctx.rng, k)
        items.append(Item(grp, None if tb == 'None' else (b'' if tb == '-' else bytes.fromhex(tb)), bare))
    try:
        check_batch(c, [(items, tuple(range(len(items))))], 'replay', readers=data.get('entry') in ('IterMessages', 'NMEAQueue'))
    finally:
        if own:
            own.close()
    return rep.violations[0]['what'] if rep.violations else None
