"""C20 -- communication state decoded bit-exactly and classified.

Model: Gen/GenComm.v (translated from util.py / messages.py on every run).  Correspondence: the translated
functions (extracted) against msg.get_communication_state()/is_sotdma/is_itdma of really decoded messages.
Oracle: Spec/CommSpec.v (extracted) on the implementation's outputs."""
import itertools
import os
import sys

sys.path.insert(0, os.path.dirname(os.path.dirname(os.path.abspath(__file__))))
import ais  # noqa: E402

GEN = ['GenComm.v', 'GenEnums.v']
RULE = ('radio values: structured (every sync x time-out x sub-message boundary, UTC hours/minutes incl. 59/60/63/64/127, '
        'ITDMA increment/slots/keep boundaries, single bits, both selector values) plus PRNG-drawn values, embedded at the '
        'ITU offset of a random payload of each carrying type (1,2,3,4,9,11,18 and the four variants of 26) and decoded by '
        'pyais.decode(); a case is (type, variant, radio); distinct = distinct (type, variant, radio); thorough tier enumerates '
        'all 2^19 / 2^20 values per type')
ASSUMPTIONS = ['type ids and radio offsets used to embed the value are those of ITU-R M.1371 (radio is the last field of '
               'types 1-4, 9, 11, 18, 26)']
TRUSTED_EXTRA = ['Spec/CommSpec.v is a hand transcription of the ITU communication-state tables']

# (type id, total bits, radio offset, radio width, fixed bits {index: bit})
CARRIERS = [
    (1, 168, 149, 19, {}), (2, 168, 149, 19, {}), (3, 168, 149, 19, {}), (4, 168, 149, 19, {}), (11, 168, 149, 19, {}),
    (9, 168, 148, 20, {}), (18, 168, 148, 20, {}),
    (26, 1064, 1044, 20, {38: '0', 39: '0'}), (26, 1064, 1044, 20, {38: '0', 39: '1'}),
    (26, 1064, 1044, 20, {38: '1', 39: '0'}), (26, 1064, 1044, 20, {38: '1', 39: '1'}),
]


def structured_radios(w, rng, n_random):
    vals = {0, 1, (1 << w) - 1, (1 << (w - 1)), (1 << 19) - 1}
    for b in range(w):
        vals.add(1 << b)
        vals.add(((1 << w) - 1) ^ (1 << b))
    sel = [0] if w == 19 else [0, 1 << 19]
    for s in sel:
        for sync, to in itertools.product(range(4), range(8)):
            for sub in (0, 1, 0x3fff, 0x2000, 2249, rng.randrange(1 << 14), rng.randrange(1 << 14)):
                vals.add(s | sync << 17 | to << 14 | sub)
        for hour in (0, 1, 23, 24, 31):
            for minute in (0, 1, 30, 59, 60, 63, 64, 65, 100, 127):
                for low in (0, 3):
                    vals.add(s | rng.randrange(4) << 17 | 1 << 14 | hour << 9 | minute << 2 | low)
        for incr in (0, 1, 8191, 4096, rng.randrange(8192)):
            for slots in range(8):
                for keep in (0, 1):
                    vals.add(s | rng.randrange(4) << 17 | incr << 4 | slots << 1 | keep)
    while len(vals) < n_random + 1200:
        vals.add(rng.randrange(1 << w))
    return sorted(vals)


def make_bits(rng, carrier, radio):
    mt, total, off, w, fixed = carrier
    body = [rng.choice('01') for _ in range(total)]
    body[0:6] = format(mt, '06b')
    for k, v in fixed.items():
        body[k] = v
    body[off:off + w] = format(radio, f'0{w}b')
    return ''.join(body)


def observe(bits):
    """Decode through the public API and read the three observables."""
    import pyais
    sentences = ais.bits_to_sentences(bits)
    msg = pyais.decode(*sentences)
    st = msg.get_communication_state()
    obs = {'class': type(msg).__name__, 'msg_type': int(msg.msg_type), 'radio': int(msg.radio),
           'state': {k: (None if v is None else int(v)) for k, v in st.items()},
           'is_sotdma': bool(msg.is_sotdma), 'is_itdma': bool(msg.is_itdma),
           'raw': int(msg.communication_state_raw), 'aliasing': None, 'reassigned': None}
    # (1) result independence: the returned dict belongs to the caller -- overwrite it and ask again
    st.clear()
    st['sync_state'] = 'overwritten by the caller'
    st2 = msg.get_communication_state()
    again = {k: (None if v is None else (int(v) if not isinstance(v, str) else v)) for k, v in st2.items()}
    if again != obs['state']:
        obs['aliasing'] = (f'get_communication_state() called again after the caller overwrote the first result returns '
                           f'{again}, the first time {obs["state"]}')
    # (2) the same radio value ASSIGNED to a long-lived message object of the same class (msg.radio is a plain public field;
    # decoded messages are edited and re-encoded in pyais' own tests): state and classification must follow the value
    key = type(msg).__name__
    old = _SWEPT.get(key)
    if old is None:
        _SWEPT[key] = msg
    else:
        old.radio = msg.radio
        got = ({k: (None if v is None else int(v)) for k, v in old.get_communication_state().items()},
               bool(old.is_sotdma), bool(old.is_itdma), int(old.communication_state_raw))
        if got != (obs['state'], obs['is_sotdma'], obs['is_itdma'], obs['raw']):
            obs['reassigned'] = (f'a {key} object whose radio was set to {int(msg.radio)} by assignment reports '
                                 f'{got}, a freshly decoded one {(obs["state"], obs["is_sotdma"], obs["is_itdma"], obs["raw"])}')
    return obs


_SWEPT = {}


def parse_dict(txt):
    d = {}
    if txt:
        for kv in txt.split(','):
            k, v = kv.split('=')
            d[k] = None if v == 'None' else int(v)
    return d


def parse_reply(reply):
    m, c, s = reply.split('|')
    model = {'ok': m.startswith('Ok '), 'state': parse_dict(m[3:]) if m.startswith('Ok ') else m}
    a, b, raw = c.split()
    model.update(is_sotdma=a == '1', is_itdma=b == '1', raw=int(raw))
    if s == 'None':
        spec = None
    else:
        scheme, comparable, d = s.split(' ', 2)
        spec = {'scheme': scheme, 'minute_comparable': comparable == '1', 'state': parse_dict(d)}
    return model, spec


def oracle(obs, spec, mt, radio):
    """The property, evaluated on what the implementation reported.  Returns list of (component, kind, text)."""
    bad = []
    if spec is None:
        return [('spec', 'no-spec', f'type {mt} carries no radio field according to the standard')]
    st = obs['state']
    for k, want in spec['state'].items():
        if k == 'utc_minute' and not spec['minute_comparable']:
            continue
        if k not in st:
            bad.append((k, 'missing-field', f'{k} not reported'))
        elif st[k] != want:
            bad.append((k, 'wrong-value', f'{k} = {st[k]}, ITU bit range gives {want}'))
    if obs['is_sotdma'] != (spec['scheme'] == 'SOTDMA') or obs['is_itdma'] != (spec['scheme'] == 'ITDMA'):
        bad.append(('classification', 'wrong-class',
                    f"is_sotdma={obs['is_sotdma']} is_itdma={obs['is_itdma']}, standard says {spec['scheme']}"))
    # reconstruction from the *reported* fields
    try:
        if spec['scheme'] == 'SOTDMA' and st.get('slot_timeout') != 1:
            subs = [st.get(k) for k in ('slot_offset', 'slot_number', 'received_stations') if st.get(k) is not None]
            if len(subs) != 1 or (st['sync_state'] << 17 | st['slot_timeout'] << 14 | subs[0]) != radio & 0x7ffff:
                bad.append(('reconstruction', 'wrong-value', 'raw value not reconstructible from reported SOTDMA fields'))
        if spec['scheme'] == 'ITDMA':
            if (st['sync_state'] << 17 | st['slot_increment'] << 4 | st['num_slots'] << 1 | st['keep_flag']) != radio & 0x7ffff:
                bad.append(('reconstruction', 'wrong-value', 'raw value not reconstructible from reported ITDMA fields'))
    except (TypeError, KeyError):
        bad.append(('reconstruction', 'wrong-value', 'a field needed for reconstruction is None'))
    return bad


_LAST_WITH = {}
_SWEEP_FROM = {}      # class -> bits of the first message of that class in this process (the long-lived object of observe())


def check_cases(ctx, cases, want_samples=True):
    """cases: list of (carrier index, radio, bits)."""
    rep = ctx.rep
    replies = ctx.model.ask_many([f'c20 {CARRIERS[ci][0]} {radio}' for ci, radio, _ in cases]) if ctx.model else None
    for n, (ci, radio, bits) in enumerate(cases):
        carrier = CARRIERS[ci]
        mt = carrier[0]
        variant = ''.join(carrier[4].get(k, '') for k in (38, 39))
        rep.case((mt, variant, radio), kind=f'type{mt}{"/" + variant if variant else ""}')
        # the most recent earlier message of this process with the SAME radio value (a result remembered under part of the
        # input, e.g. the radio value without the message type, only reproduces after that message): goes into the replay
        earlier = _LAST_WITH.get(radio & 0x7ffff)
        _LAST_WITH[radio & 0x7ffff] = bits
        if len(_LAST_WITH) > 400000:
            _LAST_WITH.clear()
        try:
            obs = observe(bits)
        except Exception as e:  # the implementation failed outright on a valid message
            rep.violation({'entry': 'decode+get_communication_state', 'type': mt, 'component': 'exception',
                           'kind': f'exception:{type(e).__name__}'},
                          f'type {mt} radio {radio}: {type(e).__name__}: {e}', {'carrier': ci, 'radio': radio, 'bits': bits, 'earlier_same_radio': earlier})
            continue
        if obs['msg_type'] != mt or obs['radio'] != radio:
            # the radio value did not arrive where the standard puts it: a layout defect (C01), still a C20 failure
            rep.violation({'entry': 'decode', 'type': mt, 'component': 'radio', 'kind': 'wrong-value'},
                          f'type {mt}{variant}: radio field decoded as {obs["radio"]}, payload carries {radio}',
                          {'carrier': ci, 'radio': radio, 'bits': bits, 'earlier_same_radio': earlier})
            continue
        for comp in ('aliasing', 'reassigned'):
            if obs.get(comp):
                rep.violation({'entry': 'get_communication_state', 'type': mt, 'component': comp,
                               'kind': 'aliased-result' if comp == 'aliasing' else 'stale-after-assignment'},
                              f'type {mt}{("/" + variant) if variant else ""} radio {radio} (0x{radio:x}): {obs[comp]}',
                              {'carrier': ci, 'radio': radio, 'bits': bits, 'earlier_same_radio': earlier,
                               'sweep_from': _SWEEP_FROM.get(obs['class'])})
        _SWEEP_FROM.setdefault(obs['class'], bits)
        if replies is None:
            continue
        model, spec = parse_reply(replies[n])
        rep.count('scheme:' + (spec['scheme'] if spec else 'none'))
        if spec and spec['scheme'] == 'SOTDMA':
            rep.count(f"timeout:{spec['state']['slot_timeout']}")
        impl_view = {'state': obs['state'], 'is_sotdma': obs['is_sotdma'], 'is_itdma': obs['is_itdma'], 'raw': obs['raw']}
        model_view = {'state': model['state'], 'is_sotdma': model['is_sotdma'], 'is_itdma': model['is_itdma'],
                      'raw': model['raw']}
        if impl_view != model_view:
            rep.disagree('H-comm', {'type': mt, 'variant': variant, 'radio': radio}, model_view, impl_view)
        for comp, kind, text in oracle(obs, spec, mt, radio):
            rep.violation({'entry': 'get_communication_state', 'type': mt, 'component': comp, 'kind': kind},
                          f'type {mt}{("/" + variant) if variant else ""} radio {radio} (0x{radio:x}): {text}',
                          {'carrier': ci, 'radio': radio, 'bits': bits, 'earlier_same_radio': earlier})
        if want_samples and n % 997 == 0:
            rep.sample({'type': mt, 'variant': variant, 'radio': radio, 'reported': obs['state'],
                        'sentences': [s.decode() for s in ais.bits_to_sentences(bits)][:1]})


def run(ctx):
    rng = ctx.rng
    n_random = ctx.budget(300, 3000)
    cases = []
    for ci, carrier in enumerate(CARRIERS):
        radios = structured_radios(carrier[3], rng, n_random)
        if carrier[0] == 26 and ctx.quick:
            radios = rng.sample(radios, 500)
        for r in radios:
            cases.append((ci, r, make_bits(rng, carrier, r)))
    check_cases(ctx, cases)
    if not ctx.quick:
        exhaustive(ctx)


def exhaustive(ctx):
    """All radio values of every carrying type (thorough tier), in parallel workers."""
    import multiprocessing as mp
    jobs = []
    for ci, carrier in enumerate(CARRIERS):
        w = carrier[3]
        step = 1 << 16
        for lo in range(0, 1 << w, step):
            jobs.append((ci, lo, lo + step, ctx.seed))
    with mp.Pool(min(16, os.cpu_count() or 4)) as pool:
        for res in pool.imap_unordered(_sweep, jobs):
            ctx.rep.evaluations += res['n']
            ctx.rep.count('exhaustive', res['n'])
            for d in res['disagreements'][:3]:
                ctx.rep.disagree('H-comm', *d)
            for v in res['violations'][:3]:
                ctx.rep.violation(*v)
    ctx.rep.exhaustive.append('all 2^19 (types 1,2,3,4,11) / 2^20 (types 9,18, 26 x 4 variants) radio values')


def _sweep(job):
    ci, lo, hi, seed = job
    import random
    import vlib
    sys.path.insert(0, vlib.REPO)
    rng = random.Random(f'{seed}/{ci}/{lo}')
    rep = vlib.Report('C20', 'thorough', seed)

    class C:
        pass
    c = C()
    c.rep = rep
    c.model = vlib.FastModel()
    carrier = CARRIERS[ci]
    template = make_bits(rng, carrier, 0)
    off, w = carrier[2], carrier[3]
    cases = [(ci, r, template[:off] + format(r, f'0{w}b') + template[off + w:]) for r in range(lo, hi)]
    check_cases(c, cases, want_samples=False)
    c.model.close()
    return {'n': hi - lo, 'disagreements': [(d['case'], d['model'], d['impl']) for d in rep.disagreements],
            'violations': [(v['signature'], v['what'], v['replay']) for v in rep.violations]}


def hunt(ctx):
    """Something no longer checks: sweep far more values (all of them for the short types)."""
    rng = ctx.rng
    cases = []
    for ci, carrier in enumerate(CARRIERS):
        w = carrier[3]
        n = 40000 if carrier[0] != 26 else 4000
        for r in rng.sample(range(1 << w), n):
            cases.append((ci, r, make_bits(rng, carrier, r)))
    check_cases(ctx, cases, want_samples=False)


def replay(ctx, data):
    import vlib
    m = ctx.model or vlib.FastModel()
    ci, radio, bits = data['carrier'], data['radio'], data['bits']
    mt = CARRIERS[ci][0]

    def once():
        try:
            obs = observe(bits)
        except Exception as e:
            return f'{type(e).__name__}: {e}'
        if obs['msg_type'] != mt or obs['radio'] != radio:
            return f'radio decoded as {obs["radio"]}, payload carries {radio}'
        if obs.get('aliasing') or obs.get('reassigned'):
            return obs.get('aliasing') or obs.get('reassigned')
        _, spec = parse_reply(m.ask(f'c20 {mt} {radio}'))
        bad = oracle(obs, spec, mt, radio)
        return '; '.join(t for _, _, t in bad) if bad else None
    if data.get('sweep_from'):
        try:
            observe(data['sweep_from'])        # the message whose object is kept and has its radio re-assigned
        except Exception:      # noqa: BLE001
            pass
    if data.get('earlier_same_radio'):
        try:
            observe(data['earlier_same_radio'])        # the earlier message with the same radio value, as in the recorded run
        except Exception:      # noqa: BLE001
            pass
    return once()
