"""Shared harness of the tracker properties C12-C15 (H-tracker).

Model: coq/Model/Tracker.v (extracted).  Specification oracles: coq/Spec/TrackerSpec.v (extracted).
Implementation: pyais.tracker.AISTracker through its public API (update, pop_track, cleanup, get_track, tracks,
n_latest_tracks, register_callback, remove_callback, oldest_timestamp) under a controlled clock.

A history is JSON: {'cfg': {'ordered': bool, 'ttl_q': int|None, 'base': int, 'beh': [...]}, 'ops': [...]} with the operations
  ['A', ev, cb] ['D', ev, cb]   register_callback / remove_callback   (ev in 'c','u','d'; cb = number of a callback)
  ['U', now_q, msg, ts_q|None]  clock := now, update(msg, ts)         (msg: {'s': [NMEA sentences]} or {'stub': ...})
  ['C', now_q]                  clock := now, cleanup()
  ['P', mmsi] / ['P', 'mmsi']   pop_track(mmsi) (int or numeric string)
  ['L', n]   ['G', mmsi]        queries n_latest_tracks(n) / get_track(mmsi)
  ['I', now_q, msg, ts_q|None]  clock := now, tracker.insert_or_update(mmsi, msg_to_track(msg.decode(), ts))   (the public method
                                below update(): no ordered-stream check, no cleanup(); ordered mode: the generators only hand
                                it timestamps that are not older than any track -- the caller's obligation on that route)
  ['T', ttl_q|None]             tracker.ttl_in_seconds = ttl   (a new TTL, in the history's time unit; None = never expire)
  ['M']                         tracker.stream_is_ordered = False   (only this direction, see Props/C14.v)
All times are integers in quarter seconds relative to cfg.base (seconds): binary64 arithmetic on them is exact.
cfg.beh (optional) says what the callbacks do: a list of rules [cb, ev, mmsi|None, 'ExceptionClass'] -- callback cb, called
for event ev with a track of that MMSI (None: any track), raises that exception; the first matching rule decides; a callback
without a matching rule returns normally.  A history (and hence a replay) is self-contained.
"""
import dataclasses
import itertools
import json
import os
import sys
import time as _time
import types

sys.path.insert(0, os.path.dirname(os.path.dirname(os.path.abspath(__file__))))

Q = 4                       # model time unit = 1/Q second
MON = {'c': 100, 'u': 101, 'd': 102}      # the three monitor callbacks (one per event, registered once)
MON_OPS = [['A', 'c', 100], ['A', 'u', 101], ['A', 'd', 102]]
MMSIS = [227006760, 205448890, 786434, 1, 999999999, 366053209, 0]       # incl. the smallest (0: falsy) and the largest MMSI
BASES = [0, 1673259264, 1673259264000]      # a zero-based clock, epoch seconds, epoch MILLIseconds (a caller may stamp in any unit; 2^40 < 1.67e12 < 2^41: the 1/4096 s grid is still exact)

_real_time = _time.time
# exception classes a callback of the harness may raise (all are classes of Prim/Exn.v; IndexError is a LookupError like
# KeyError but NOT caught by `except KeyError`)
RAISABLE = {'KeyError': KeyError, 'ValueError': ValueError, 'IndexError': IndexError, 'ZeroDivisionError': ZeroDivisionError,
            'TypeError': TypeError, 'AttributeError': AttributeError, 'OverflowError': OverflowError}
RAISERS = [3, 4, 5, 6, 7, 8]      # numbers of the callbacks that may get a raising behaviour (monitors are 100-102)


class Clock:
    """Replaces time.time in this process while a history runs (pyais.tracker.now() and the default factory of
    AISTrack.last_updated both call time.time() at call time)."""

    def __init__(self):
        self.t = 0.0

    def __enter__(self):
        _time.time = lambda: self.t
        return self

    def __exit__(self, *a):
        _time.time = _real_time


class Env:
    """Reflection data of the loaded package, the value-token table and the message cache."""

    def __init__(self):
        import attr
        import pyais
        import pyais.messages as pm
        import pyais.tracker as pt
        self.attr, self.pyais, self.pm, self.pt = attr, pyais, pm, pt
        names = [f.name for f in dataclasses.fields(pt.AISTrack)]
        self.problems = []
        if 'mmsi' not in names or 'last_updated' not in names:
            self.problems.append('AISTrack lacks mmsi/last_updated')
        self.attrs = [n for n in names if n not in ('mmsi', 'last_updated')]
        self.nattrs = len(self.attrs)
        for cls in set(pm.MSG_CLASS.values()):
            try:
                fs = {a.name for a in attr.fields(cls)}
            except Exception:
                continue
            if 'last_updated' in fs or hasattr(cls, 'last_updated'):
                self.problems.append(f'{cls.__name__} has an attribute last_updated (outside the model)')
        self.tok, self.untok = {}, {}
        self.cache = {}
        self.EV = {'c': pt.AISTrackEvent.CREATED, 'u': pt.AISTrackEvent.UPDATED, 'd': pt.AISTrackEvent.DELETED}

    def token(self, v):
        key = (type(v).__name__, repr(v))
        t = self.tok.get(key)
        if t is None:
            t = f'v{len(self.tok)}'
            self.tok[key] = t
            self.untok[t] = f'{key[1]}'
        return t

    def show(self, t):
        return 'None' if t == 'n' else self.untok.get(t, t)

    def build(self, spec):
        """-> (object for update(), mmsi, view) ; view[i] = '-' (no such attribute) | 'n' (None) | token."""
        key = json.dumps(spec, sort_keys=True)
        hit = self.cache.get(key)
        if hit is not None:
            return hit
        if 's' in spec:
            # a sentence with an NMEA tag block in front (\\c:<receiver time>*hh\\!AIVDM...) goes through the factory, as a
            # reader would produce it: the sentence object then carries the (lazily parsed) tag block
            ss = [self.pm.NMEASentenceFactory.produce(s.encode()) if s.startswith('\\') else self.pm.AISSentence(s.encode())
                  for s in spec['s']]
            obj = ss[0] if len(ss) == 1 else self.pm.AISSentence.assemble_from_iterable(ss)
            dec = obj.decode()
            fs = {a.name for a in self.attr.fields(type(dec))}
            view = []
            for n in self.attrs:
                if hasattr(dec, n) != (n in fs):
                    self.problems.append(f'{type(dec).__name__}.{n}: hasattr differs from attr.fields')
                if n not in fs:
                    view.append('-')
                else:
                    v = getattr(dec, n)
                    view.append('n' if v is None else self.token(v))
            res = (obj, int(dec.mmsi), view, type(dec).__name__)
        else:
            st = spec['stub']
            ns = types.SimpleNamespace(mmsi=st['mmsi'], **st['attrs'])
            obj = types.SimpleNamespace(decode=lambda ns=ns: ns)
            view = []
            for n in self.attrs:
                if n not in st['attrs']:
                    view.append('-')
                else:
                    v = st['attrs'][n]
                    view.append('n' if v is None else self.token(v))
            res = (obj, int(st['mmsi']), view, 'stub')
        self.cache[key] = res
        return res


_ENV = None


def env():
    global _ENV
    if _ENV is None:
        _ENV = Env()
    return _ENV


# ------------------------------------------------------------------------------------------------ messages
def _pick(rng, falsy, vals):
    return vals[0] if falsy else rng.choice(vals)


def real_message(rng, mmsi, kind=None):
    """A really encoded (pyais.encode_dict) message of a random type; 30 % carry only falsy-but-present values."""
    e = env()
    kind = kind or rng.choice([1, 1, 2, 3, 4, 5, 5, 9, 18, 18, 19, 21, 23, '24A', '24B', 27, 27, 14])
    z = rng.random() < 0.3
    p = lambda vals: _pick(rng, z, vals)
    dims = dict(to_bow=p([0, 1, 511]), to_stern=p([0, 7, 511]), to_port=p([0, 3, 63]), to_starboard=p([0, 2, 63]))
    pos = dict(lon=p([0, -179.5, 12.25, 181]), lat=p([0, -89.5, 53.5, 91]))
    if kind in (1, 2, 3):
        d = dict(type=kind, speed=p([0, 0.1, 10.5, 102.2, 102.3]), course=p([0, 0.1, 359.9, 360]), heading=p([0, 1, 359, 511]),
                 turn=p([0, -128, 127, 5]), status=p([0, 1, 5, 15]), **pos)
    elif kind == 4:
        d = dict(type=4, **pos)
    elif kind == 5:
        d = dict(type=5, imo=p([0, 1, 9074729]), callsign=p(['', 'CALL', '3FOF8']), shipname=p(['', 'EVER DIADEM', 'A']),
                 ship_type=p([0, 70, 99]), destination=p(['', 'NEW YORK']), ais_version=p([0, 1, 3]), **dims)
    elif kind == 9:
        d = dict(type=9, speed=p([0, 1, 1022]), course=p([0, 0.1, 360]), **pos)
    elif kind == 18:
        d = dict(type=18, speed=p([0, 0.1, 102.2, 102.3]), course=p([0, 359.9]), heading=p([0, 359, 511]), **pos)
    elif kind == 19:
        d = dict(type=19, speed=p([0, 5.5]), course=p([0, 10.0]), heading=p([0, 90]), shipname=p(['', 'B CLASS']),
                 ship_type=p([0, 37]), **pos, **dims)
    elif kind == 21:
        d = dict(type=21, name=p(['', 'BUOY 7']), **pos, **dims)
    elif kind == 23:
        d = dict(type=23, ship_type=p([0, 30, 99]))
    elif kind == '24A':
        d = dict(type=24, partno=0, shipname=p(['', 'PART A NAME']))
    elif kind == '24B':
        d = dict(type=24, partno=1, callsign=p(['', 'DK1234']), ship_type=p([0, 36]), **dims)
    elif kind == 27:
        d = dict(type=27, speed=p([0, 1, 63]), course=p([0, 1, 359]), status=p([0, 3, 15]), lon=p([0, -179.5, 12.5]),
                 lat=p([0, -89.5, 53.5]))
    else:
        d = dict(type=14, text=p(['', 'SAFETY']))
    d['mmsi'] = mmsi
    try:
        ss = list(e.pyais.encode_dict(d, talker_id='AIVDM'))
    except Exception:
        ss = list(e.pyais.encode_dict(dict(type=1, mmsi=mmsi), talker_id='AIVDM'))
    if len(ss) == 1 and rng.random() < 0.15:
        # as it comes out of a reader fed by a station that stamps its sentences: a tag block with a receiver time that has
        # nothing to do with the tracker's clock (last_updated is the clock / the explicit timestamp, never this field)
        tb = 'c:' + str(rng.choice([1, 5, 1700000000, 1673259264 + 3]))
        cs = 0
        for ch in tb:
            cs ^= ord(ch)
        ss = ['\\' + tb + '*%02X' % cs + '\\' + ss[0]]
    return {'s': ss}


STUB_VALUES = [0, 0.0, '', False, None, 1, 'X', 2.5, True, -1]


def stub_message(rng, mmsi, attrs=None):
    """An object whose decode() returns a namespace with an arbitrary subset of the track attributes, including
    falsy-but-present values (0, 0.0, '', False) and attributes that are present but None."""
    e = env()
    if attrs is None:
        k = rng.choice([0, 1, 2, 3, 5, e.nattrs])
        attrs = {n: rng.choice(STUB_VALUES) for n in rng.sample(e.attrs, min(k, e.nattrs))}
    return {'stub': {'mmsi': mmsi, 'attrs': attrs}}


# ------------------------------------------------------------------------------------------------ implementation
def _q(x, base, q=None):
    """seconds (float) -> model time units (1/q second, default quarter seconds) relative to base (exact), or a text if
    not representable."""
    q = q or Q
    if x is None:
        return None
    try:
        v = (x - base) * q
        if v == int(v):
            return int(v)
    except Exception:
        pass
    return repr(x)


def ask_sized(model, lines, limit=40000):
    """ask_many in batches of at most `limit` request bytes: a request batch that fits the pipe buffer can never
    block the writer, whatever the size of the replies, and few large batches mean few process switches."""
    out, chunk, size = [], [], 0
    for ln in lines:
        if chunk and (size + len(ln) + 1 > limit or len(chunk) >= 500):
            out.extend(model.ask_many(chunk, batch=len(chunk)))
            chunk, size = [], 0
        chunk.append(ln)
        size += len(ln) + 1
    if chunk:
        out.extend(model.ask_many(chunk, batch=len(chunk)))
    return out


_FOREIGN = {'n': 0, 'prev': None}     # events that reached a subscriber registered with ANOTHER tracker object


def run_impl(h):
    """Runs the history on pyais.  -> list of per-operation observations (dicts)."""
    e = env()
    cfg = h['cfg']
    base = cfg['base']
    q = cfg.get('q', Q)          # model time unit of this history = 1/q second (4 by default; 4096 for sub-millisecond gaps)
    def seconds(ttl_q):
        if ttl_q is None:
            return None
        return ttl_q // q if ttl_q % q == 0 else ttl_q / q
    ttl = seconds(cfg['ttl_q'])
    if cfg.get('int_ts'):
        # explicit timestamps are handed in as Python ints (a caller stamping in epoch nanoseconds: beyond 2**53, where
        # neighbouring ints collapse to one float) -- they are compared and stored exactly, as the model does
        stamp = lambda x: int(base) + x // q
    else:
        stamp = lambda x: float(base) + x / q
    out = []
    cur = {'events': [], 'deliv': [], 'live': True, 'raised': [], 'raised_obj': None}
    foreign_before = _FOREIGN['n']
    rules = [tuple(r) for r in cfg.get('beh') or []]
    shared = set(cfg.get('shared') or [])      # callback numbers that are ONE callable for all their events

    def behaviour(cb, ev, mmsi):
        for c, e2, m, x in rules:
            if c == cb and e2 == ev and (m is None or m == mmsi):
                return x
        return None

    def snap(tr):
        if tr is None:          # an event delivered without a track (never for a correct tracker): keep it observable
            return (-1, 0, ())
        return (int(tr.mmsi) if isinstance(tr.mmsi, int) else repr(tr.mmsi), _q(tr.last_updated, base, q),
                tuple('n' if getattr(tr, n) is None else e.token(getattr(tr, n)) for n in e.attrs))

    cbs = {}

    def callback(cb, ev):
        # one Python callable per (callback number, event it is registered for): the callable only receives the
        # track, so this is how it knows the event (register/remove identify a subscriber by the pair anyway)
        if cb in shared:
            # ONE Python callable registered for several events (a handler that logs every life-cycle event): it only
            # receives the track, so it takes the event from the monitor that was called just before it in the same
            # propagation (the monitors are registered first, for all three events)
            if (cb, None) not in cbs:
                def g(track, cb=cb):
                    if not cur['live']:
                        _FOREIGN['n'] += 1
                        return
                    cur['deliv'].append((cb, cur['events'][-1][0] if cur['events'] else '?', snap(track)))
                cbs[(cb, None)] = g
            return cbs[(cb, None)]
        if (cb, ev) not in cbs:
            letter = {v: k for k, v in MON.items()}.get(cb)

            def f(track, cb=cb, ev=ev, letter=letter):
                if not cur['live']:
                    # this subscriber belongs to a tracker of an EARLIER history: a correct tracker never reaches it
                    _FOREIGN['n'] += 1
                    return
                s = snap(track)
                cur['deliv'].append((cb, ev, s))
                if letter:
                    cur['events'].append((letter, s))
                x = behaviour(cb, ev, s[0])
                if x is not None:
                    ex = RAISABLE[x](f'callback {cb} ({ev}) refuses track {s[0]}')
                    cur['raised'].append((cb, ev, s[0], x))
                    cur['raised_obj'] = ex
                    raise ex
            cbs[(cb, ev)] = f
        return cbs[(cb, ev)]

    with Clock() as clock:
        tracker = e.pt.AISTracker(ttl_in_seconds=ttl, stream_is_ordered=cfg['ordered'])
        for op in h['ops']:
            cur['events'], cur['deliv'], cur['raised'], cur['raised_obj'] = [], [], [], None
            rec = {'exn': None, 'from_cb': False}
            try:
                k = op[0]
                if k == 'U':
                    clock.t = float(base) + op[1] / q
                    obj = e.build(op[2])[0]
                    if op[3] is None:
                        tracker.update(obj)
                    else:
                        tracker.update(obj, stamp(op[3]))
                elif k == 'C':
                    clock.t = float(base) + op[1] / q
                    tracker.cleanup()
                elif k == 'P':
                    r = tracker.pop_track(op[1])
                    rec['ret'] = None if r is None else snap(r)
                elif k == 'A':
                    tracker.register_callback(e.EV[op[1]], callback(op[2], op[1]))
                elif k == 'D':
                    tracker.remove_callback(e.EV[op[1]], callback(op[2], op[1]))
                elif k == 'L':
                    rec['q'] = [snap(t) for t in tracker.n_latest_tracks(op[1])]
                elif k == 'G':
                    r = tracker.get_track(op[1])
                    rec['q'] = None if r is None else snap(r)
                elif k == 'I':
                    clock.t = float(base) + op[1] / q
                    dec = e.build(op[2])[0].decode()
                    tracker.insert_or_update(int(dec.mmsi), e.pt.msg_to_track(dec, None if op[3] is None else stamp(op[3])))
                elif k == 'T':
                    tracker.ttl_in_seconds = seconds(op[1])
                elif k == 'M':
                    tracker.stream_is_ordered = False
            except Exception as ex:      # noqa: BLE001 - the class name is the observation
                rec['exn'] = type(ex).__name__
                rec['from_cb'] = ex is cur['raised_obj']     # the very exception object a callback of the harness raised
            rec['events'] = list(cur['events'])
            rec['deliv'] = list(cur['deliv'])
            rec['raised'] = list(cur['raised'])
            # the order in which cleanup() visited its set `to_be_deleted`, as far as a DELETED subscriber saw it
            order = []
            if op[0] in ('U', 'C'):
                for cb, ev, s in cur['deliv']:
                    if ev == 'd' and isinstance(s[0], int) and s[0] not in order:
                        order.append(s[0])
            rec['order'] = order
            rec['tracks'] = [snap(t) for t in tracker.tracks]
            rec['oldest'] = _q(tracker.oldest_timestamp, base, q)
            # the public configuration attributes, as the tracker shows them after the operation
            rec['config'] = (_q(tracker.ttl_in_seconds, 0, q), bool(tracker.stream_is_ordered))
            out.append(rec)
    cur['live'] = False
    if out:
        out[-1]['foreign'] = _FOREIGN['n'] - foreign_before     # deliveries to subscribers of other trackers during this history
        out[-1]['previous'] = _FOREIGN.get('prev')
    _FOREIGN['prev'] = h
    return out


# ------------------------------------------------------------------------------------------------ model
def _attrs_txt(view):
    return '.'.join(view) if view else '_'


def model_line(h, impl=None):
    """The request that runs the history on the extracted model (trkc_step).  The callbacks' behaviours come from
    cfg.beh; the iteration order of each cleanup()'s set of expired MMSIs is taken from the implementation's run (the
    order in which its DELETED deliveries named them): CPython's set order is a function of the insertion sequence that
    the model does not compute, every other observation is the model's own."""
    e = env()
    cfg = h['cfg']
    items = []
    if cfg.get('beh'):
        items.append('B=' + '+'.join(f"{c}:{ev}:{'*' if m is None else m}:{x}" for c, ev, m, x in cfg['beh']))
    for i, op in enumerate(h['ops']):
        k = op[0]
        order = impl[i].get('order') if impl is not None and i < len(impl) else None
        osuf = (',' + '+'.join(map(str, order))) if order else ''
        if k == 'U':
            _, mmsi, view, _ = e.build(op[2])
            items.append(f"U,{op[1]},{mmsi},{'N' if op[3] is None else op[3]},{_attrs_txt(view)}{osuf}")
        elif k == 'I':
            _, mmsi, view, _ = e.build(op[2])
            items.append(f"I,{op[1]},{mmsi},{'N' if op[3] is None else op[3]},{_attrs_txt(view)}")
        elif k == 'C':
            items.append(f'C,{op[1]}{osuf}')
        elif k in ('P', 'G'):
            items.append(f'{k},{int(op[1])}')
        elif k in ('A', 'D'):
            items.append(f'{k},{op[1]},{op[2]}')
        elif k == 'L':
            items.append(f'L,{op[1]}')
        elif k == 'T':
            items.append(f"T,{'N' if op[1] is None else op[1]}")
        elif k == 'M':
            items.append('M')
    return (f"trk_run {1 if cfg['ordered'] else 0} {'N' if cfg['ttl_q'] is None else cfg['ttl_q']} {e.nattrs} "
            + ' '.join(items))


def _track(txt):
    m, lu, a = txt.split('/')
    return (int(m), int(lu), tuple(a.split('.')) if a != '_' else ())


def _tracks(txt):
    return [] if txt == '_' else [_track(t) for t in txt.split(',')]


def parse_model(reply, h):
    if reply.startswith('ERROR'):
        raise RuntimeError('model driver: ' + reply)
    out = []
    for item, op in zip(reply.split('|'), h['ops']):
        if item.startswith('L='):
            out.append({'q': _tracks(item[2:])})
        elif item.startswith('G='):
            out.append({'q': None if item[2:] == 'N' else _track(item[2:])})
        else:
            f = dict(x.split('=', 1) for x in item.split(';'))
            calls = [] if f['C'] == '_' else [(c.split('~')[0], _track(c.split('~')[1])) for c in f['C'].split(',')]
            deliv = [] if f['D'] == '_' else [(int(c.split('~')[0]), c.split('~')[1], _track(c.split('~')[2]))
                                              for c in f['D'].split(',')]
            out.append({'exn': None if f['E'] == '-' else f['E'], 'calls': calls, 'deliv': deliv,
                        'ret': None if f['R'] == 'N' else _track(f['R']),
                        'config': (None if f['K'].split('/')[0] == 'N' else int(f['K'].split('/')[0]), f['K'].split('/')[1] == '1'),
                        'oldest': None if f['O'] == 'None' else int(f['O']), 'tracks': _tracks(f['T'])})
    return out


def per_mmsi(events):
    d = {}
    for ev, tr in events:
        d.setdefault(tr[0], []).append((ev, tr))
    return d


def compare(h, impl, model, with_cache=True):
    """First difference between implementation and model, or None.  -> (step, component, model value, impl value)"""
    mon_attached = {ev for op in h['ops'] if op[0] == 'A' and op[2] == MON[op[1]] for ev in op[1]}
    for i, (op, a, b) in enumerate(zip(h['ops'], impl, model)):
        k = op[0]
        if k in ('L', 'G'):
            if a['exn'] is not None:
                return i, 'exception', None, a['exn']
            qa = a['q'] if k == 'G' else list(a['q'])
            if qa != b['q']:
                return i, 'n_latest_tracks' if k == 'L' else 'get_track', b['q'], qa
            continue
        if a['exn'] != b['exn']:
            return i, 'exception', b['exn'], a['exn']
        if a['tracks'] != b['tracks']:
            return i, 'tracks', b['tracks'], a['tracks']
        if with_cache and a['oldest'] != b['oldest']:
            return i, 'oldest_timestamp', b['oldest'], a['oldest']
        if a.get('config') != b['config']:
            return i, 'ttl_in_seconds / stream_is_ordered', b['config'], a.get('config')
        # every callback invocation, in order (the model visits the expired MMSIs in the implementation's set order)
        da = [(cb, ev, tr) for cb, ev, tr in a['deliv']]
        db = [(cb, ev, tr) for cb, ev, tr in b['deliv']]
        if da != db:
            return i, 'deliveries', db, da
        # order: the calls of one MMSI are ordered (only the expiry of *different* MMSIs iterates a set)
        if len(mon_attached) == 3:
            if per_mmsi(a['events']) != per_mmsi(b['calls']):
                return i, 'events', b['calls'], a['events']
        if k == 'P':
            if a.get('ret') != b['ret']:
                return i, 'pop_track result', b['ret'], a.get('ret')
    return None


# ------------------------------------------------------------------------------------------------ oracles
def universe(h):
    e = env()
    ms = []
    for op in h['ops']:
        if op[0] in ('U', 'I'):
            m = e.build(op[2])[1]
        elif op[0] in ('P', 'G'):
            m = int(op[1])
        else:
            continue
        if m not in ms:
            ms.append(m)
    return ms


def mode(h):
    return 'ordered' if h['cfg']['ordered'] else 'unordered'


def configs(h):
    """The configuration IN FORCE when each operation starts, as the history prescribes it: [(ttl_q, ordered, mode text)].
    mode text = 'ordered' | 'unordered' | 'switched-to-unordered' (built ordered, `stream_is_ordered = False` assigned later)."""
    ttl, ordered, switched = h['cfg']['ttl_q'], h['cfg']['ordered'], False
    out = []
    for op in h['ops']:
        out.append((ttl, ordered, 'ordered' if ordered else ('switched-to-unordered' if switched else 'unordered')))
        if op[0] == 'T':
            ttl = op[1]
        elif op[0] == 'M':
            switched = switched or ordered
            ordered = False
    return out


def _plus(xs):
    return '+'.join(str(x) for x in xs) if xs else '_'


def accepted(a):
    """update(): the message was accepted (the table was changed and CREATED/UPDATED propagated).  An update() that
    raises the very exception object one of the harness's callbacks raised got that far; any other exception is a
    rejection."""
    return a['exn'] is None or a.get('from_cb', False)


def oracle_lines(h, impl):
    """The requests to the extracted specification for this history (needs the implementation's observations)."""
    e = env()
    cfg = h['cfg']
    ms = universe(h)
    lines, index = [], []          # index[i] = what line i answers
    # C12: the log specification, expiry taken from the DELETED events of each step
    sops = []
    for op, a in zip(h['ops'], impl):
        k = op[0]
        dels = [tr[0] for ev, tr in a['events'] if ev == 'd']
        if k == 'U':
            _, mmsi, view, _ = e.build(op[2])
            sops.append(f"U,{op[1]},{mmsi},{'N' if op[3] is None else op[3]},{_attrs_txt(view)},{_plus(dels)}")
        elif k == 'I':
            _, mmsi, view, _ = e.build(op[2])
            sops.append(f"I,{op[1]},{mmsi},{'N' if op[3] is None else op[3]},{_attrs_txt(view)}")
        elif k == 'C':
            sops.append(f'C,{op[1]},{_plus(dels)}')
        elif k == 'P':
            sops.append(f'P,{int(op[1])}')
        elif k == 'T':
            sops.append(f"T,{'N' if op[1] is None else op[1]}")
        elif k == 'M':
            sops.append('M')
        else:
            sops.append('O')
    if ms:
        lines.append(f"trk_spec {1 if cfg['ordered'] else 0} {e.nattrs} {','.join(map(str, ms))} " + ' '.join(sops))
        index.append(('spec',))
    trace = []
    prev = []
    cfgs = configs(h)
    big = len(ms) > 12          # many vessels: ask the specification only where something can be owed (see below)
    for i, (op, a) in enumerate(zip(h['ops'], impl)):
        k = op[0]
        if k in ('U', 'C') and a['exn'] is None and cfgs[i][0] is not None:
            rem = [tr[1] for tr in a['tracks']]
            gone = [tr[1] for ev, tr in a['events'] if ev == 'd']
            if all(isinstance(x, int) for x in rem + gone):
                lines.append(f"trk_ttl {cfgs[i][0]} {op[1]} {_plus(rem)} {_plus(gone)}")
                index.append(('ttl', i))
        if k == 'L' and a['exn'] is None and op[1] >= 0:
            allp = ','.join(f'{tr[0]}/{tr[1]}' for tr in a['tracks']) or '_'
            rp = ','.join(f'{tr[0]}/{tr[1]}' for tr in a['q']) or '_'
            lines.append(f'trk_topn {op[1]} {allp} {rp}')
            index.append(('topn', i))
        if k in ('U', 'C', 'P', 'I'):
            trace.extend(f'{ev}~{tr[0]}' for ev, tr in a['events'])
            before = {tr[0] for tr in prev}
            after = {tr[0] for tr in a['tracks']}
            target = e.build(op[2])[1] if (k in ('U', 'I') and accepted(a)) else None
            touched = {tr[0] for _, tr in a['events']} | (before ^ after)
            last = not any(o[0] in ('U', 'C', 'P', 'I') for o in h['ops'][i + 1:])
            for m in ms:
                if big and m not in touched and m != target:
                    # sp_expected_events target m b b = [] for m <> target: nothing is owed to a vessel whose state did
                    # not change and that got no event (Spec/TrackerSpec.v, by cases); not asked 150 x 150 times
                    continue
                lines.append(f"trk_expected {'N' if target is None else target} {m} {int(m in before)} {int(m in after)}")
                index.append(('expected', i, m))
                if m in touched or last:       # the automaton state of m can only change where m has events
                    lines.append(f"trk_alive {m} {','.join(trace) or '_'}")
                    index.append(('alive', i, m))
        if k not in ('L', 'G'):
            prev = a['tracks']
    return lines, index


def evaluate(h, impl, lines, index, replies):
    """-> list of (property, step, signature, text) for every demand of C12-C15 the implementation's outputs miss."""
    e = env()
    cfg = h['cfg']
    ms = universe(h)
    cfgs = configs(h)
    bad = []
    ans = dict(zip(index, replies))
    for r in replies:
        if r.startswith('ERROR'):
            raise RuntimeError('specification driver: ' + r)
    # ---- C12
    spec_steps = ans[('spec',)].split('|') if ms else []
    prev_tracks, prev_oldest = [], None
    subs, subs_ok = [], True        # the (event, callback) pairs registered at this moment, in registration order
    mon_all = [tuple(o) for o in h['ops'][:3]] and sorted(tuple(o) for o in h['ops'][:3]) == sorted(tuple(o) for o in MON_OPS)
    rules = [tuple(r) for r in cfg.get('beh') or []]

    def raises(cb, ev, mmsi):
        return any(c == cb and e2 == ev and (m is None or m == mmsi) for c, e2, m, x in rules)
    for i, (op, a) in enumerate(zip(h['ops'], impl)):
        k = op[0]
        if k in ('L', 'G'):
            continue
        if ms:
            rej, table = spec_steps[i].split(';', 1)
            want = {}
            for kv in table.split(','):
                m, v = kv.split('=')
                if v != 'N':
                    lu, at = v.split('/')
                    want[int(m)] = (int(lu), tuple(at.split('.')) if at != '_' else ())
            rejected = rej == 'R=1'
        else:
            want, rejected = {}, False
        keys = [tr[0] for tr in a['tracks']]
        md = cfgs[i][2]
        cur_ttl = cfgs[i][0]
        sig = {'entry': {'U': 'update', 'C': 'cleanup', 'P': 'pop_track', 'T': 'ttl_in_seconds', 'M': 'stream_is_ordered',
                         'I': 'insert_or_update'}.get(k, 'register_callback'),
               'mode': md}
        refused = k in ('U', 'I') and not accepted(a)      # update() raised, and not because a subscriber raised
        if k in ('U', 'I'):
            if rejected and not refused:
                bad.append(('C12', i, dict(sig, component='acceptance', kind='wrongly-accepted'),
                            f'step {i}: update older than the track (or out of order) was accepted'))
            elif not rejected and refused:
                bad.append(('C12', i, dict(sig, component='acceptance', kind=f'wrongly-rejected:{a["exn"]}'),
                            f'step {i}: update raised {a["exn"]} although it is neither older than its track nor out of order'))
            if refused and (a['tracks'] != prev_tracks or a['oldest'] != prev_oldest):
                bad.append(('C12', i, dict(sig, component='state-after-rejection', kind='changed'),
                            f'step {i}: rejected update changed the state: {prev_tracks} -> {a["tracks"]}, '
                            f'oldest {prev_oldest} -> {a["oldest"]}'))
        if len(set(keys)) != len(keys):
            bad.append(('C12', i, dict(sig, component='track-set', kind='duplicated'), f'step {i}: two tracks of one MMSI: {keys}'))
        if not (refused and not rejected):
            have = {tr[0]: tr for tr in a['tracks']}
            for m in ms:
                if m in want and m not in have:
                    bad.append(('C12', i, dict(sig, component='track-set', kind='lost'),
                                f'step {i}: MMSI {m} was updated and not removed but has no track'))
                elif m not in want and m in have:
                    bad.append(('C12', i, dict(sig, component='track-set', kind='phantom'),
                                f'step {i}: MMSI {m} has a track although it was removed or never seen'))
                elif m in want:
                    lu, at = want[m]
                    if have[m][1] != lu:
                        bad.append(('C12', i, dict(sig, component='last_updated', kind='wrong-value'),
                                    f'step {i}: MMSI {m} last_updated = {have[m][1]}/4 s, last accepted update was at {lu}/4 s'))
                    for n, x, y in zip(e.attrs, have[m][2], at):
                        if x != y:
                            bad.append(('C12', i, dict(sig, component=n, kind='wrong-value'),
                                        f'step {i}: MMSI {m} attribute {n} = {e.show(x)}, most recent accepted message '
                                        f'carrying it had {e.show(y)}'))
                            break
            extra = [m for m in have if m not in ms]
            if extra:
                bad.append(('C12', i, dict(sig, component='track-set', kind='phantom'), f'step {i}: tracks of unseen MMSIs {extra}'))
        # ---- C13
        if k in ('U', 'C') and a['exn'] is None:
            dels = [tr for ev, tr in a['events'] if ev == 'd']
            if cur_ttl is None:
                gone = [m for m in {tr[0] for tr in prev_tracks} if m not in keys]
                if dels or gone:
                    bad.append(('C13', i, dict(sig, component='expiry', kind='expired-without-ttl'),
                                f'step {i}: ttl None but tracks {sorted(set(gone) | {t[0] for t in dels})} were removed'))
            elif ('ttl', i) in ans:
                if ans[('ttl', i)] != '1':
                    T, now = cur_ttl, op[1]
                    stale = [tr[0] for tr in a['tracks'] if now - tr[1] >= T]
                    fresh = [tr[0] for tr in dels if now - tr[1] < T]
                    if stale:
                        bad.append(('C13', i, dict(sig, component='expiry', kind='not-expired'),
                                    f'step {i}: after {sig["entry"]}() at t={now}/4 s with ttl {T}/4 s the tracks {stale} remain '
                                    f'although their age has reached the ttl: '
                                    + ', '.join(f'{tr[0]}: age {now - tr[1]}/4 s' for tr in a['tracks'] if tr[0] in stale)))
                    if fresh:
                        bad.append(('C13', i, dict(sig, component='expiry', kind='wrongly-expired'),
                                    f'step {i}: at t={now}/4 s with ttl {T}/4 s expiry removed {fresh} whose age is below the ttl'))
                    if not stale and not fresh:
                        bad.append(('C13', i, dict(sig, component='expiry', kind='spec-disagrees'), f'step {i}: sp_ttl_okb = false'))
                # a track that vanished without a DELETED event is judged by its last known timestamp
                T, now = cur_ttl, op[1]
                tgt = e.build(op[2])[1] if k == 'U' else None
                for tr in prev_tracks:
                    if tr[0] not in keys and tr[0] not in {d[0] for d in dels} and tr[0] != tgt and now - tr[1] < T:
                        bad.append(('C13', i, dict(sig, component='expiry', kind='wrongly-expired'),
                                    f'step {i}: track {tr[0]} (age {now - tr[1]}/4 s < ttl {T}/4 s) vanished'))
        # ---- C15
        if k in ('U', 'C', 'P', 'I'):
            got = per_mmsi(a['events'])
            for m in ms:
                exp = ans.get(('expected', i, m), '_')       # not asked: nothing owed (oracle_lines, many vessels)
                g = ''.join(ev for ev, _ in got.get(m, [])) or '_'
                if g != exp:
                    bad.append(('C15', i, dict(sig, component='events', kind=f'expected:{exp}:got:{g}'),
                                f'step {i}: {sig["entry"]} delivered events "{g}" for MMSI {m}, the life cycle demands "{exp}" '
                                f'(c=CREATED u=UPDATED d=DELETED, _ = none)'))
                al = ans.get(('alive', i, m))
                tracked = m in keys
                if al is None:
                    pass
                elif al == 'N':
                    bad.append(('C15', i, dict(sig, component='trace', kind='outside-language'),
                                f'step {i}: the events of MMSI {m} so far are not in (CREATED UPDATED* DELETED)*'))
                elif (al == '1') != tracked:
                    bad.append(('C15', i, dict(sig, component='alive-vs-tracked', kind='mismatch'),
                                f'step {i}: MMSI {m} is {"" if tracked else "not "}tracked but its events say '
                                f'{"alive" if al == "1" else "dead"}'))
            for ev, tr in a['events']:
                if tr[0] not in ms:
                    bad.append(('C15', i, dict(sig, component='events', kind='foreign-mmsi'), f'step {i}: event for unseen MMSI {tr[0]}'))
            # To whom (Props/C15.v C15_deliveries): every event of this operation reaches every subscriber that is
            # registered for it at this moment -- in registration order up to the first one that raises, so a
            # subscriber behind a raising one is owed nothing -- and no subscriber that was removed (or never
            # registered).  The events are those the monitors saw (they are registered first, for all three events).
            # Not judged from the first double registration of a pair on (the property does not say what that means).
            if subs_ok and mon_all:
                owed, allowed = [], set(subs)
                for ev, tr in a['events']:
                    for e2, cb in subs:
                        if e2 != ev:
                            continue
                        owed.append((cb, ev, tr))
                        if raises(cb, ev, tr[0]):
                            break
                have = list(a['deliv'])
                for d in owed:
                    if d in have:
                        have.remove(d)
                    else:
                        bad.append(('C15', i, dict(sig, component='deliveries', kind='registered-subscriber-not-called'),
                                    f'step {i}: {sig["entry"]} emitted {d[1]} for MMSI {d[2][0]}, but callback {d[0]}, registered for '
                                    f'"{d[1]}" at that moment (registered, removed and registered again counts as registered), '
                                    f'was not called'))
                        break
                for d in a['deliv']:
                    if (d[1], d[0]) not in allowed:
                        bad.append(('C15', i, dict(sig, component='deliveries', kind='removed-subscriber-called'),
                                    f'step {i}: callback {d[0]} was called for "{d[1]}" (MMSI {d[2][0]}) although it is not registered '
                                    f'for that event at that moment'))
                        break
        if k == 'A':
            if (op[1], op[2]) in subs:
                subs_ok = False                   # the same pair twice: from here on the deliveries are not judged
            subs.append((op[1], op[2]))
        elif k == 'D' and (op[1], op[2]) in subs:
            subs.remove((op[1], op[2]))
        prev_tracks, prev_oldest = a['tracks'], a['oldest']
    # ---- C14
    for i, (op, a) in enumerate(zip(h['ops'], impl)):
        if op[0] == 'L' and op[1] >= 0:
            md = cfgs[i][2]
            sig = {'entry': 'n_latest_tracks', 'mode': md}
            if a['exn'] is not None:
                bad.append(('C14', i, dict(sig, component='exception', kind=f'exception:{a["exn"]}'),
                            f'step {i}: n_latest_tracks({op[1]}) raised {a["exn"]}'))
                continue
            top, newest = ans[('topn', i)].split()
            if top != '1':
                bad.append(('C14', i, dict(sig, component='selection', kind='not-top-n'),
                            f'step {i}: n_latest_tracks({op[1]}) = {[(t[0], t[1]) for t in a["q"]]} (mmsi, last_updated/4 s) is not '
                            f'min(n, |tracks|) distinct most recently updated tracks of {[(t[0], t[1]) for t in a["tracks"]]}'))
            elif not cfgs[i][1] and newest != '1':
                bad.append(('C14', i, dict(sig, component='order', kind='not-newest-first'),
                            f'step {i}: n_latest_tracks({op[1]}) = {[(t[0], t[1]) for t in a["q"]]} is not sorted newest first'))
    return bad


# ------------------------------------------------------------------------------------------------ driver
def features(h, impl):
    """What happened in this history (for the measured input distribution)."""
    f = set()
    cfg = h['cfg']
    prev = []
    cfgs = configs(h)
    for i, (op, a) in enumerate(zip(h['ops'], impl)):
        k = op[0]
        cur_ttl, cur_ordered = cfgs[i][0], cfgs[i][1]
        if k == 'T':
            f.add('cfg:ttl-assigned')
            if op[1] is not None and (cur_ttl is None or op[1] < cur_ttl):
                f.add('cfg:ttl-shortened')
                if any(isinstance(tr[1], int) and isinstance(a['oldest'], int) for tr in prev):
                    f.add('cfg:ttl-shortened-with-tracks')
        if k == 'M' and cur_ordered:
            f.add('cfg:switched-to-unordered')
        if k == 'U' and cfgs[i][2] == 'switched-to-unordered' and accepted(a) and op[3] is not None \
                and any(isinstance(tr[1], int) and op[3] < tr[1] for tr in prev):
            f.add('cfg:older-timestamp-accepted-after-switch')
        if k == 'I':
            f.add('public:insert_or_update')
            if cur_ordered:
                f.add('public:insert_or_update-ordered')
        if k == 'U':
            f.add('update')
            f.add('class:' + env().build(op[2])[3])
            f.add('ts:default' if op[3] is None else 'ts:explicit')
            if not accepted(a):
                f.add('rejected')
            m = env().build(op[2])[1]
            for tr in prev:
                if tr[0] == m and op[3] is not None and tr[1] == op[3]:
                    f.add('ts-equals-own-track')
                if tr[0] != m and op[3] is not None and tr[1] == op[3]:
                    f.add('ts-equals-other-track')
            if accepted(a) and m in {t[0] for t in prev}:
                f.add('merge')
            if any(ev == 'c' for ev, _ in a['events']) and any(ev == 'd' and tr[0] == m for ev, tr in a['events']):
                f.add('created-and-expired-at-once')
        if k in ('U', 'C') and cur_ttl is not None and a['exn'] is None:
            now, T = op[1], cur_ttl
            if any(ev == 'd' for ev, _ in a['events']):
                f.add('expiry')
            if sum(1 for ev, _ in a['events'] if ev == 'd') > 64:
                f.add('expiry:more-than-64-at-once')
            ages = [now - tr[1] for tr in (prev if k == 'C' else a['tracks'] + [t for e2, t in a['events'] if e2 == 'd'])
                    if isinstance(tr[1], int)]
            if T in ages:
                f.add('age==ttl')
            if T - 1 in ages:
                f.add('age==ttl-1')
            if T + 1 in ages:
                f.add('age==ttl+1')
            if not cur_ordered:
                # a stale track inserted before a fresher one (the scan order matters)
                seq = [now - tr[1] >= T for tr in prev if isinstance(tr[1], int)]
                if True in seq and False in seq:
                    f.add('stale-and-fresh-mixed')
        if k == 'P':
            f.add('pop:hit' if (a.get('ret') or a.get('raised')) else 'pop:miss')
        if k == 'C':
            f.add('cleanup')
        if k == 'L':
            n, ln = op[1], len(a['tracks'])
            f.add('n==0' if n == 0 else 'n==len' if n == ln else 'n>len' if n > ln else 'n<len')
            lus = [tr[1] for tr in a['tracks']]
            if len(set(lus)) < len(lus):
                f.add('n_latest:ties')
        if k not in ('L', 'G'):
            if prev and not a['tracks']:
                f.add('emptied')
            prev = a['tracks']
    if any(op[0] in ('A', 'D') and op[2] < 100 for op in h['ops']):
        f.add('broker-ops')
    # a pair that was registered, removed and registered again, and an event of its kind afterwards
    state = {}
    for op, a in zip(h['ops'], impl):
        if op[0] == 'A':
            pr = (op[1], op[2])
            state[pr] = 're' if state.get(pr) in ('off', 're') else 'on'
        elif op[0] == 'D' and state.get((op[1], op[2])) in ('on', 're'):
            state[(op[1], op[2])] = 'off'
        elif op[0] in ('U', 'C', 'P', 'I') and any(v == 're' and any(ev == pr[0] for ev, _ in a['events']) for pr, v in state.items()):
            f.add('broker:event-after-re-registration')
    return f


def cb_features(h, model):
    """What the raising subscribers of this history do -- measured on the MODEL's run (the reference behaviour), so that
    the generator self-check does not depend on how a changed implementation treats exceptions."""
    f = set()
    cfg = h['cfg']
    rules = [tuple(r) for r in cfg.get('beh') or []]
    if not rules:
        return f

    def behaviour(cb, ev, mmsi):
        for c, e2, m, x in rules:
            if c == cb and e2 == ev and (m is None or m == mmsi):
                return x
        return None
    subs = []                      # the subscriber list, as register_callback / remove_callback build it
    cfgs = configs(h)
    for i, (op, b) in enumerate(zip(h['ops'], model)):
        k = op[0]
        if k == 'A':
            subs.append((op[1], op[2]))
        elif k == 'D' and (op[1], op[2]) in subs:
            subs.remove((op[1], op[2]))
        if k not in ('U', 'C', 'P', 'I'):
            continue
        raised = [(cb, ev, tr[0], behaviour(cb, ev, tr[0])) for cb, ev, tr in b['deliv'] if behaviour(cb, ev, tr[0])]
        escaped = b['exn'] is not None and bool(b['calls'])        # Props/C15.v C15_exception_origin
        for cb, ev, m_, x in raised:
            if (ev, cb) in subs and any(e2 == ev for e2, _ in subs[subs.index((ev, cb)) + 1:]):
                f.add('cb:subscriber-loop-truncated')
            if ev == 'd' and x == 'KeyError':
                f.add('cb:keyerror-swallowed')
                if k in ('U', 'C'):
                    f.add('cb:expiry-with-keyerror-subscriber')
            f.add({'c': 'cb:created-subscriber-raises', 'u': 'cb:updated-subscriber-raises', 'd': 'cb:deleted-subscriber-raises'}[ev])
        if k == 'P' and raised:
            f.add('cb:pop-with-raising-subscriber')
        if escaped:
            f.add('cb:exception-escaped')
            if k in ('U', 'C') and any(ev == 'd' for _, ev, _, _ in raised):
                f.add('cb:cleanup-aborted')
                if cfgs[i][0] is not None and any(op[1] - tr[1] >= cfgs[i][0] for tr in b['tracks']):
                    f.add('cb:cleanup-aborted-leaving-expired')
        if k in ('U', 'C') and b['exn'] is None and any(ev == 'd' for _, ev, _, _ in raised) \
                and sum(1 for ev, _ in b['calls'] if ev == 'd') >= 2:
            f.add('cb:several-expired-one-raises')
    return f


def check_histories(ctx, prop, hs, queries_only_for=('C14',), sample_every=401, want_features=True):
    """Runs every history on the implementation and on the model, compares, evaluates the four oracles on the
    implementation's outputs.  Violations of `prop` are reported; a model/implementation difference is reported as a
    disagreement unless another tracker property's oracle already failed in that history at or before the differing
    step (then the difference is that property's defect and its own check reports it)."""
    rep = ctx.rep
    e = env()
    for p in e.problems[:3]:
        rep.disagree('H-tracker-reflection', {}, 'modelled attribute structure', p)
    e.problems.clear()
    chunk = 96
    shrunk = getattr(ctx, '_shrunk', None)
    if shrunk is None:
        shrunk = set()
        try:
            ctx._shrunk = shrunk
        except Exception:
            pass
    for c0 in range(0, len(hs), chunk):
        part = hs[c0:c0 + chunk]
        impls = [run_impl(h) for h in part]
        mlines = [model_line(h, a) for h, a in zip(part, impls)]
        ol = [oracle_lines(h, a) for h, a in zip(part, impls)]
        if ctx.model is None:
            for h in part:
                rep.case(json.dumps(h, sort_keys=True), kind='no-model')
            continue
        mrep = ask_sized(ctx.model, mlines)
        flat = [ln for lines, _ in ol for ln in lines]
        orep = ask_sized(ctx.model, flat)
        pos = 0
        for h, a, mr, (lines, index) in zip(part, impls, mrep, ol):
            replies = orep[pos:pos + len(lines)]
            pos += len(lines)
            rep.case(json.dumps(h, sort_keys=True), kind=f"{mode(h)}/{'ttl' if h['cfg']['ttl_q'] is not None else 'no-ttl'}")
            if want_features:
                rep.count('featured-histories')
                for ft in features(h, a):
                    rep.count(ft)
            rep.count('ops', len(h['ops']))
            bad = evaluate(h, a, lines, index, replies)
            if prop == 'C15' and a and a[-1].get('foreign'):
                # C15: "the events delivered for one MMSI" are those of ITS tracker; subscribers of a tracker that is no
                # longer in use were reached by this tracker's events (state shared between tracker objects)
                fsig = {'entry': 'register_callback', 'mode': mode(h), 'component': 'subscribers',
                        'kind': 'delivered-to-another-tracker'}
                rep.violation(fsig, f'{a[-1]["foreign"]} events of this tracker were delivered to callbacks registered with a '
                                    f'different AISTracker object (created earlier in the same process) -- history: ' + short(h),
                              {'history': h, 'previous': a[-1].get('previous'), 'step': len(h['ops']) - 1, 'signature': fsig})
            model = parse_model(mr, h)
            if want_features:
                for ft in cb_features(h, model):
                    rep.count(ft)
            diff = compare(h, a, model, with_cache=prop in ('C13', 'C14'))
            own = [b for b in bad if b[0] == prop]
            others = [b for b in bad if b[0] != prop]
            seen = set()
            for p_, step, sig, text in own:
                key = json.dumps(sig, sort_keys=True)
                if key in seen:
                    continue
                seen.add(key)
                h2 = h
                if key not in shrunk and len(shrunk) < 6:
                    shrunk.add(key)
                    h2, step, text = shrink(ctx.model, prop, h, step, sig, text)
                cf = configs(h2)[step] if 0 <= step < len(h2['ops']) else (h2['cfg']['ttl_q'], h2['cfg']['ordered'], mode(h2))
                rep.violation(sig, f'[{cf[2]}, ttl {cf[0]}/4 s] ' + text + ' -- history: ' + short(h2),
                              {'history': h2, 'step': step, 'signature': sig})
            if diff is not None:
                step, comp, mv, iv = diff
                excused = [b for b in others if b[1] <= step]
                if excused:
                    rep.count(f'difference-explained-by-{excused[0][0]}-violation')
                else:
                    rep.disagree('H-tracker', {'history': h, 'step': step, 'component': comp}, mv, iv)
            if sample_every and rep.evaluations % sample_every == 1:
                rep.sample({'cfg': h['cfg'], 'ops': [short_op(op) for op in h['ops']][:14],
                            'final_tracks': [(t[0], t[1]) for t in a[-1]['tracks']] if a else [],
                            'events': [[ev + str(tr[0]) for ev, tr in x['events']] for x in a][:14]})


def violations_of(model, prop, h):
    impl = run_impl(h)
    lines, index = oracle_lines(h, impl)
    replies = ask_sized(model, lines)
    return [b for b in evaluate(h, impl, lines, index, replies) if b[0] == prop]


def shrink(model, prop, h, step, sig, text):
    """Greedy minimisation of a violating history: cut what follows the violating step, then drop single
    operations, as long as a violation with the same signature remains."""
    def still(hh):
        try:
            for b in violations_of(model, prop, hh):
                if b[2] == sig:
                    return b
        except Exception:
            return None
        return None
    best = (h, step, text)
    cut = {'cfg': h['cfg'], 'ops': h['ops'][:step + 1]}
    b = still(cut)
    if b:
        best = (cut, b[1], b[3])
    changed = True
    rounds = 0
    while changed and rounds < 4:
        changed = False
        rounds += 1
        i = len(best[0]['ops']) - 1
        while i >= 0:
            ops = best[0]['ops']
            if not (ops[i][0] == 'A' and ops[i][2] >= 100):
                cand = {'cfg': h['cfg'], 'ops': ops[:i] + ops[i + 1:]}
                b = still(cand)
                if b:
                    best = (cand, b[1], b[3])
                    changed = True
            i -= 1
    return best


def short_op(op):
    if op[0] == 'U':
        e = env()
        _, mmsi, _, cls = e.build(op[2])
        return f"t={op[1]}:update({cls}#{mmsi}{'' if op[3] is None else ', ts=' + str(op[3])})"
    if op[0] == 'I':
        e = env()
        _, mmsi, _, cls = e.build(op[2])
        return f"t={op[1]}:insert_or_update({cls}#{mmsi}{'' if op[3] is None else ', ts=' + str(op[3])})"
    if op[0] == 'C':
        return f't={op[1]}:cleanup()'
    if op[0] == 'P':
        return f'pop_track({op[1]!r})'
    if op[0] == 'L':
        return f'n_latest_tracks({op[1]})'
    if op[0] == 'G':
        return f'get_track({op[1]!r})'
    if op[0] == 'T':
        return f'ttl_in_seconds={op[1]}' + ('' if op[1] is None else '/4 s')
    if op[0] == 'M':
        return 'stream_is_ordered=False'
    return f"{'register' if op[0] == 'A' else 'remove'}_callback({op[1]},{op[2]})"


def short(h):
    return '; '.join(short_op(op) for op in h['ops'] if not (op[0] == 'A' and op[2] >= 100))


# ------------------------------------------------------------------------------------------------ generators
def gen_behaviour(rng, ms):
    """Subscribers that raise: -> (register_callback operations, rules).  Mostly DELETED subscribers raising KeyError
    (which pop_track swallows), for every track or for one MMSI only (a registry that lacks that vessel), some raising
    other classes (these escape), some CREATED/UPDATED subscribers."""
    attach, rules = [], []
    for cb in rng.sample(RAISERS, rng.choice([1, 1, 2, 3])):
        ev = rng.choice('dddddcu')
        attach.append(['A', ev, cb])
        if rng.random() < 0.15 and ev != 'd':
            attach.append(['A', 'd', cb])
        for ev2 in {a[1] for a in attach if a[2] == cb}:
            if rng.random() < 0.85:
                m = rng.choice([None, None] + ms[:3])
                if ev2 == 'd':
                    x = 'KeyError' if rng.random() < 0.7 else rng.choice(['ValueError', 'IndexError', 'ZeroDivisionError'])
                else:
                    x = rng.choice(['KeyError', 'KeyError', 'ValueError', 'IndexError', 'TypeError'])
                rules.append([cb, ev2, m, x])
                if m is not None and rng.random() < 0.3:      # a second rule behind the first: another MMSI, another class
                    rules.append([cb, ev2, None if rng.random() < 0.3 else rng.choice(ms), rng.choice(list(RAISABLE))])
    return attach, rules


def gen_history(rng, kind='mixed', with_queries=False, n_ops=None, raising=False, config=False):
    """A random history: 1-6 MMSIs, real messages of many classes (plus stubs), explicit / default / equal /
    out-of-order timestamps, ttl None or small, both modes, ages around the ttl.  raising: some subscribers raise.
    config: the history assigns new TTLs (shorter, longer, None) and may switch an ordered tracker to unordered."""
    ordered = rng.random() < (0.7 if config else 0.5)
    ttl_q = rng.choice([None, None, 4, 8, 8, 12, 20, 6, 0])
    if kind == 'ttl' and ttl_q is None:
        ttl_q = rng.choice([4, 8, 12])
    base = rng.choice(BASES)
    ms = rng.sample(MMSIS, rng.choice([1, 2, 2, 3, 3, 4, 6]))
    now = rng.choice([0, 4, 40])
    ops = [list(o) for o in MON_OPS]
    if kind == 'broker':
        rng.shuffle(ops)
    rules, raisers = [], []
    if raising:
        if ttl_q is None and rng.random() < 0.7:
            ttl_q = rng.choice([4, 8, 12])
        raisers, rules = gen_behaviour(rng, ms)
        ops.extend(raisers)           # after the monitors: the monitors see every event (C15 is judged on them)
    lus = {}            # the generator's own idea of the timestamps (only used to aim at boundaries)
    pools = {m: [real_message(rng, m) for _ in range(3)] + [stub_message(rng, m)] for m in ms}
    n_ops = n_ops or rng.choice([4, 8, 12, 20, 30])
    T = ttl_q if ttl_q is not None else 8
    ordered0, ttl0 = ordered, ttl_q
    hi = now                       # the latest timestamp this generator has handed to the tracker so far
    rereg = {}                     # kind 'broker': pairs (ev, cb 10/11) that are registered, removed, registered again ...
    if kind == 'broker' and rng.random() < 0.5:
        pair = (rng.choice('cud'), rng.choice([10, 11]))     # right away: registered, removed, registered again
        ops.extend([['A', pair[0], pair[1]], ['D', pair[0], pair[1]], ['A', pair[0], pair[1]]])
        rereg[pair] = True
    for _ in range(n_ops):
        if config and rng.random() < 0.14:
            if ordered and rng.random() < 0.35:
                ops.append(['M'])                      # from here on timestamps may go back
                ordered = False
                if lus and rng.random() < 0.8:         # ... and one does right away: older than the newest track
                    fresh = [m for m in ms if m not in lus]
                    m = rng.choice(fresh) if fresh else min(lus, key=lambda k: lus[k])
                    ts = max(lus.values()) - rng.choice([1, 2, 4]) if fresh else lus[m]
                    ops.append(['U', now, rng.choice(pools[m]), ts])
                    lus[m] = max(ts, lus.get(m, ts))
                    hi = max(hi, ts)
            else:
                new = rng.choice([None, 0, 2, 4, 4, 6, 8, 12, 20, 40, max(T - 4, 1), T + 4])
                ops.append(['T', new])
                T = new if new is not None else 8
                if rng.random() < 0.6:
                    ops.append(['C', now])             # the same instant under the new TTL
        if kind == 'broker' and rng.random() < 0.12:
            pair = (rng.choice('cud'), rng.choice([10, 11]))
            ops.append(['D' if rereg.get(pair) else 'A', pair[0], pair[1]])
            rereg[pair] = not rereg.get(pair)
        r = rng.random()
        if r < 0.25:                                   # clock advance, often to an age boundary of some track
            if lus and rng.random() < 0.6:
                lu = rng.choice(list(lus.values()))
                now = max(now, lu + T + rng.choice([-1, 0, 0, 1]))
            else:
                now += rng.choice([0, 1, 2, 4, T - 1, T, T + 1])
            if rng.random() < 0.02:
                now -= 1                               # a clock that steps back
        r = rng.random()
        if r < 0.62:
            m = rng.choice(ms)
            msg = rng.choice(pools[m]) if rng.random() < 0.8 else (
                real_message(rng, m) if rng.random() < 0.7 else stub_message(rng, m))
            x = rng.random()
            latest = max(lus.values()) if lus else now
            if x < 0.3:
                ts = None
            elif x < 0.45:
                ts = lus.get(m, now)                    # equal to the track's own timestamp
            elif x < 0.6:
                ts = rng.choice(list(lus.values())) if lus else now        # equal to some track's timestamp
            elif x < 0.75:
                ts = (latest if ordered else now) + rng.choice([0, 1, 2, 4])
            elif x < 0.8:
                ts = now - T + rng.choice([-1, 0, 1])   # born at the edge of expiry
            elif x < 0.85:
                ts = now + rng.choice([1, T - 1, T, T + 1, 2 * T])     # stamped ahead of the clock (a feeder whose clock runs fast)
            else:
                ts = lus.get(m, now) + rng.choice([-4, -1, 1, 3])
            if config and rng.random() < 0.3:
                # through the public insert_or_update(): no ordered-stream check there, so in ordered mode the caller (this
                # generator) hands it only timestamps that are not older than anything it has ever stamped
                if ordered and (now if ts is None else ts) < hi:
                    ts = hi + rng.choice([0, 0, 1, 2])
                ops.append(['I', now, msg, ts])
            else:
                ops.append(['U', now, msg, ts])
            t_eff = now if ts is None else ts
            hi = max(hi, t_eff)
            if m not in lus or t_eff >= lus[m]:
                lus[m] = t_eff
        elif r < 0.74:
            ops.append(['C', now])
        elif r < 0.86:
            m = rng.choice(ms + [4242])
            ops.append(['P', str(m) if rng.random() < 0.2 else m])
            lus.pop(m, None)
        elif r < 0.92:
            ops.append(['G', rng.choice(ms + [4242])])
        elif kind == 'broker':
            ops.append([rng.choice('AAD'), rng.choice('cud'), rng.choice([0, 1, 2, 0])])
        elif raisers and rng.random() < 0.5:
            a = rng.choice(raisers)                      # a raising subscriber leaves / comes back
            ops.append([rng.choice('DDA'), a[1], a[2]])
        else:
            ops.append(['C', now])
        if with_queries and rng.random() < 0.5:
            k = len(lus)
            for n in {0, k, k + 1, rng.randrange(0, k + 2), max(k - 1, 0), 1}:
                ops.append(['L', n])
    if with_queries:
        for n in range(0, len(ms) + 2):
            ops.append(['L', n])
        if rng.random() < 0.3:
            ops.append(['L', rng.choice([2 ** 31, 2 ** 63 - 1, 2 ** 63, 2 ** 64, 10 ** 30])])      # "to beyond the number of tracks"
    cfg = {'ordered': ordered0, 'ttl_q': ttl0, 'base': base}
    if rules:
        cfg['beh'] = rules
    if rng.random() < 0.2:
        cfg['q'] = 4096      # the same history on a 1/4096 s grid: timestamps a fraction of a millisecond apart (a tolerance
        #                      in a comparison, a rounding of timestamps or a coarser clock only shows on such gaps)
    return {'cfg': cfg, 'ops': ops}


def directed_histories(rng):
    """Hand-aimed histories: the situations DESIGN.md section 5 lists for H-tracker."""
    hs = []
    A, B, C = MMSIS[0], MMSIS[1], MMSIS[2]
    for ordered in (False, True):
        for base in BASES:
            mk = lambda ops, ttl: {'cfg': {'ordered': ordered, 'ttl_q': ttl, 'base': base}, 'ops': [list(o) for o in MON_OPS] + ops}
            ra, rb, rc = real_message(rng, A, 1), real_message(rng, B, 5), real_message(rng, C, 18)
            # ages exactly ttl and one tick either side, stale and fresh tracks in every relative order
            for d in (-1, 0, 1):
                for order in itertools.permutations([(ra, 0), (rb, 4), (rc, 8)]):
                    ops = [['U', 8, m, ts] for m, ts in order]
                    if ordered:
                        ops = sorted(ops, key=lambda o: o[3])
                    hs.append(mk(ops + [['C', 12 + d], ['C', 16 + d], ['U', 16 + d, ra, None], ['C', 40]], 12))
            # equal timestamps on different MMSIs; an update equal to the track's own timestamp; older one rejected
            hs.append(mk([['U', 0, ra, 4], ['U', 0, rb, 4], ['U', 0, ra, 4], ['U', 0, ra, 3], ['U', 0, rb, 5],
                          ['U', 0, ra, 4], ['P', A], ['U', 0, ra, 1], ['C', 100]], 40))
            # falsy-but-present and None-valued attributes through stubs, merge over several classes
            e = env()
            full = {n: v for n, v in zip(e.attrs, itertools.cycle([0, 0.0, '', False]))}
            hs.append(mk([['U', 0, stub_message(rng, A, {n: 'set' for n in e.attrs}), 0],
                          ['U', 1, stub_message(rng, A, full), 1],
                          ['U', 2, stub_message(rng, A, {n: None for n in e.attrs}), 2],
                          ['U', 3, real_message(rng, A, 1), 3], ['U', 4, real_message(rng, A, 5), 4],
                          ['U', 5, real_message(rng, A, '24A'), 5], ['U', 6, real_message(rng, A, '24B'), 6],
                          ['U', 7, real_message(rng, A, 27), 7], ['U', 8, stub_message(rng, A, {}), 8], ['G', A]], None))
            # a track that is created already expired; re-creation after expiry and after pop
            hs.append(mk([['U', 100, ra, 0], ['U', 100, ra, None], ['C', 200], ['U', 200, ra, 199], ['P', A], ['P', A],
                          ['U', 200, ra, 200]], 8))
    return hs


def directed_raising(rng):
    """Hand-aimed histories with subscribers that raise (both modes, two clock bases):
    an expired track + a DELETED subscriber raising KeyError (for every track / only for the vessel its registry lacks);
    several expired tracks and a subscriber that raises for one of them (KeyError: swallowed, the others still expire;
    another class: cleanup() is left in the middle, then called again); explicit pop_track with a raising subscriber;
    CREATED / UPDATED subscribers that raise; a second subscriber behind the raising one; the raising subscriber removed."""
    hs = []
    A, B, C = MMSIS[0], MMSIS[1], MMSIS[2]
    for ordered in (False, True):
        for base in BASES:
            ra, rb, rc = real_message(rng, A, 1), real_message(rng, B, 5), real_message(rng, C, 18)

            def mk(ops, beh, ttl=12, subs=None):
                subs = subs if subs is not None else sorted({(r[1], r[0]) for r in beh})
                return {'cfg': {'ordered': ordered, 'ttl_q': ttl, 'base': base, 'beh': [list(r) for r in beh]},
                        'ops': [list(o) for o in MON_OPS] + [['A', ev, cb] for ev, cb in subs] + ops}
            for x in ('KeyError', 'ValueError', 'IndexError'):
                for who in (None, A):
                    # one expired track, found by the update() of a fresh vessel and again by cleanup()
                    hs.append(mk([['U', 0, ra, 0], ['U', 13, rb, 13], ['C', 13], ['C', 14], ['U', 30, rc, None], ['C', 60]],
                                 [[7, 'd', who, x]]))
                    # three tracks, all expired at once; then one by one (ages ttl-1, ttl, ttl+1 around the calls)
                    for victim in (A, B, C):
                        hs.append(mk([['U', 2, ra, 0], ['U', 2, rb, 1], ['U', 2, rc, 2], ['C', 11], ['C', 12], ['C', 13],
                                      ['C', 14], ['C', 14], ['U', 40, ra, None], ['C', 52], ['C', 52]], [[7, 'd', victim, x]]))
                        hs.append(mk([['U', 2, ra, 0], ['U', 2, rb, 1], ['U', 2, rc, 2], ['C', 30], ['C', 30], ['C', 31],
                                      ['U', 31, rb, None], ['C', 43]], [[7, 'd', victim, x]]))
                    # explicit pop_track: hit, hit again (absent now), another vessel, numeric string
                    hs.append(mk([['U', 0, ra, 0], ['U', 0, rb, 1], ['P', A], ['P', A], ['P', str(B)], ['P', C], ['U', 1, ra, 1],
                                  ['P', A], ['C', 40]], [[7, 'd', who, x]], ttl=None if x == 'IndexError' else 12))
                    # CREATED / UPDATED subscribers that raise: the table is changed, update() raises, cleanup() is skipped
                    hs.append(mk([['U', 0, ra, 0], ['U', 1, ra, 1], ['U', 1, rb, 1], ['U', 2, ra, None], ['C', 13], ['C', 14],
                                  ['U', 14, rc, None], ['U', 20, rb, 2], ['C', 40]], [[7, 'c', who, x], [8, 'u', who, x]]))
                    hs.append(mk([['U', 0, rb, 4], ['U', 0, ra, 0], ['C', 15], ['C', 16], ['U', 16, rc, 16], ['C', 30]],
                                 [[7, 'c', who, x]]))
                # a second DELETED subscriber behind the raising one never hears of the track; in front of it, it does
                hs.append(mk([['U', 0, ra, 0], ['U', 0, rb, 0], ['C', 12], ['U', 12, ra, 12], ['P', A]],
                             [[7, 'd', None, x]], subs=[('d', 8), ('d', 7), ('d', 6), ('c', 7)]))
                # the raising subscriber is removed: everything is delivered again
                hs.append(mk([['U', 0, ra, 0], ['U', 0, rb, 0], ['C', 12], ['D', 'd', 7], ['U', 13, ra, 13], ['U', 13, rb, 13],
                              ['C', 25], ['A', 'd', 7], ['U', 26, rc, 26], ['P', C]], [[7, 'd', None, x]]))
    return hs


def directed_config(rng):
    """Hand-aimed histories in which the configuration changes: a new TTL (shorter: tracks that were fresh are due at
    once, also when an earlier cleanup() found nothing due; longer; None; back) and an ordered tracker switched to
    unordered (an older timestamp, rejected before the switch, is accepted after it and the table is no longer sorted)."""
    hs = []
    A, B, C, D = MMSIS[0], MMSIS[1], MMSIS[2], MMSIS[3]
    for ordered in (False, True):
        for base in BASES:
            ra, rb, rc, rd = real_message(rng, A, 1), real_message(rng, B, 5), real_message(rng, C, 18), real_message(rng, D, 27)
            mk = lambda ops, ttl: {'cfg': {'ordered': ordered, 'ttl_q': ttl, 'base': base}, 'ops': [list(o) for o in MON_OPS] + ops}
            for early in (True, False):       # an earlier cleanup()/update() at which nothing was due, or none
                pre = [['C', 8], ['C', 8]] if early else []
                hs.append(mk([['U', 0, ra, 0], ['U', 4, rb, 4]] + pre + [['T', 12], ['C', 13], ['C', 13], ['U', 14, rc, None],
                              ['T', 4], ['C', 14], ['C', 18], ['T', None], ['C', 400], ['U', 400, ra, None], ['T', 8], ['C', 407],
                              ['C', 408]], 160))
                hs.append(mk([['U', 0, ra, 0], ['U', 0, rb, 0]] + pre + [['T', 8], ['U', 8, rc, 8], ['T', 4], ['U', 12, rb, 12]], 40))
            # longer: what was about to expire stays; ttl 0: everything goes at once
            hs.append(mk([['U', 0, ra, 0], ['U', 2, rb, 2], ['C', 3], ['T', 40], ['C', 4], ['C', 39], ['C', 40], ['T', 0],
                          ['U', 41, rc, 41], ['C', 41]], 4))
            hs.append(mk([['U', 0, ra, 0], ['T', 12], ['C', 11], ['C', 12], ['U', 12, ra, 12], ['T', None], ['C', 99], ['T', 12],
                          ['C', 23], ['C', 24]], None))
            # switch to unordered (in an unordered tracker the assignment changes nothing)
            hs.append(mk([['U', 0, ra, 8], ['U', 0, rb, 12], ['U', 0, rc, 4], ['M'], ['U', 0, rc, 4], ['U', 0, rd, 1], ['U', 0, ra, 9],
                          ['U', 0, rb, 11], ['C', 16], ['C', 20], ['P', B], ['U', 21, rb, 2]], 12))
            hs.append(mk([['U', 0, ra, 8], ['M'], ['U', 0, rb, 0], ['U', 0, rc, 4], ['U', 0, rd, 12], ['M'], ['U', 0, ra, 8]], None))
            hs.append(mk([['M'], ['U', 0, ra, 8], ['U', 0, rb, 0], ['T', 4], ['C', 8], ['C', 12]], None))
    return hs


def directed_public(rng):
    """The public method below update(): insert_or_update(mmsi, msg_to_track(decoded, ts)).  Unordered: any timestamps
    (older than its own track: rejected; older than others: accepted), no expiry until the next cleanup()/update().
    Ordered: non-decreasing timestamps only (the route has no check); an update through it moves the track to the end."""
    hs = []
    A, B, C = MMSIS[0], MMSIS[1], MMSIS[2]
    for ordered in (False, True):
        ra, rb, rc = real_message(rng, A, 1), real_message(rng, B, 5), real_message(rng, C, 18)
        mk = lambda ops, ttl: {'cfg': {'ordered': ordered, 'ttl_q': ttl, 'base': 0}, 'ops': [list(o) for o in MON_OPS] + ops}
        hs.append(mk([['I', 0, ra, 1], ['I', 0, rb, 2], ['I', 0, ra, 3], ['I', 0, rc, 3], ['I', 0, rb, 4], ['I', 0, ra, 4],
                      ['U', 0, rc, 5], ['I', 0, rb, 5], ['P', A], ['I', 0, ra, 6], ['I', 0, rc, 4]], None))
        hs.append(mk([['I', 0, ra, 0], ['I', 4, rb, 4], ['C', 11], ['I', 12, rc, 12], ['G', A], ['C', 12], ['I', 16, rb, None],
                      ['U', 30, ra, None], ['I', 30, rc, 29 if not ordered else 30]], 12))
        if not ordered:
            hs.append(mk([['I', 0, ra, 8], ['I', 0, rb, 0], ['I', 0, rc, 4], ['I', 0, ra, 7], ['I', 0, ra, 8], ['I', 0, rb, 9],
                          ['C', 20]], 12))
    return hs


def directed_int_stamps(rng):
    """Timestamps handed in as ints beyond 2**53 (epoch nanoseconds): neighbouring values differ by less than the spacing
    of binary64 there (256), so a tracker that turns them into floats can no longer tell older from newer or equal.  Only
    explicit timestamps, no TTL (the clock is a float and plays no part)."""
    hs = []
    A, B, C = MMSIS[0], MMSIS[1], MMSIS[2]
    for ordered in (False, True):
        for base in (1673259271123456789, 2 ** 62 + 1):
            ra, rb, rc = real_message(rng, A, 1), real_message(rng, B, 5), real_message(rng, C, 18)
            ra2 = real_message(rng, A, 1)
            mk = lambda ops: {'cfg': {'ordered': ordered, 'ttl_q': None, 'base': base, 'q': 1, 'int_ts': True},
                              'ops': [list(o) for o in MON_OPS] + ops}
            # older than its own track by less than one float spacing: rejected in both modes, nothing changes
            hs.append(mk([['U', 0, ra, 100], ['U', 0, ra2, 60], ['G', A], ['U', 0, ra2, 99], ['G', A], ['U', 0, ra2, 100], ['U', 0, ra, 101],
                          ['G', A], ['L', 2]]))
            # two vessels 40 apart: ordered rejects the older one, unordered sorts them by the exact values
            hs.append(mk([['U', 0, ra, 100], ['U', 0, rb, 140], ['U', 0, rc, 139], ['L', 1], ['L', 2], ['U', 0, ra, 139], ['L', 3],
                          ['U', 0, ra, 141], ['L', 1], ['P', B], ['U', 0, rb, 141], ['U', 0, rb, 140], ['L', 3]]))
            hs.append(mk([['I', 0, ra, 7], ['I', 0, rb, 8], ['I', 0, ra, 9], ['U', 0, rc, 9], ['U', 0, rb, 8], ['U', 0, rb, 7],
                          ['U', 0, ra, 8], ['G', A], ['G', B], ['L', 3]]))
    return hs


def directed_shared_callable(rng):
    """One callable registered for two or three events (registered after the monitors): a subscriber is the PAIR (event,
    callable), so it is owed every event of each kind it is registered for, and removing one pair leaves the others."""
    hs = []
    A, B = MMSIS[0], MMSIS[1]
    for ordered in (False, True):
        ra, rb = real_message(rng, A, 1), real_message(rng, B, 5)
        mk = lambda ops, ttl=None: {'cfg': {'ordered': ordered, 'ttl_q': ttl, 'base': 0, 'shared': [10, 11]},
                                    'ops': [list(o) for o in MON_OPS] + ops}
        life = [['U', 0, ra, 0], ['U', 0, ra, 1], ['P', A], ['U', 0, ra, 2], ['U', 0, rb, 2], ['P', A]]
        hs.append(mk([['A', 'c', 10], ['A', 'u', 10], ['A', 'd', 10]] + life))
        hs.append(mk([['A', 'd', 10], ['A', 'c', 10]] + life + [['D', 'c', 10], ['U', 0, ra, 3], ['P', A], ['A', 'u', 10], ['U', 0, rb, 3]]))
        hs.append(mk([['A', 'u', 10], ['A', 'u', 11], ['A', 'd', 11], ['A', 'c', 10]] + life + [['D', 'u', 10], ['U', 0, rb, 4], ['D', 'd', 11],
                      ['P', B], ['U', 0, rb, 5], ['U', 0, rb, 6]]))
        hs.append(mk([['A', 'c', 10], ['A', 'd', 10], ['U', 0, ra, 0], ['U', 4, rb, 4], ['C', 13], ['D', 'c', 10], ['U', 16, ra, 16], ['C', 40]], 12))
    return hs


def directed_extreme_mmsi(rng):
    """The vessel with MMSI 0 (a falsy key) and the one with the largest MMSI: created, updated, expired next to an
    ordinary vessel, popped by int and by numeric string."""
    hs = []
    Z, L, A = 0, 999999999, MMSIS[0]
    for ordered in (False, True):
        for real in (True, False):
            mz = real_message(rng, Z, 1) if real else stub_message(rng, Z)
            ml, ma = real_message(rng, L, 18), real_message(rng, A, 5)
            mk = lambda ops, ttl: {'cfg': {'ordered': ordered, 'ttl_q': ttl, 'base': 0}, 'ops': [list(o) for o in MON_OPS] + ops}
            hs.append(mk([['U', 0, mz, 0], ['U', 1, ml, 1], ['U', 2, mz, 2], ['U', 8, ma, 8], ['C', 13], ['C', 14], ['C', 20]], 12))
            hs.append(mk([['U', 0, mz, 0], ['C', 12], ['U', 12, mz, 12], ['U', 24, ml, None], ['G', 0], ['U', 40, ma, None]], 12))
            hs.append(mk([['U', 0, mz, 0], ['U', 0, ml, 0], ['G', 0], ['P', 0], ['P', 0], ['U', 1, mz, 1], ['P', '0'], ['P', L],
                          ['U', 2, mz, 2], ['P', str(L)], ['C', 50]], None if real else 12))
    return hs


def directed_many(rng, sizes=(70, 130)):
    """More tracks than any constant a scan might be limited to (70 ... 150 vessels) reach the TTL in ONE cleanup() /
    update(), alone or with fresh tracks inserted before / after them."""
    hs = []
    for ordered in (False, True):
        for n in sizes:
            ms = [500000000 + 7 * i for i in range(n + 6)]
            stub = lambda m, i: {'stub': {'mmsi': m, 'attrs': {}}}
            mk = lambda ops: {'cfg': {'ordered': ordered, 'ttl_q': 12, 'base': 0}, 'ops': [list(o) for o in MON_OPS] + ops}
            old = [['U', 2, stub(m, i), 0 if ordered else i % 3] for i, m in enumerate(ms[:n])]
            fresh = [['U', 12, stub(m, i), 12] for i, m in enumerate(ms[n:])]
            hs.append(mk(old + [['C', 13], ['C', 14], ['C', 15]]))                           # due at one instant / in thirds
            hs.append(mk(old + fresh + [['C', 20], ['C', 20]]))                              # fresh tracks behind the stale ones
            if not ordered:
                hs.append(mk(fresh[:3] + old + fresh[3:] + [['U', 20, stub(ms[n], 0), None]]))   # found by update()
    return hs


def directed_reregistration(rng):
    """A subscriber that is removed and registered again (the SAME (event, callback) pair) hears the events again."""
    hs = []
    A, B = MMSIS[0], MMSIS[1]
    for ordered in (False, True):
        ra, rb = real_message(rng, A, 1), real_message(rng, B, 5)
        mk = lambda ops, ttl=None: {'cfg': {'ordered': ordered, 'ttl_q': ttl, 'base': 0}, 'ops': [list(o) for o in MON_OPS] + ops}
        for ev in 'cud':
            hs.append(mk([['A', ev, 10], ['U', 0, ra, 0], ['U', 0, ra, 1], ['D', ev, 10], ['U', 0, ra, 2], ['P', A], ['U', 0, ra, 3],
                          ['A', ev, 10], ['U', 0, ra, 4], ['U', 0, ra, 5], ['U', 0, rb, 5], ['P', A], ['D', ev, 10], ['A', ev, 10],
                          ['P', B], ['U', 0, rb, 6], ['U', 0, rb, 7]]))
        hs.append(mk([['A', 'd', 10], ['A', 'd', 11], ['U', 0, ra, 0], ['D', 'd', 10], ['C', 13], ['A', 'd', 10], ['U', 13, rb, 13],
                      ['D', 'd', 11], ['A', 'd', 11], ['C', 30]], 12))
    return hs


# behaviours of the enumerated histories (callback 7; vessels 111 and 222 as in enumerated_histories)
ENUM_BEHS = [
    [[7, 'd', None, 'KeyError']],
    [[7, 'd', 111, 'KeyError']],
    [[7, 'd', 111, 'ValueError']],
    [[7, 'c', 222, 'KeyError'], [7, 'd', 222, 'KeyError']],
    [[7, 'u', None, 'IndexError'], [7, 'd', 222, 'ZeroDivisionError']],
]


CONFIG_LETTERS = [('S', 4), ('S', 12), ('S', None), ('M',)]      # ttl := 1 s / 3 s / None, switch to unordered


def enumerated_histories(max_len, configs=None, letters=()):
    """All histories up to max_len over 2 MMSIs x 3 timestamps (explicit or default), pop, cleanup and a clock tick;
    message classes rotate with the position.  Generator of histories."""
    A, B = 111, 222
    e = env()
    a3 = e.attrs[:3] if e.nattrs >= 3 else e.attrs
    classes = [lambda m: {'stub': {'mmsi': m, 'attrs': {a3[0]: 0}}} if a3 else {'stub': {'mmsi': m, 'attrs': {}}},
               lambda m: {'stub': {'mmsi': m, 'attrs': {n: 'x' for n in a3[1:]}}},
               lambda m: {'stub': {'mmsi': m, 'attrs': {a3[0]: None} if a3 else {}}}]
    alphabet = [('U', m, ts) for m in (A, B) for ts in (0, 4, 8, None)] + [('P', A), ('P', B), ('C',), ('T',)] + list(letters)
    configs = configs or [(o, t) for o in (False, True) for t in (None, 4)]
    for config in configs:
        ordered, ttl = config[0], config[1]
        beh = config[2] if len(config) > 2 else None       # (ordered, ttl, rules): callback 7 registered for the rules' events
        extra = [['A', ev, cb] for ev, cb in sorted({(r[1], r[0]) for r in beh})] if beh else []
        for ln in range(1, max_len + 1):
            for word in itertools.product(alphabet, repeat=ln):
                if letters and not any(w in letters for w in word):
                    continue                           # without a configuration operation: enumerated already
                now = 4
                ops = [list(o) for o in MON_OPS] + [list(o) for o in extra]
                useful = False
                for i, w in enumerate(word):
                    if w[0] == 'T':
                        now += 4
                    elif w[0] == 'U':
                        ops.append(['U', now, classes[i % 3](w[1]), w[2]])
                        useful = True
                    elif w[0] == 'P':
                        ops.append(['P', w[1]])
                    elif w[0] == 'S':
                        ops.append(['T', w[1]])
                    elif w[0] == 'M':
                        ops.append(['M'])
                    else:
                        ops.append(['C', now])
                if useful and word[-1][0] != 'T':
                    cfg = {'ordered': ordered, 'ttl_q': ttl, 'base': 0}
                    if beh:
                        cfg['beh'] = [list(r) for r in beh]
                    yield {'cfg': cfg, 'ops': ops}


def add_queries(h, upto=4):
    """The history with n_latest_tracks(n) for n = 0 .. upto-1 after its last operation (enumerated C14 states)."""
    return {'cfg': h['cfg'], 'ops': h['ops'] + [['L', n] for n in range(0, upto)]}


# ------------------------------------------------------------------------------------------------ entry points
def self_check(ctx, needed):
    """A generator whose interesting branch is hit in < 5 % of the cases fails the run (DESIGN.md section 5)."""
    rep = ctx.rep
    n = max(rep.dist.get('featured-histories', 0), 1)
    for ft, share in needed.items():
        if rep.dist.get(ft, 0) < share * n:
            rep.internal(f'generator self-check: feature {ft!r} occurred in {rep.dist.get(ft, 0)} of {n} histories '
                         f'(needs >= {share:.0%})')


def run_common(ctx, prop):
    rng = ctx.rng
    with_q = prop == 'C14'
    raising = prop != 'C12'          # C12 is stated (and checked) for subscribers that return normally
    hs = directed_histories(rng)
    if raising:
        hs += directed_raising(rng)
    hs += directed_reregistration(rng) + directed_extreme_mmsi(rng) + directed_public(rng) + directed_int_stamps(rng) + directed_shared_callable(rng)
    if with_q:
        hs = [add_queries(h) for h in hs]
    # the configuration changes during the history (new TTL, ordered -> unordered); very many tracks due at once
    cf = directed_config(rng) + (directed_many(rng, (70, 130) if ctx.quick else (65, 66, 70, 100, 128, 150)) if prop == 'C13' or not ctx.quick else [])
    hs += [add_queries(h, 6) for h in cf] if with_q else cf
    for i in range(ctx.budget(80 if with_q else 120, 2000)):
        hs.append(gen_history(rng, 'ttl' if i % 2 else 'mixed', with_queries=with_q, config=True, raising=(raising and i % 5 == 0)))
    n = ctx.budget(300 if with_q else 500, 6000)
    for i in range(n):
        kind = 'broker' if (prop == 'C15' and i % 4 == 0) or i % 10 == 0 else ('ttl' if prop == 'C13' or i % 2 else 'mixed')
        hs.append(gen_history(rng, kind, with_queries=with_q))
    if raising:
        for i in range(ctx.budget(120 if with_q else 200, 3000)):
            hs.append(gen_history(rng, 'ttl' if i % 3 else 'mixed', with_queries=with_q, raising=True))
    check_histories(ctx, prop, hs)
    small = 3 if ctx.quick else 4
    en = list(enumerated_histories(small))
    if with_q:
        en = [add_queries(h) for h in en]
    check_histories(ctx, prop, en, sample_every=0, want_features=False)
    ctx.rep.count('enumerated', len(en))
    ctx.rep.exhaustive.append(f'all histories of length <= {small} over 2 MMSIs x (3 explicit timestamps + default) x pop x '
                              f'cleanup x clock tick, both modes, ttl None and 1 s ({len(en)} histories)')
    if raising:
        # the same alphabet with a subscriber that raises (ttl 1 s, both modes): quick = the two KeyError behaviours up to
        # length 2 + 3, thorough = all ENUM_BEHS up to length 3 here and length 4 in the workers
        behs = ENUM_BEHS[:2] if ctx.quick else ENUM_BEHS
        en = list(enumerated_histories(3, [(o, 4, b) for o in (False, True) for b in behs]))
        if with_q:
            en = [add_queries(h) for h in en]
        check_histories(ctx, prop, en, sample_every=0, want_features=False)
        ctx.rep.count('enumerated-raising', len(en))
        ctx.rep.exhaustive.append(f'all histories of length <= 3 over the same alphabet with a subscriber (callback 7) that raises: '
                                  f'{len(behs)} behaviours x both modes, ttl 1 s ({len(en)} histories)')
    # the same alphabet + assignments to ttl_in_seconds (1 s, 3 s, None) + switch to unordered, starting with ttl 3 s
    # (C14, quick: only trackers built ordered -- the TTL does not matter to n_latest_tracks, the switch does)
    en = list(enumerated_histories(3, [(o, 12) for o in ((True,) if with_q and ctx.quick else (False, True))], letters=CONFIG_LETTERS))
    if with_q:
        en = [add_queries(h) for h in en]
    check_histories(ctx, prop, en, sample_every=0, want_features=False)
    ctx.rep.count('enumerated-config', len(en))
    ctx.rep.exhaustive.append(f'all histories of length <= 3 over the same alphabet + ttl_in_seconds := 1 s / 3 s / None + '
                              f'stream_is_ordered := False, ' + ('built ordered' if with_q and ctx.quick else 'both modes') + f', initial ttl 3 s ({len(en)} histories)')
    if not ctx.quick:
        exhaustive(ctx, prop, 5)
        if raising:
            exhaustive(ctx, prop, 4, behs=ENUM_BEHS)
        exhaustive(ctx, prop, 4, letters=True)


def _worker(job):
    prop, max_len, cfg, shard, nshards, seed = job
    import vlib
    sys.path.insert(0, vlib.REPO)
    rep = vlib.Report(prop, 'thorough', seed)
    ctx = types.SimpleNamespace(rep=rep, model=vlib.FastModel(), quick=False)
    hs = []
    n = 0
    letters = CONFIG_LETTERS if len(cfg) > 3 and cfg[3] else ()
    for i, h in enumerate(enumerated_histories(max_len, [cfg[:3]], letters=letters)):
        if sum(1 for o in h['ops'] if o[0] != 'A') < max_len and max_len >= 4:
            continue                                   # shorter ones were done in the main process
        if i % nshards != shard:
            continue
        hs.append(add_queries(h) if prop == 'C14' else h)
        if len(hs) >= 2000:
            check_histories(ctx, prop, hs, sample_every=0, want_features=False)
            n += len(hs)
            hs = []
            if len(rep.violations) > 50 or len(rep.disagreements) > 50:
                break
    check_histories(ctx, prop, hs, sample_every=0, want_features=False)
    n += len(hs)
    ctx.model.close()
    return {'n': n, 'violations': rep.violations[:20], 'disagreements': rep.disagreements[:5]}


def exhaustive(ctx, prop, max_len, behs=None, letters=False):
    """All histories of exactly max_len operations (see enumerated_histories), in parallel workers; behs: with a
    subscriber that raises (one run per behaviour, ttl 1 s); letters: with the configuration operations (initial ttl 3 s)."""
    import multiprocessing as mp
    nshards = 8
    if letters:
        jobs = [(prop, max_len, (o, 12, None, True), s, nshards, ctx.seed) for o in (False, True) for s in range(nshards)]
    elif behs:
        nshards = 2
        jobs = [(prop, max_len, (o, 4, b), s, nshards, ctx.seed) for o in (False, True) for b in behs for s in range(nshards)]
    else:
        jobs = [(prop, max_len, (o, t), s, nshards, ctx.seed) for o in (False, True) for t in (None, 4) for s in range(nshards)]
    total = 0
    with mp.Pool(min(16, os.cpu_count() or 4)) as pool:
        for res in pool.imap_unordered(_worker, jobs):
            total += res['n']
            ctx.rep.evaluations += res['n']
            for v in res['violations']:
                ctx.rep.violations.append(v)
            for d in res['disagreements']:
                ctx.rep.disagreements.append(d)
    ctx.rep.count('enumerated-config' if letters else 'enumerated-raising' if behs else 'enumerated', total)
    ctx.rep.exhaustive.append(f'all histories of length {max_len} over the same alphabet'
                              + (' + ttl_in_seconds := 1 s / 3 s / None + stream_is_ordered := False (initial ttl 3 s)' if letters else '')
                              + (f' with a subscriber that raises ({len(behs)} behaviours, ttl 1 s)' if behs else '')
                              + f' ({total} histories)')


def hunt_common(ctx, prop):
    """Something no longer checks: all histories up to length 5 over 2 MMSIs x 3 timestamps, then long random ones."""
    exhaustive(ctx, prop, 5)
    if ctx.rep.violations:
        return
    if prop != 'C12':
        exhaustive(ctx, prop, 4, behs=ENUM_BEHS)
        if ctx.rep.violations:
            return
    exhaustive(ctx, prop, 4, letters=True)
    if ctx.rep.violations:
        return
    rng = ctx.rng
    hs = [gen_history(rng, 'ttl' if i % 2 else 'mixed', with_queries=prop == 'C14', n_ops=rng.choice([30, 60]),
                      raising=(prop != 'C12' and i % 3 == 0), config=(i % 4 == 1)) for i in range(3000)]
    check_histories(ctx, prop, hs, sample_every=0)


def replay_common(ctx, prop, data):
    import vlib
    h = data['history']
    model = ctx.model or vlib.FastModel()
    try:
        if data.get('previous'):
            run_impl(data['previous'])          # the earlier tracker object whose subscribers must stay untouched
        impl = run_impl(h)
        if (data.get('signature') or {}).get('kind') == 'delivered-to-another-tracker':
            return ('events of this tracker reach callbacks registered with another AISTracker object'
                    if impl and impl[-1].get('foreign') else None)
        lines, index = oracle_lines(h, impl)
        replies = ask_sized(model, lines)
        bad = [b for b in evaluate(h, impl, lines, index, replies) if b[0] == prop]
    finally:
        if ctx.model is None:
            model.close()
    want = data.get('signature')
    same = [b for b in bad if want is None or b[2] == want]
    pick = same or bad
    return pick[0][3] if pick else None


# ------------------------------------------------------------------------------------------------ evidence texts
_COMMON_RULE = ('histories of AISTracker operations under a controlled clock (time.time replaced in the harness process; '
                'all times dyadic): hand-aimed histories (ages exactly ttl and one tick either side, stale and fresh tracks '
                'in every insertion order, equal timestamps on different MMSIs, an update equal to / older than the '
                "track's own timestamp, falsy-but-present values 0 / 0.0 / '' / False and present-but-None attributes, "
                'tracks born expired, re-creation after pop and after expiry) + PRNG-drawn histories of 4-30 operations over '
                '1-6 MMSIs with really encoded and decoded messages of types 1,2,3,4,5,9,14,18,19,21,23,24A,24B,27 (and stub '
                'messages with arbitrary attribute subsets), explicit / default / equal / out-of-order timestamps, ttl in '
                '{None, 0, 1, 1.5, 2, 3, 5 s}, both modes, callbacks registered for all three events (plus random '
                'register/remove of further callbacks) + every history up to length 3 (quick) / 5 (thorough) over 2 MMSIs x '
                '(3 explicit timestamps + default) x pop x cleanup x clock tick in both modes with ttl None and 1 s; '
                'C13-C15 additionally with subscribers that RAISE (behaviour = rules (callback, event, MMSI or any, exception '
                'class) carried by the history): hand-aimed (expired track + DELETED subscriber raising KeyError for every / '
                'one vessel, several expired tracks and a subscriber raising for one of them, KeyError vs ValueError / '
                'IndexError, explicit pop_track, raising CREATED / UPDATED subscribers, a subscriber behind the raising one, '
                'the raising subscriber removed), PRNG-drawn (1-3 raising subscribers, 70 % KeyError on DELETED) and every '
                'history up to length 3 (quick: 2 behaviours) / 4 (thorough: 5 behaviours) with a raising subscriber; '
                'histories in which the configuration changes -- assignments to tracker.ttl_in_seconds (shorter, longer, None, '
                'with and without an earlier cleanup() that found nothing due) and tracker.stream_is_ordered = False (then older '
                'timestamps) -- hand-aimed, PRNG-drawn and every history up to length 3 (quick) / 4 (thorough) over the alphabet '
                'extended by ttl := 1 s / 3 s / None and the switch; 70-150 vessels reaching the TTL in one cleanup()/update() '
                '(C13; all four in the thorough tier); a subscriber registered, removed and registered again (same pair) followed '
                'by events; the public insert_or_update(mmsi, msg_to_track(...)) as a history operation (unordered: any timestamp; '
                'ordered: never older than a track); vessels with MMSI 0 and 999999999; timestamps ahead of the clock; sentences '
                'that carry an NMEA tag block (through NMEASentenceFactory) fed without a timestamp; sentinel values (heading 511, '
                'lat 91, lon 181, course 360, speed 102.3) after real values; '
                'a case is one history; distinct = distinct (configuration incl. behaviours, operation list)')
RULE = {
    'C12': _COMMON_RULE + '; after every operation tracks / get_track are compared with the log specification sp_track_of',
    'C13': _COMMON_RULE + '; after every update()/cleanup() the remaining and the expired tracks are judged by sp_ttl_okb',
    'C14': _COMMON_RULE + '; n_latest_tracks(n) is queried for n = 0 .. |tracks|+1 in the reached states and judged by sp_top_nb',
    'C15': _COMMON_RULE + '; the events of every operation are compared with sp_expected_events, the per-MMSI trace with sp_alive; '
           'every event must reach every subscriber registered at that moment (up to the first one that raises) and no removed one',
}
ASSUMPTIONS = ['callbacks do not call back into the tracker (they may raise: C13-C15 are checked with raising subscribers; C12 '
               'is stated and checked for subscribers that return normally)',
               'the monitor callbacks on which C15 is judged are registered before any subscriber that raises (a subscriber '
               'behind a raising one does not receive the event: Props/C15.v C15_delivery_truncated)',
               'for the model run the iteration order of the set of expired MMSIs of each cleanup() is read off the '
               "implementation's DELETED deliveries (the theorems hold for every order)",
               'every callback is registered at most once per event for the oracle (double registration is exercised in '
               'the correspondence only)',
               'the clock is read at most at one value during one operation',
               'stream_is_ordered is only ever switched from True to False (the other direction asserts an order nobody enforced and '
               'is outside C14); ttl_in_seconds may be assigned any value at any time',
               'the deliveries oracle of C15 stops judging a history at the first double registration of one (event, callback) pair',
               'insert_or_update() is called on an ORDERED tracker only with timestamps that are not older than any track (the method '
               'has no ordered-stream check: the caller\'s obligation; Props/C12.v trk_run_ok); insert_track() / update_track() are not '
               'called directly (insert_track() does not maintain oldest_timestamp and fires CREATED for a tracked MMSI; they are the '
               'two branches of insert_or_update())']
TRUSTED_EXTRA = ['Prim/IntDict.v: dict insertion order, assignment to an existing key keeps its position, popitem() is LIFO; '
                 'sorted() is stable (modelled by insertion sort); iterating a set of ints visits exactly its elements, in '
                 "an order the model takes as a parameter (the check reads it off the implementation's DELETED deliveries; "
                 'Props/C13.v C13_driver_environments_ok)',
                 'a callback is a function of (its number, the event, the track) during one operation: it returns or raises an '
                 'exception of a class of Prim/Exn.v; `except KeyError` catches exactly KeyError (no modelled subclass)',
                 'messages reach the model as data: for every AISTrack field (dataclasses.fields) whether the decoded message '
                 'has the attribute (attr.fields) and its value as an opaque token']
NEEDED = {
    'C12': {'merge': 0.05, 'rejected': 0.05, 'expiry': 0.05, 'pop:hit': 0.05, 'ts-equals-own-track': 0.05,
            'cfg:ttl-assigned': 0.03, 'cfg:switched-to-unordered': 0.02, 'public:insert_or_update': 0.03},
    'C13': {'expiry': 0.05, 'stale-and-fresh-mixed': 0.05, 'age==ttl': 0.05, 'age==ttl-1': 0.02, 'age==ttl+1': 0.02,
            'cfg:ttl-shortened-with-tracks': 0.03, 'expiry:more-than-64-at-once': 0.001, 'public:insert_or_update': 0.03,
            'cb:expiry-with-keyerror-subscriber': 0.05, 'cb:several-expired-one-raises': 0.02, 'cb:exception-escaped': 0.03,
            'cb:cleanup-aborted': 0.02, 'cb:pop-with-raising-subscriber': 0.02, 'cb:created-subscriber-raises': 0.02},
    'C14': {'n==0': 0.05, 'n==len': 0.05, 'n>len': 0.05, 'n<len': 0.05, 'n_latest:ties': 0.05,
            'cfg:older-timestamp-accepted-after-switch': 0.02, 'public:insert_or_update-ordered': 0.02,
            'cb:keyerror-swallowed': 0.05, 'cb:exception-escaped': 0.03},
    'C15': {'expiry': 0.05, 'rejected': 0.05, 'pop:hit': 0.05, 'created-and-expired-at-once': 0.02, 'broker-ops': 0.05,
            'broker:event-after-re-registration': 0.02, 'public:insert_or_update': 0.03,
            'cb:keyerror-swallowed': 0.05, 'cb:exception-escaped': 0.03, 'cb:subscriber-loop-truncated': 0.02,
            'cb:created-subscriber-raises': 0.02, 'cb:updated-subscriber-raises': 0.02},
}
