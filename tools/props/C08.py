"""C08 -- re-encoding a decoded message is stable.

Model: Model/Codec.v (decode_bits, to_bitarray) over the regenerated tables.  Correspondence: extracted
decode -> to_bitarray -> decode against pyais.decode / Payload.to_bitarray / encode_msg / pyais.decode on the same payload.
Oracle: the two clauses of the property on the implementation's own outputs, over the lengths and the "no field was
normalised" predicate of Spec/RoundTripSpec.v (extracted c08_length_ok, text_pad_zero, raw_unnormalised)."""
import os
import sys

sys.path.insert(0, os.path.dirname(os.path.dirname(os.path.abspath(__file__))))
sys.path.insert(0, os.path.dirname(os.path.abspath(__file__)))
import ais  # noqa: E402
import codec_common as cc  # noqa: E402
import codecrt_common as rc  # noqa: E402

GEN = ['GenTables.v', 'GenDispatch.v', 'GenConv.v', 'GenEnums.v', 'GenAlpha.v']
RULE = ('payload bit strings of each of the 35 layout variants at the full length and at shorter lengths ending on a field '
        'boundary or on a character/byte boundary inside a variable-length field: PRNG-drawn payloads plus per-field sweeps '
        '(every raw code of every field of width <= 8 in the quick tier, <= 12 in the thorough tier; boundary codes, sentinels '
        'and sampled codes of wider fields; six-bit codes (20 incl. 0, 1, 31, 32, 33, 63 in the quick tier, all 64 in the thorough '
        'tier) at the first, a middle and the last position of every text field, leading @, blanks only, trailing blanks) each in a random context; sub-character text padding zeroed for the '
        'oracle, left random in a separate model-vs-code stream together with mid-field cuts; distinct = distinct bit strings')
ASSUMPTIONS = ['binary64 arithmetic obeys the standard model (decoded scaled values are tied to the exact decimal by '
               'x == num/den on Python integers)',
               'payloads reach the decoder through well-formed !AIVDM sentences built by the harness (tools/ais.py)']
TRUSTED_EXTRA = ['Spec/RoundTripSpec.v (c08_length_ok, raw_unnormalised) over the hand-transcribed layouts of Spec/Layout.v']

ENTRY = 'decode+encode+decode'


def impl_c08(bits):
    """-> dict(first=impl_decode tuple, bits2=str|('Raise', ..), second=impl_decode tuple)"""
    import pyais
    first = cc.impl_decode(bits)
    out = {'first': first}
    if first[0] != 'Ok':
        return out
    msg = first[3]
    try:
        out['bits2'] = msg.to_bitarray().to01()
        sentences = pyais.encode_msg(msg)
    except Exception as e:
        out['bits2'] = ('Raise', type(e).__name__, str(e)[:200])
        return out
    try:
        m2 = pyais.decode(*sentences)
        d = m2.asdict()
        out['second'] = ('Ok', type(m2).__name__, [(n, d[n]) for n in [f.name for f in type(m2).fields()]], m2)
    except Exception as e:
        out['second'] = ('Raise', type(e).__name__, str(e)[:200])
    # the other public ways of encoding a decoded message: as a dictionary (asdict(), asdict(enum_as_int=True), and the merged
    # dictionary of a received sentence, decode_and_merge()) through encode_dict -- they must produce the sentences encode_msg does
    routes = {}
    for name, fn in (('encode_dict(msg.asdict())', lambda: pyais.encode_dict(msg.asdict())),
                     ('encode_dict(msg.asdict(enum_as_int=True))', lambda: pyais.encode_dict(msg.asdict(enum_as_int=True))),
                     ('encode_dict(sentence.decode_and_merge())', lambda: pyais.encode_dict(_sentence_of(bits).decode_and_merge()))):
        try:
            routes[name] = list(fn())
        except Exception as e:      # noqa: BLE001
            routes[name] = ('Raise', type(e).__name__, str(e)[:120])
    out['routes'], out['sentences'] = routes, list(sentences)
    return out


def _sentence_of(bits):
    from pyais.stream import IterMessages
    return next(iter(IterMessages(ais.bits_to_sentences(bits))))


def canon(t):
    return (t[0], t[1], [(k, ais.canon_value(v)) for k, v in t[2]]) if t[0] == 'Ok' else t[:2]


def compare_model(impl, reply):
    """reply of `reencode`: 'Ok msg | bits2 | decode2'  |  'Ok msg | Raise X'  |  'Raise X'"""
    if reply.startswith('ERROR'):
        raise RuntimeError('driver: ' + reply)
    parts = reply.split(' | ')
    m1 = cc.parse_msg(parts[0])
    d = cc.compare_model(impl['first'], m1)
    if d:
        return 'first decode ' + d
    if m1[0] != 'Ok':
        return None
    if parts[1].startswith('Raise '):
        ex = parts[1][6:].strip()
        if isinstance(impl.get('bits2'), tuple) and impl['bits2'][1] == ex:
            return None
        return f"re-encode: impl {impl.get('bits2')!r:.80} model Raise {ex}"
    if isinstance(impl.get('bits2'), tuple):
        return f"re-encode: impl {impl['bits2'][:2]} model Ok"
    mb = '' if parts[1] == '-' else parts[1]
    if impl['bits2'] != mb:
        return f"re-encoded bits: impl {impl['bits2'][:80]}.. ({len(impl['bits2'])}) model {mb[:80]}.. ({len(mb)})"
    if mb == '':
        return None          # nothing to decode again (no payload): the model's decode of [] is not what encode_msg does
    d = cc.compare_model(impl['second'], cc.parse_msg(parts[2]))
    return ('second decode ' + d) if d else None


def oracle(rep, bits, spec, impl, replay):
    """spec = reply of c08spec.  -> number of violations"""
    if spec == 'None':
        return 0
    cls, lenok, padok, unnorm, guard = spec.split(' ')
    if lenok != '1' or padok != '1':
        rep.count('outside-quantifier')
        return 0
    rep.count('in-quantifier')
    suffix = '/empty-text' if guard[0] == '1' else ''
    suffix2 = suffix + ('/padding-dropped' if guard[1] == '1' else '')
    n = 0

    def viol(component, kind, what, suffix=suffix):
        nonlocal n
        n += 1
        rep.violation({'entry': ENTRY, 'class': cls, 'component': component, 'kind': kind + suffix},
                      f'{cls} ({len(bits)} bits): {what}', replay)

    first = impl['first']
    if first[0] != 'Ok':
        return 0            # decoding itself is the subject of C01/C05, not of C08
    b2 = impl.get('bits2')
    if isinstance(b2, tuple):
        viol('exception', f'exception:{b2[1]}', f're-encoding the decoded message raised {b2[1]}')
        return n
    second = impl.get('second')
    if second[0] != 'Ok':
        viol('exception', f'exception:{second[1]}', f'decoding the re-encoded message raised {second[1]}')
        return n
    for name, r in (impl.get('routes') or {}).items():
        if r != impl.get('sentences'):
            viol('other-encoding-route', 'route-dependent',
                 f'{name} gives {r[:2] if isinstance(r, tuple) else [x[:60] for x in r[:2]]}, encode_msg(msg) gives '
                 f'{[x[:60] for x in impl["sentences"][:2]]}', '')
            break
    c1, c2 = canon(first), canon(second)
    if c1[1] != c2[1]:
        viol('variant', 'wrong-class', f'decodes as {c1[1]}, after re-encoding as {c2[1]}')
        return n
    for (k, v1), (_, v2) in zip(c1[2], c2[2]):
        if v1 != v2:
            viol(k, 'not-stable', f'{k} decodes as {v1}, after one more encode/decode cycle as {v2}')
    if unnorm == '1':
        rep.count('no-field-normalised')
        if b2 != bits:
            i = next((j for j in range(min(len(b2), len(bits))) if b2[j] != bits[j]), min(len(b2), len(bits)))
            viol('payload', 'not-bit-identical', f'no field was normalised, yet the re-encoded payload differs from the '
                 f'received one at bit {i} (lengths {len(bits)} -> {len(b2)})', suffix2)
    return n


def check_batch(ctx, cases, use_oracle=True):
    rep = ctx.rep
    lines = []
    for _, bits in cases:
        lines.append(f'reencode {bits}')
        lines.append(f'c08spec {bits}')
    replies = ctx.model.ask_many(lines) if ctx.model else None
    for i, (kind, bits) in enumerate(cases):
        rep.case(bits, kind=kind)
        impl = impl_c08(bits)
        replay = {'bits': bits}
        if replies is None:
            continue
        mrep, srep = replies[2 * i], replies[2 * i + 1]
        if 'Unmodelled' in mrep:
            rep.count('unmodelled-skipped')
        else:
            diff = compare_model(impl, mrep)
            if diff:
                rep.disagree('H-codec/reencode', replay, mrep[:300], diff)
        if use_oracle:
            nv = oracle(rep, bits, srep, impl, replay)
            if i % 499 == 0 and impl['first'][0] == 'Ok':
                rep.sample({'bits': bits[:72] + ('...' if len(bits) > 72 else ''), 'length': len(bits), 'spec': srep,
                            'decoded': {k: cc.show(v) for k, v in impl['first'][2][:8]},
                            'reencoded_identical': impl.get('bits2') == bits, 'violations': nv})


def lengths_of(model, variant, rng, n_inner):
    """the lengths C08 quantifies over for a variant: every field boundary, and a sample of the inner lengths of
    variable-length fields (all of them when n_inner is None)"""
    ls = [int(x) for x in model.ask(f'c08lengths {variant[0]}').split(',') if x]
    lay = rc.layout(model, variant[0])
    bounds = {f.off + f.width for f in lay.fields}
    field_b = [n for n in ls if n in bounds]
    inner = [n for n in ls if n not in bounds]
    if n_inner is not None and len(inner) > n_inner:
        keep = set(inner[:2] + inner[-2:])
        keep |= set(rng.sample(inner, n_inner))
        inner = sorted(keep)
    return field_b, inner


def sweep_cases(rng, variant, lay, spec, max_w, per_wide, all_chars=True):
    """one field set to a chosen raw code, every other bit random, at the full length"""
    for f in lay.fields:
        off, w, k = f.off, f.width, f.kind
        if f.name == 'msg_type' or f.name in lay.disc:
            continue
        if k == 'T':
            nchars = w // 6
            for pos in sorted({0, nchars // 2, nchars - 1}):
                codes = range(64) if all_chars else sorted({0, 1, 31, 32, 33, 63} | set(rng.sample(range(64), 14)))
                for code in codes:
                    yield ('text', cc.set_field(cc.make_payload(rng, variant), off + 6 * pos, 6, code))
            base = cc.make_payload(rng, variant)
            yield ('text', cc.set_field(base, off, 6, 0))                                             # leading '@'
            yield ('text', cc.set_field(base, off, w - w % 6, int('100000' * nchars, 2)))              # blanks only
            yield ('text', cc.set_field(cc.set_field(base, off, 6, 32), off + 6 * (nchars - 1), 6, 32))
            yield ('text', cc.set_field(base, off, w - w % 6, 0))                                      # all '@'
            # a canonical text: characters, then '@' padding
            m = rng.randint(0, nchars)
            codes = [rng.choice([c for c in range(1, 64) if c != 32]) for _ in range(m)] + [0] * (nchars - m)
            yield ('text-canonical', cc.set_field(base, off, w - w % 6, int(''.join(format(c, '06b') for c in codes) or '0', 2)))
            # structured tails: '@' and blanks in every short arrangement after some characters (what a terminator /
            # padding rule has to get right: "AB@  @@", "AB  @@@", "AB@CD@@", "AB @ @@", "@AB@@@")
            if nchars >= 4:
                for tail in ([0, 32, 32], [32, 32, 0], [0, 33, 34], [32, 0, 32], [0, 32, 33], [32, 32, 32]):
                    m = rng.randint(0, nchars - len(tail))
                    codes = [rng.choice([c for c in range(1, 64) if c != 32]) for _ in range(m)] + tail
                    codes += [0] * (nchars - len(codes))
                    yield ('text-tail', cc.set_field(base, off, w - w % 6, int(''.join(format(c, '06b') for c in codes), 2)))
            continue
        if k in ('D', 'X'):
            for raw in (0, (1 << w) - 1, 1, 1 << (w - 1)):
                yield ('bytes', cc.set_field(cc.make_payload(rng, variant), off, w, raw))
            continue
        raws = set(cc.interesting_raws(w))
        if w <= max_w:
            raws |= set(range(1 << w))
        else:
            raws |= {rng.getrandbits(w) for _ in range(per_wide)}
        for s in cc.SENTINELS.get(f.name.rstrip('0123456789_').replace('ne_', '').replace('sw_', ''), []):
            raws.add(s & ((1 << w) - 1))
        for raw in sorted(raws):
            yield ('field:' + k, cc.set_field(cc.make_payload(rng, variant), off, w, raw))


def run(ctx, n_random=None, max_w=None, per_wide=None, n_inner=-1, classes=None):
    import vlib
    rng = ctx.rng
    model = ctx.model or vlib.FastModel()
    n_random = n_random if n_random is not None else ctx.budget(3, 40)
    max_w = max_w if max_w is not None else (8 if ctx.quick else 12)
    per_wide = per_wide if per_wide is not None else ctx.budget(4, 40)
    if n_inner == -1:
        n_inner = 6 if ctx.quick else None
    for variant in cc.VARIANTS:
        if classes and variant[0] not in classes:
            continue
        lay = rc.layout(model, variant[0])
        base = cc.make_payload(rng, variant)
        spec = cc.parse_spec(model.ask(f'spec {base}'))
        if spec is None or spec['class'] != variant[0] or spec['nominal'] != variant[2]:
            ctx.rep.internal(f'harness variant table and Spec/Layout.v disagree on {variant[0]}')
            continue
        field_b, inner = lengths_of(model, variant, rng, n_inner)
        cases = []
        # random payloads at the full length and at every shorter length of the quantifier
        for n in field_b + inner:
            for _ in range(n_random if n == variant[2] else max(1, n_random // 3)):
                cases.append(('random@' + ('full' if n == variant[2] else 'boundary' if n in field_b else 'inner'),
                              cc.zero_text_padding(cc.make_payload(rng, variant, n), spec)))
        # a payload whose 60-character fragments repeat (period 360 bits from bit 0, header included): the sentence layer must
        # number and keep equal fragments like any others
        if variant[2] >= 720:
            b = cc.make_payload(rng, variant)
            for n in [m for m in field_b + inner if m >= 720][-3:]:
                cases.append(('repeated-fragments', cc.zero_text_padding((b[:360] * 3)[:n], spec)))
        # per-field sweeps at the full length ...
        for kind, bits in sweep_cases(rng, variant, lay, spec, max_w, per_wide, all_chars=not ctx.quick or ctx.escalated):
            cases.append((kind, cc.zero_text_padding(bits, spec)))
        # ... and cut at a random later length of the quantifier (the swept field stays covered)
        shorter = [n for n in field_b + inner if n < variant[2]]
        if shorter:
            cut = list(sweep_cases(rng, variant, lay, spec, min(max_w, 6), 1, all_chars=not ctx.quick))
            if ctx.quick and len(cut) > 100:
                cut = rng.sample(cut, 100)
            for kind, bits in cut:
                n = rng.choice(shorter)
                cases.append((kind + '@cut', cc.zero_text_padding(bits, spec)[:n]))
        # variable-length text ending in blanks / '@' at an inner length; empty-string forms
        for f in lay.fields:
            if f.kind == 'T' and f.varlen:
                for k in (1, 2, 5):
                    for code in (0, 32, 1):
                        b = cc.make_payload(rng, variant, f.off + 6 * k)
                        cases.append(('varlen-text', cc.set_field(b, f.off + 6 * (k - 1), 6, code)))
                        cases.append(('varlen-text', cc.set_field(b, f.off, 6, code)))
        check_batch(ctx, cases)
        # model-vs-code only: padding left random, cuts in the middle of fields, one bit short/long of a boundary
        extra = [('padding-random', cc.make_payload(rng, variant)) for _ in range(max(2, n_random))]
        for n in field_b:
            for d in (-1, 1):
                if 6 <= n + d <= variant[2]:
                    extra.append(('off-boundary', cc.make_payload(rng, variant, n + d)))
        for _ in range(max(4, n_random)):
            extra.append(('mid-field-cut', cc.make_payload(rng, variant, rng.randint(6, variant[2]))))
        check_batch(ctx, extra, use_oracle=False)
    share = ctx.rep.dist.get('no-field-normalised', 0) / max(1, ctx.rep.dist.get('in-quantifier', 1))
    if ctx.rep.evaluations and share < 0.05:
        ctx.rep.internal(f'generator self-check: only {share:.1%} of the oracle cases reach the bit-for-bit clause')


def hunt(ctx):
    run(ctx, n_random=ctx.budget(10, 60), max_w=12, per_wide=ctx.budget(20, 100), n_inner=None)


def replay(ctx, data):
    import vlib
    m = ctx.model or vlib.FastModel()
    bits = data['bits']
    spec = m.ask(f'c08spec {bits}')
    rep = vlib.Report('C08', 'quick', 0)
    oracle(rep, bits, spec, impl_c08(bits), data)
    return '; '.join(v['what'] for v in rep.violations)[:1500] if rep.violations else None
