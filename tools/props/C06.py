"""C06 -- socket readers yield the same lines however the transport chunks the bytes.

Model: Model/Socket.v (SocketStream.read with its `partial` carry-over, Stream._iter_messages' line filter) over
Prim/Splitlines.v (bytes.splitlines(keepends=True)).  Correspondence: the extracted model against the real
SocketStream / UDPReceiver / TCPConnection driven by a scripted socket object (recv / recvfrom return the next chunk,
then b'').  Oracle: "lines out == the original terminated lines" and "delivered messages do not depend on the
chunking", evaluated on the implementation's outputs; Spec/SocketSpec.v (extracted) decides whether a generated case
lies inside the property's quantifier."""
import itertools
import os
import sys

sys.path.insert(0, os.path.dirname(os.path.dirname(os.path.abspath(__file__))))
sys.path.insert(0, os.path.dirname(os.path.abspath(__file__)))
import ais  # noqa: E402

GEN = ['GenConst.v']
RULE = ('a case is (byte stream, segmentation into recv() results).  Streams: real AIS sentences (single and multi-part, '
        'LF and CRLF mixed, with an occasional foreign NMEA line and a line too short for the line filter) and short '
        'abstract streams over {a,b,CR,LF}.  Segmentations: whole stream, one line per chunk, 1-byte chunks, fixed sizes, '
        'random cut sets of several densities, a newline-free chunk inside a line, several consecutive newline-free chunks, '
        'a cut between CR and LF, a chunk that is exactly one terminator / a lone CR / a lone LF; ALL segmentations of the '
        'short streams (<= 12 bytes quick, <= 16 bytes thorough) and all 1- and 2-cut segmentations of an AIS stream. '
        'Streams outside the quantifier (bare CR, unterminated tail, empty chunk in the middle, bytes that are line breaks '
        'for str but not for bytes) are compared model-vs-code only.  distinct = distinct (stream, cut set, variant); the '
        'bytes.splitlines primitive is compared with CPython on all 9841 strings of length <= 8 over {a,CR,LF} on every run')
ASSUMPTIONS = ['a socket is the sequence of its recv()/recvfrom() results; an empty result ends the stream',
               'real kernels may re-segment TCP arbitrarily: every such segmentation is inside the theorem, the loopback '
               'smoke test (thorough tier) is supporting evidence only']
TRUSTED_EXTRA = ['Prim/Splitlines.v: bytes.splitlines(keepends=True) and one-byte bytes.endswith transcribed by hand from '
                 'CPython stringlib/split.h (validated exhaustively on short strings on every run)']

VARIANTS = ('SocketStream', 'UDPReceiver', 'TCPConnection')
MAX_REQ = 12000   # bytes of request text per pipe batch (replies are at most ~2x the request)


# --------------------------------------------------------------------------------------------------------------------
# the implementation, through its public classes, with a scripted socket object
# --------------------------------------------------------------------------------------------------------------------
class FakeSock:
    """recv()/recvfrom() return the scripted chunks, then b'' (peer closed)."""

    def __init__(self, chunks):
        self.chunks = list(chunks)
        self.i = 0
        self.eofs = 0

    def recv(self, bufsize):
        if self.i < len(self.chunks):
            c = self.chunks[self.i]
            self.i += 1
            return c
        self.eofs += 1
        if self.eofs > 3:
            raise RuntimeError('recv() called again and again after end of stream')
        return b''

    def recvfrom(self, bufsize):
        return self.recv(bufsize), ('127.0.0.1', 0)

    def close(self):
        pass


def make_stream(variant, chunks):
    import pyais.stream as st
    cls = getattr(st, variant)
    obj = cls.__new__(cls)          # the UDP/TCP constructors only open the real socket
    st.SocketStream.__init__(obj, FakeSock(chunks))
    return obj


def impl_read(variant, chunks):
    out = []
    try:
        for line in make_stream(variant, chunks).read():
            out.append(bytes(line))
            if len(out) > 100000:
                raise RuntimeError('read() does not terminate')
    except Exception as e:  # noqa: BLE001 -- any exception is an observable outcome
        return {'lines': out, 'exc': type(e).__name__}
    return {'lines': out, 'exc': None}


def impl_iter_lines(variant, chunks):
    try:
        return {'lines': [bytes(x) for x in make_stream(variant, chunks)._iter_messages()], 'exc': None}
    except Exception as e:  # noqa: BLE001
        return {'lines': None, 'exc': type(e).__name__}


def canon_msg(m):
    raw = getattr(m, 'raw', None)
    payload = getattr(m, 'payload', None)
    w = getattr(m, 'wrapper_msg', None)
    return (type(m).__name__, bytes(raw).hex() if raw is not None else None,
            bytes(payload).hex() if isinstance(payload, (bytes, bytearray)) else repr(payload),
            bool(getattr(m, 'is_valid', None)), None if w is None else bytes(w.raw).hex())      # + the attached wrapper line


def raw_of(m):
    """readable form of a canonical message tuple."""
    if m[0] == 'EXCEPTION':
        return b'<' + m[1].encode() + b' raised>'
    try:
        return bytes.fromhex(m[1] or '')
    except ValueError:
        return repr(m[1]).encode()


def impl_messages(variant, chunks):
    """list(iter(stream)) as canonical tuples (class, raw, payload, is_valid); never __eq__ of sentences."""
    out = []
    try:
        for m in make_stream(variant, chunks):
            out.append(canon_msg(m))
            if len(out) > 100000:
                raise RuntimeError('iteration does not terminate')
    except Exception as e:  # noqa: BLE001
        out.append(('EXCEPTION', type(e).__name__, '', False, None))
    return out


# --------------------------------------------------------------------------------------------------------------------
# streams and segmentations
# --------------------------------------------------------------------------------------------------------------------
def cut(s, cuts):
    cuts = sorted(set(c for c in cuts if 0 < c < len(s)))
    out, prev = [], 0
    for c in cuts + [len(s)]:
        if c > prev:
            out.append(s[prev:c])
            prev = c
    return out


def all_segmentations(n):
    """every subset of the n-1 possible cut positions."""
    for mask in range(1 << max(n - 1, 0)):
        yield [i + 1 for i in range(n - 1) if mask >> i & 1]


def seg_class(chunks):
    """what the segmentation contains (for the distribution and for violation signatures)."""
    cls = []
    if any(b'\n' not in c for c in chunks):
        cls.append('newline-free-chunk')
    nf = [b'\n' not in c and b'\r' not in c for c in chunks]
    if any(nf[i] and nf[i + 1] for i in range(len(nf) - 1)):
        cls.append('consecutive-newline-free')
    if any(chunks[i].endswith(b'\r') and chunks[i + 1].startswith(b'\n') for i in range(len(chunks) - 1)):
        cls.append('cr|lf-split')
    if any(c in (b'\n', b'\r\n', b'\r') for c in chunks):
        cls.append('terminator-chunk')
    if chunks and all(len(c) == 1 for c in chunks):
        cls.append('one-byte-chunks')
    return cls or ['plain']


def sig_class(chunks):
    """the most specific description of the segmentation, for violation signatures."""
    nf = [i for i, c in enumerate(chunks) if b'\n' not in c]
    if not nf:
        return 'every-chunk-ends-a-line' if all(c.endswith(b'\n') for c in chunks) else 'cut-inside-a-line'
    if all(chunks[i].endswith(b'\r') and i + 1 < len(chunks) and chunks[i + 1].startswith(b'\n') for i in nf):
        # every newline-free chunk is one that stops between CR and LF
        return 'cr|lf-split'
    return 'newline-free-chunk'


def random_bits(rng, n, msg_type):
    return format(msg_type, '06b') + ''.join(rng.choice('01') for _ in range(n - 6))


def ais_stream(rng, n_msgs):
    """-> (lines with terminators, number of AIS messages).  Messages are sent one after the other (no interleaving:
    reassembly under interleaving is C03)."""
    lines, n_ais = [], 0
    seq = rng.randrange(10)
    for _ in range(n_msgs):
        r = rng.random()
        if r < 0.08:
            body = b'GPGGA,092750.000,5321.6802,N,00630.3372,W,1,8,1.03,61.7,M,55.2,M,,'
            sents = [b'$' + body + b'*' + format(ais.xor_checksum(body), '02X').encode()]
        elif r < 0.14:
            # at and around the length filter (len(line) <= 10 counts the terminator): 9/10/11/12 bytes with LF/CRLF,
            # and a long line that should_parse() rejects
            sents = [rng.choice([b'$ABC', b'!AIVDM,1', b'', b'!', b'$PGHP,1', b'!AIVDM,1,', b'!AIVDM,1,1', b'$ABCDEFGH',
                                 b'\\s:x*00\\!', b'xAIVDM,1,1,,A,15M67FC000G?ufbE`FepT@3n00Sa,0*5C', b' !AIVDM,1,1,,A,1,0*00'])]
        else:
            kind = rng.random()
            if kind < 0.55:
                bits = random_bits(rng, 168, rng.choice([1, 2, 3, 18]))
            elif kind < 0.85:
                bits = random_bits(rng, 424, 5)
            else:
                bits = random_bits(rng, rng.choice([800, 1000, 1064]), rng.choice([8, 26]))
            seq = (seq + 1) % 10
            sents = ais.bits_to_sentences(bits, talker=rng.choice(['AIVDM', 'AIVDO', 'BSVDM']),
                                          channel=rng.choice(['A', 'B']), seq=seq if len(bits) > 360 else None)
            if rng.random() < 0.15:      # tag block in front of every sentence of the message
                tb = b's:st%d,c:%d' % (rng.randrange(100), 1241544035 + rng.randrange(1000))
                if rng.random() < 0.4:      # station names are free text: UTF-8 and Latin-1 bytes (a chunk may end inside a character)
                    tb = rng.choice([b's:G\xc3\xb6teborg', b's:\xe2\x82\xacuro\xf0\x9f\x9a\xa2', b's:caf\xe9', b's:\xff\xfe']) + b',c:%d' % (
                        1241544035 + rng.randrange(1000))
                sents = [b'\\' + tb + b'*' + format(ais.xor_checksum(tb), '02X').encode() + b'\\' + x for x in sents]
            n_ais += 1
            if rng.random() < 0.15:      # a Gatehouse wrapper line in front of the message (attached to it on delivery)
                wb = b'PGHP,1,%d,%d,%d,%d,%d,%d,%d,219,,2190047,1,%02X' % (rng.randrange(2000, 2030), rng.randrange(1, 13),
                                                                          rng.randrange(1, 29), rng.randrange(24), rng.randrange(60),
                                                                          rng.randrange(60), rng.randrange(1000), rng.randrange(256))
                sents = [b'$' + wb + b'*' + format(ais.xor_checksum(wb), '02X').encode()] + sents
        term_mode = rng.random()
        for s in sents:
            t = b'\n' if term_mode < 0.3 else b'\r\n' if term_mode < 0.8 else rng.choice([b'\n', b'\r\n'])
            lines.append(s + t)
    return lines, n_ais


def line_spans(lines):
    spans, pos = [], 0
    for l in lines:
        spans.append((pos, pos + len(l)))
        pos += len(l)
    return spans


def directed_segmentations(rng, lines):
    """-> list of (kind, cuts) for one stream."""
    s = b''.join(lines)
    n = len(s)
    spans = line_spans(lines)
    out = [('whole', []), ('per-line', [e for _, e in spans]), ('one-byte', list(range(1, n)))]
    for k in (2, 3, 7, 16, 64):
        out.append((f'fixed-{k}', list(range(k, n, k))))
    for p in (0.01, 0.03, 0.1, 0.3, 0.6):
        out.append((f'random-{p}', [i for i in range(1, n) if rng.random() < p]))
    # a newline-free chunk strictly inside one line (everything else in whole lines)
    long_lines = [(a, e) for (a, e), l in zip(spans, lines) if len(l.rstrip(b'\r\n')) >= 3]
    if long_lines:
        for _ in range(3):
            a, e = rng.choice(long_lines)
            content_end = a + len(s[a:e].rstrip(b'\r\n'))
            c1 = rng.randrange(a + 1, content_end - 1)
            c2 = rng.randrange(c1 + 1, content_end)
            out.append(('newline-free', [x for _, x in spans] + [c1, c2]))
        # a newline-free chunk that starts the stream / starts at a line boundary
        a, e = rng.choice(long_lines)
        out.append(('newline-free-at-line-start', [x for _, x in spans] + [rng.randrange(a + 1, e - 2)]))
        # several consecutive newline-free chunks
        a, e = rng.choice(long_lines)
        content_end = a + len(s[a:e].rstrip(b'\r\n'))
        k = rng.randrange(3, 7)
        out.append(('consecutive-newline-free',
                    [x for _, x in spans] + [rng.randrange(a + 1, content_end) for _ in range(k)]))
        out.append(('consecutive-newline-free-only', [rng.randrange(a + 1, content_end) for _ in range(k)]))
    crlf = [e - 1 for (a, e), l in zip(spans, lines) if l.endswith(b'\r\n')]
    if crlf:
        out.append(('cr|lf-split-all', crlf))
        out.append(('cr|lf-split-one', [rng.choice(crlf)]))
        out.append(('cr|lf-split+random', crlf + [i for i in range(1, n) if rng.random() < 0.05]))
        c = rng.choice(crlf)
        out.append(('chunk-is-CRLF', [c - 1, c + 1]))
        out.append(('chunk-is-CR', [c - 1, c]))
        out.append(('chunk-is-LF-of-CRLF', [c, c + 1]))
        out.append(('chunk-ends-in-CR', [c] + [x for _, x in spans]))
    lf = [e - 1 for (a, e), l in zip(spans, lines) if not l.endswith(b'\r\n')]
    if lf:
        c = rng.choice(lf)
        out.append(('chunk-is-LF', [c, c + 1]))
    return out


SHORT_LINES = [b'a\n', b'ab\n', b'abc\n', b'a\r\n', b'ab\r\n', b'\n', b'\r\n', b'b\n', b'abcd\r\n', b'ba\r\n', b'abcde\n']


def short_streams(rng, max_len, count, min_len=3):
    """streams of terminated lines of total length min_len..max_len: a fixed core plus random ones."""
    core = [[b'ab\n', b'c\r\n'], [b'a\r\n', b'b\r\n', b'\r\n'], [b'abc\r\n', b'\n', b'ab\n'], [b'abcde\r\n', b'ab\r\n'],
            [b'abcd\r\n', b'\r\n', b'ab\n', b'a\r\n']]
    out = [c for c in core if min_len <= sum(map(len, c)) <= max_len]
    guard = 0
    while len(out) < count and guard < 100000:
        guard += 1
        ls = []
        while True:
            l = rng.choice(SHORT_LINES)
            if sum(map(len, ls)) + len(l) > max_len:
                break
            ls.append(l)
            if rng.random() < 0.25:
                break
        if sum(map(len, ls)) >= min_len and ls not in out:
            out.append(ls)
    return out


def outside_streams(rng):
    """(kind, chunks) pairs outside the property's quantifier: model-vs-code only."""
    out = []
    alpha = [b'a', b'b', b'\r', b'\n', b'\r\n', b'\n', b'!', b'$AIVDM,1,1,,A,', b'\x0b', b'\x0c', b'\x1c', b'\x85',
             b'\x00', b'\xff', b' ']
    for _ in range(60):
        s = b''.join(rng.choice(alpha) for _ in range(rng.randrange(1, 14)))
        out.append(('outside:random-bytes', cut(s, [i for i in range(1, len(s)) if rng.random() < 0.4])))
    for s in (b'a\rb\n', b'a\r', b'\r', b'\r\r\n', b'abc', b'a\nbc', b'a\r\nb\rc\n', b'\n\r', b'a\r\r\nb', b'\r\n\r',
              b'ab\rcd\ref\n', b'!AIVDM,1,1,,A,15M\r!AIVDM,1,1,,B,15N\r\n'):
        for cuts in all_segmentations(len(s)) if len(s) <= 9 else [[], [3], [17, 18], list(range(1, len(s)))]:
            out.append(('outside:bare-cr/unterminated', cut(s, cuts)))
    # an empty recv() result in the middle ends the stream there
    for chunks in ([b'ab\n', b'', b'cd\n'], [b'ab', b'', b'cd\n'], [b''], [], [b'', b'ab\n'], [b'a\r', b'', b'\n'],
                   [b'ab\ncd', b'', b'ef\n']):
        out.append(('outside:empty-chunk', list(chunks)))
    return out


# --------------------------------------------------------------------------------------------------------------------
# model side
# --------------------------------------------------------------------------------------------------------------------
def hx(b):
    return b.hex() if b else '-'


def unhx(w):
    return b'' if w == '-' else bytes.fromhex(w)


def parse_lines(txt):
    words = txt.split()
    n = int(words[0])
    ls = [unhx(w) for w in words[1:]]
    assert len(ls) == n, txt
    return ls


def ask_grouped(model, reqs):
    """ask_many in groups whose request text stays below MAX_REQ bytes (pipe buffers)."""
    out, group, size = [], [], 0
    for r in reqs:
        if group and size + len(r) > MAX_REQ:
            out.extend(model.ask_many(group, batch=len(group)))
            group, size = [], 0
        group.append(r)
        size += len(r) + 1
    if group:
        out.extend(model.ask_many(group, batch=len(group)))
    return out


def model_c06(model, chunk_lists):
    reps = ask_grouped(model, ['c06 ' + ' '.join(hx(c) for c in cs) if cs else 'c06' for cs in chunk_lists])
    out = []
    for r in reps:
        if r.startswith('ERROR'):
            raise RuntimeError('model driver: ' + r)
        a, b, c = r.split('|')
        out.append({'read': parse_lines(a), 'iter': parse_lines(b), 'chunks_ok': c == '1'})
    return out


def model_lines_ok(model, line_lists):
    reps = ask_grouped(model, ['linesok ' + ' '.join(hx(l) for l in ls) if ls else 'linesok' for ls in line_lists])
    return [r == '1' for r in reps]


# --------------------------------------------------------------------------------------------------------------------
# oracle
# --------------------------------------------------------------------------------------------------------------------
def lines_oracle(lines, got):
    """the property on list(read()): exactly the original lines, each once, complete and in order.
    -> None or (kind, text)."""
    if got['exc']:
        return 'foreign-exception:' + got['exc'], f"read() raised {got['exc']}"
    out = got['lines']
    if out == lines:
        return None
    missing = [l for l in set(lines) if out.count(l) < lines.count(l)]
    extra = [l for l in out if out.count(l) > lines.count(l)]
    if missing:
        kind = 'lost'
    elif len(out) > len(lines) or extra:
        kind = 'duplicated'
    else:
        kind = 'wrong-order'
    return kind, f'read() yields {show(out)} for the lines {show(lines)}'


def msgs_oracle(ref, got):
    if got == ref:
        return None
    if any(m[0] == 'EXCEPTION' for m in got):
        return 'foreign-exception:' + [m[1] for m in got if m[0] == 'EXCEPTION'][0], 'iteration raised'
    if any(got.count(m) < ref.count(m) for m in ref):
        kind = 'lost'
    elif len(got) > len(ref):
        kind = 'duplicated'
    else:
        kind = 'wrong-order'
    return kind, f'{len(got)} messages delivered, {len(ref)} with one line per recv()'


def show(bs, n=6, w=48):
    """short readable form of a list of byte strings."""
    items = [repr(b if len(b) <= w else b[:w - 10] + b'...' + b[-6:])[1:] for b in bs[:n]]
    return '[' + ', '.join(items) + (f', ... {len(bs)} items' if len(bs) > n else '') + ']'


_PREV = {}     # the reader runs that preceded the current one in this process (variant, chunks): a failure caused by what an
#                EARLIER reader object left behind (class-level / module-level state) only reproduces after them


def replay_data(lines, chunks, variant, entry):
    return {'entry': entry, 'variant': variant, 'lines_hex': [l.hex() for l in lines],
            'chunks_hex': [c.hex() for c in chunks],
            'chunks_text': [c.decode('latin-1') for c in chunks][:40], 'leaping_clock': bool(_PREV.get('leaping')),
            'previous': [{'variant': v, 'chunks_hex': [c.hex() for c in ch]} for v, ch in _PREV.get('runs', [])]}


# --------------------------------------------------------------------------------------------------------------------
# running cases
# --------------------------------------------------------------------------------------------------------------------
def check_cases(ctx, cases, with_messages=False, variants=VARIANTS, samples=True):
    """cases: list of (kind, lines or None, chunks).  lines None = outside the quantifier (model-vs-code only)."""
    rep = ctx.rep
    if not cases:
        return
    models = model_c06(ctx.model, [c[2] for c in cases]) if ctx.model else None
    inside = None
    if ctx.model:
        idx = [i for i, c in enumerate(cases) if c[1] is not None]
        oks = model_lines_ok(ctx.model, [cases[i][1] for i in idx])
        inside = dict(zip(idx, oks))
    ref_cache = {}
    for n, (kind, lines, chunks) in enumerate(cases):
        variant = variants[n % len(variants)]
        stream = b''.join(chunks)
        rep.case((stream, tuple(len(c) for c in chunks), variant), kind=kind)
        _PREV['runs'] = _PREV.get('now', [])[-2:]
        _PREV['leaping'] = (n % 7 == 3)
        if _PREV['leaping']:
            import leapclock
            with leapclock.leaping():      # an hour passes between any two clock readings (a chunk may come late)
                got = impl_read(variant, chunks)
        else:
            got = impl_read(variant, chunks)
        _PREV['now'] = _PREV['runs'] + [(variant, chunks)]
        classes = seg_class(chunks)
        for c in classes:
            rep.count('seg:' + c)
        # (a) correspondence, every stream
        if models is not None:
            m = models[n]
            if got['exc'] or got['lines'] != m['read']:
                rep.disagree('H-socket', {'entry': f'{variant}.read', 'chunks_hex': [c.hex() for c in chunks]},
                             [x.hex() for x in m['read']], {'lines': [x.hex() for x in got['lines']], 'exc': got['exc']})
            it = impl_iter_lines(variant, chunks)
            if it['exc'] or it['lines'] != m['iter']:
                rep.disagree('H-socket', {'entry': f'{variant}._iter_messages', 'chunks_hex': [c.hex() for c in chunks]},
                             [x.hex() for x in m['iter']],
                             {'lines': None if it['lines'] is None else [x.hex() for x in it['lines']], 'exc': it['exc']})
        if lines is None:
            rep.count('outside-quantifier')
            continue
        # inside the quantifier?  (the spec's own decision, extracted)
        if inside is not None:
            if not (inside[n] and models[n]['chunks_ok'] and stream == b''.join(lines)):
                rep.internal(f'generator produced a case outside the quantifier: {lines!r} {chunks!r}')
                continue
        rep.count('inside-quantifier')
        # (b) oracle on read()
        bad = lines_oracle(lines, got)
        if bad:
            rep.violation({'entry': 'SocketStream.read', 'component': 'lines', 'kind': bad[0], 'segmentation': sig_class(chunks)},
                          f'{variant}.read() with recv() results {show(chunks)} (hex {[c.hex() for c in chunks][:6]}): {bad[1]}',
                          replay_data(lines, chunks, variant, 'read'))
        # (b') oracle on the delivered messages
        if with_messages:
            key = tuple(lines)
            if key not in ref_cache:
                ref_cache[key] = impl_messages('SocketStream', list(lines))      # one complete line per recv()
            ref = ref_cache[key]
            msgs = impl_messages(variant, chunks)
            rep.count('messages-compared', len(ref))
            badm = msgs_oracle(ref, msgs)
            if badm:
                rep.violation({'entry': 'SocketStream.__iter__', 'component': 'messages', 'kind': badm[0],
                               'segmentation': sig_class(chunks)},
                              f'iterating {variant} with recv() results {show(chunks)}: {badm[1]}; '
                              f'delivered raw = {show([raw_of(m) for m in msgs])}',
                              replay_data(lines, chunks, variant, 'iter'))
        if samples and n % 211 == 0:
            rep.sample({'kind': kind, 'variant': variant, 'chunks': [c.decode('latin-1') for c in chunks][:10],
                        'lines_out': [x.decode('latin-1') for x in got['lines']][:6]})


def prim_check(ctx):
    """bytes.splitlines(keepends=True) / endswith of the model against CPython."""
    rep, rng = ctx.rep, ctx.rng
    if not ctx.model:
        return
    strings = []
    for n in range(0, 9):
        for t in itertools.product(b'a\r\n', repeat=n):
            strings.append(bytes(t))
    n_exh = len(strings)
    alpha = b'ab\r\n\r\n\x0b\x0c\x1c\x1d\x1e\x85\x00\xff !$,*'
    for _ in range(ctx.budget(1500, 30000)):
        strings.append(bytes(rng.choice(alpha) for _ in range(rng.randrange(0, 40))))
    reps = ask_grouped(ctx.model, ['splitlines ' + hx(s) for s in strings])
    for s, r in zip(strings, reps):
        rep.case(('splitlines', s), kind='prim:splitlines')
        want = s.splitlines(keepends=True)
        if r.startswith('ERROR') or parse_lines(r) != want:
            rep.disagree('H-prim-splitlines', {'bytes_hex': s.hex()}, r, [x.hex() for x in want])
    ends = [s for s in strings[:n_exh] if len(s) <= 4]
    reps = ask_grouped(ctx.model, [f'endswith1 {hx(s)} 10' for s in ends])
    for s, r in zip(ends, reps):
        rep.case(('endswith', s), kind='prim:endswith')
        if r != ('1' if s.endswith(b'\n') else '0'):
            rep.disagree('H-prim-endswith', {'bytes_hex': s.hex()}, r, s.endswith(b'\n'))
    rep.exhaustive.append(f'bytes.splitlines(keepends=True): all {n_exh} strings of length <= 8 over {{a, CR, LF}}')


def ais_cases(ctx, n_streams):
    rng = ctx.rng
    cases = []
    for _ in range(n_streams):
        lines, _n = ais_stream(rng, rng.randrange(1, 6))
        s = b''.join(lines)
        for kind, cuts in directed_segmentations(rng, lines):
            cases.append((kind, lines, cut(s, cuts)))
    return cases


def buffer_size_cases(ctx):
    """Long streams cut into chunks of exactly the receive buffer size (recv(BUF_SIZE) / recvfrom(BUF_SIZE) return at most that
    many bytes, and a busy peer fills them), one byte less and -- for the scripted socket -- one byte more: a full chunk ends
    inside a line almost always."""
    import pyais.stream as st
    rng = ctx.rng
    size = int(getattr(st, 'BUF_SIZE', 4096))
    cases = []
    for _ in range(ctx.budget(2, 12)):
        lines = []
        while sum(len(x) for x in lines) < 3 * size + 500:
            more, _n = ais_stream(rng, 8)
            lines += more
        s = b''.join(lines)
        for step in (size, size - 1, size + 1):
            cuts = list(range(step, len(s), step))
            cases.append(('chunk-of-buffer-size', lines, cut(s, cuts)))
        first = rng.randrange(1, size)
        cases.append(('chunk-of-buffer-size', lines, cut(s, [first] + list(range(first + size, len(s), size)))))
    return cases


def enumerated_short(ctx, max_len, count, min_len=3):
    cases = []
    for ls in short_streams(ctx.rng, max_len, count, min_len):
        s = b''.join(ls)
        for cuts in all_segmentations(len(s)):
            cases.append((f'all-segmentations-len{len(s)}', ls, cut(s, cuts)))
        ctx.rep.exhaustive.append(f'all {1 << (len(s) - 1)} segmentations of {s!r}')
    return cases


def one_two_cut_cases(ctx, n_msgs):
    """all segmentations with one or two cuts of one AIS stream (messages observed)."""
    lines, _ = ais_stream(ctx.rng, n_msgs)
    s = b''.join(lines)
    cases = [('all-1-cut', lines, cut(s, [i])) for i in range(1, len(s))]
    for i, j in itertools.combinations(range(1, len(s)), 2):
        cases.append(('all-2-cut', lines, cut(s, [i, j])))
    ctx.rep.exhaustive.append(f'all 1- and 2-cut segmentations of an AIS stream of {len(s)} bytes')
    return cases


def filter_boundary_cases(ctx):
    """Stream._iter_messages drops lines with len(line) <= 10 (terminator included) and lines should_parse() rejects:
    lines of 9, 10, 11 and 12 bytes with every accepted and some rejected first bytes, LF and CRLF."""
    lines = []
    for first in (b'!', b'$', b'\\', b'x', b' ', b'#', b'"', b'%', b'[', b']'):
        for n in (9, 10, 11, 12):
            for term in (b'\n', b'\r\n'):
                lines.append(first + b'AIVDM,1,1,,A'[:n - 1 - len(term)] + term)
    assert {len(l) for l in lines} == {9, 10, 11, 12}
    s = b''.join(lines)
    cases = [(f'filter-boundary:{k}', lines, cut(s, cuts)) for k, cuts in directed_segmentations(ctx.rng, lines)]
    return cases


def run_in_slices(ctx, cases, size=4000, **kw):
    for i in range(0, len(cases), size):
        check_cases(ctx, cases[i:i + size], **kw)


def run(ctx):
    prim_check(ctx)
    # all segmentations of short streams (first: the shortest failing inputs make the most readable replays)
    if ctx.quick:
        run_in_slices(ctx, enumerated_short(ctx, 12, 5), samples=False)
    else:
        run_in_slices(ctx, enumerated_short(ctx, 12, 30), samples=False)
        run_in_slices(ctx, enumerated_short(ctx, 16, 7, min_len=13), samples=False)
    check_cases(ctx, filter_boundary_cases(ctx), with_messages=True, samples=False)
    # AIS streams x directed segmentations, messages observed
    run_in_slices(ctx, ais_cases(ctx, ctx.budget(60, 1500)), with_messages=True)
    check_cases(ctx, buffer_size_cases(ctx), with_messages=True, samples=False)
    # all 1- and 2-cut segmentations of an AIS stream, messages observed
    if ctx.quick:
        cases = one_two_cut_cases(ctx, 2)
        run_in_slices(ctx, ctx.rng.sample(cases, min(len(cases), 2500)), with_messages=True, samples=False)
    else:
        run_in_slices(ctx, one_two_cut_cases(ctx, 3), with_messages=True, samples=False)
    # outside the quantifier: model vs code only
    check_cases(ctx, [(k, None, cs) for k, cs in outside_streams(ctx.rng)], samples=False)
    self_check(ctx)
    if not ctx.quick:
        loopback_smoke(ctx)


def self_check(ctx):
    d = ctx.rep.dist
    inside = d.get('inside-quantifier', 0)
    for k in ('seg:newline-free-chunk', 'seg:cr|lf-split', 'seg:consecutive-newline-free', 'seg:terminator-chunk'):
        if inside and d.get(k, 0) < 0.05 * inside:
            ctx.rep.internal(f'generator self-check: {k} in {d.get(k, 0)} of {inside} cases (< 5 %)')


def hunt(ctx):
    """Something no longer checks: all segmentations of many more short streams, many more random AIS cases."""
    run_in_slices(ctx, enumerated_short(ctx, 14, 25), samples=False)
    run_in_slices(ctx, ais_cases(ctx, 400), with_messages=True, samples=False)


def replay(ctx, data):
    lines = [bytes.fromhex(x) for x in data['lines_hex']]
    chunks = [bytes.fromhex(x) for x in data['chunks_hex']]
    variant = data.get('variant', 'SocketStream')

    def once():
        import contextlib
        import leapclock
        with (leapclock.leaping() if data.get('leaping_clock') else contextlib.nullcontext()):
            if data.get('entry') == 'iter':
                bad = msgs_oracle(impl_messages('SocketStream', list(lines)), impl_messages(variant, chunks))
            else:
                bad = lines_oracle(lines, impl_read(variant, chunks))
        return f'{bad[0]}: {bad[1]}' if bad else None
    for p in data.get('previous') or []:    # the reader runs that preceded it in the recorded run, in order (new reader objects)
        impl_read(p['variant'], [bytes.fromhex(x) for x in p['chunks_hex']])
    return once()


# --------------------------------------------------------------------------------------------------------------------
# supporting only: the same bytes through real loopback sockets
# --------------------------------------------------------------------------------------------------------------------
class LoggingSock:
    """delegates to a real socket and records what recv()/recvfrom() actually returned."""

    def __init__(self, sock):
        self.sock = sock
        self.log = []

    def recv(self, n):
        b = self.sock.recv(n)
        self.log.append(b)
        return b

    def recvfrom(self, n):
        b, addr = self.sock.recvfrom(n)
        self.log.append(b)
        return b, addr

    def close(self):
        self.sock.close()


def tcp_once(chunks, observe):
    """send the chunks over a loopback TCP connection to a real TCPConnection -> (observed, chunks actually received)."""
    import socket
    import threading
    import time
    from pyais.stream import TCPConnection
    srv = socket.socket(socket.AF_INET, socket.SOCK_STREAM)
    srv.setsockopt(socket.SOL_SOCKET, socket.SO_REUSEADDR, 1)
    srv.bind(('127.0.0.1', 0))
    srv.listen(1)
    port = srv.getsockname()[1]

    def serve():
        conn, _ = srv.accept()
        try:
            conn.setsockopt(socket.IPPROTO_TCP, socket.TCP_NODELAY, 1)
            for c in chunks:
                conn.sendall(c)
                time.sleep(0.0015)
        finally:
            conn.close()

    th = threading.Thread(target=serve, daemon=True)
    th.start()
    stream = None
    try:
        stream = TCPConnection('127.0.0.1', port)
        stream._fobj.settimeout(5.0)
        log = LoggingSock(stream._fobj)
        stream._fobj = log
        got = observe(stream)
        return got, [c for c in log.log if c]
    finally:
        if stream is not None:
            stream.close()
        srv.close()
        th.join(timeout=5)


def udp_once(chunks, observe):
    """one datagram per chunk to a real UDPReceiver; an empty datagram ends the stream."""
    import socket
    import time
    from pyais.stream import UDPReceiver
    probe = socket.socket(socket.AF_INET, socket.SOCK_DGRAM)
    probe.bind(('127.0.0.1', 0))
    port = probe.getsockname()[1]
    probe.close()
    stream = UDPReceiver('127.0.0.1', port)
    snd = socket.socket(socket.AF_INET, socket.SOCK_DGRAM)
    try:
        stream._fobj.settimeout(3.0)
        log = LoggingSock(stream._fobj)
        stream._fobj = log
        for c in chunks:                 # the datagrams wait in the receiver's socket buffer (a few kB in total)
            snd.sendto(c, ('127.0.0.1', port))
            time.sleep(0.0003)
        snd.sendto(b'', ('127.0.0.1', port))
        got = observe(stream)
        return got, [c for c in log.log if c]
    finally:
        snd.close()
        stream.close()


def loopback_smoke(ctx):
    """Supporting evidence only: real TCPConnection / UDPReceiver objects on 127.0.0.1.  What recv()/recvfrom() really
    returned is recorded; if the recorded chunks are a segmentation of the stream sent, the lines read must be the
    original lines (the kernel's segmentation is one of those the theorem covers).  Anything that prevents the
    transport from working (no loopback, timeouts, lost datagrams) makes the smoke test inconclusive, not failed."""
    rep, rng = ctx.rep, ctx.rng
    done = {'tcp': 0, 'udp': 0}
    inconclusive = []
    for n in range(ctx.budget(0, 40)):
        lines, _ = ais_stream(rng, rng.randrange(1, 5))
        s = b''.join(lines)
        kind, cuts = rng.choice(directed_segmentations(rng, lines))
        chunks = cut(s, cuts)
        if len(chunks) > 150:
            chunks = cut(s, list(range(3, len(s), 3)))
        for proto, once in (('tcp', tcp_once), ('udp', udp_once)):
            for entry, observe in (('read', lambda st: [bytes(x) for x in st.read()]),
                                   ('iter', lambda st: [canon_msg(m) for m in st])):
                if entry == 'iter' and n % 4:
                    continue
                try:
                    got, received = once(chunks, observe)
                except Exception as e:  # noqa: BLE001 -- transport trouble: inconclusive
                    inconclusive.append(f'{proto}: {type(e).__name__}: {e}')
                    continue
                if b''.join(received) != s:
                    inconclusive.append(f'{proto}: bytes received differ from bytes sent (lost/reordered datagrams)')
                    continue
                done[proto] += 1
                rep.case((proto, entry, s, tuple(map(len, received))), kind=f'loopback-{proto}-{entry}')
                if entry == 'read':
                    bad = lines_oracle(lines, {'lines': got, 'exc': None})
                else:
                    bad = msgs_oracle(impl_messages('SocketStream', list(lines)), got)
                if bad:
                    variant = 'TCPConnection' if proto == 'tcp' else 'UDPReceiver'
                    rep.violation({'entry': f'{variant}(loopback).{entry}', 'component': 'lines' if entry == 'read' else 'messages',
                                   'kind': bad[0], 'segmentation': sig_class(received)},
                                  f'real {variant} on 127.0.0.1, recv() returned {show(received)}: {bad[1]}',
                                  replay_data(lines, received, variant, entry))
    rep.notes.append(f"loopback smoke test (supporting only): {done['tcp']} TCP and {done['udp']} UDP transfers compared, "
                     f"{len(inconclusive)} inconclusive" + (f" (first: {inconclusive[0]})" if inconclusive else ''))
