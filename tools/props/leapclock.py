"""A clock that leaps: while the context is active every reading of time.monotonic / time.time / time.perf_counter (and the
_ns variants) is an hour later than the previous one.  The modelled code never reads a clock in the reader, queue, tag block
and socket paths, so running a case under this clock must change nothing; a time-out, an expiry or an age limit slipped into
those paths shows at once (an hour passes between any two lines)."""
import contextlib
import time

_NAMES = ('monotonic', 'time', 'perf_counter')


@contextlib.contextmanager
def leaping(step=3600.0):
    saved = {n: getattr(time, n) for n in _NAMES}
    saved.update({n + '_ns': getattr(time, n + '_ns') for n in _NAMES})
    state = {n: saved[n]() for n in _NAMES}

    def mk(n, ns):
        def f():
            state[n] += step
            return int(state[n] * 1e9) if ns else state[n]
        return f
    try:
        for n in _NAMES:
            setattr(time, n, mk(n, False))
            setattr(time, n + '_ns', mk(n, True))
        yield
    finally:
        for k, v in saved.items():
            setattr(time, k, v)
