"""C02 -- encode then decode returns the message that was encoded.

Model: Model/Codec.v (create_msg / create_cls, to_bitarray, encode_ascii_6, decode_into_bit_array, decode_bits) over the
regenerated tables.  Correspondence: the extracted chain vs the implementation on the same field assignment through the
three public paths (encode_dict with `type`, encode_dict with `msg_type`, MessageTypeN.create() + encode_msg), compared
stage by stage: created attributes, payload bits, armored payload + fill, decoded message; and, for the same cases,
the FULL path in the model (encode_msg / encode_dict -> decode_api, the function C02_end_to_end is about) against
pyais.decode(*pyais.encode_dict(d)) / pyais.decode(*pyais.encode_msg(m)): the sentences and the decoded message.
Oracle: Spec/RoundTripSpec.v (extracted in_range / normalise / tolerance) on pyais.decode(*encode...(assignment))."""
import os
import sys
from fractions import Fraction

sys.path.insert(0, os.path.dirname(os.path.abspath(__file__)))
import codec_common as cc  # noqa: E402
import codecrt_common as rc  # noqa: E402

GEN = ['GenTables.v', 'GenDispatch.v', 'GenConv.v', 'GenEnums.v', 'GenAlpha.v']
RULE = ('field assignments for each of the 35 layout variants x 3 API paths: PRNG-drawn in-range assignments (each optional '
        'field present with p=0.7, msg_type present or not, wire-representable and non-representable reals given as finite '
        'decimals, ints for real fields, enum members and plain codes, text over the full alphabet incl. @, blanks, lower '
        'case, bytes of every admissible length) plus per-field sweeps of boundary values (codes 0, 1, max, max-1, sign '
        'boundary, sentinels, quantisation ties and their neighbours, all 64 characters at the first/middle/last position, '
        'bytes of length 0..ceil(w/8)) each in a random context, plus an out-of-range stream (model-vs-code only); '
        'distinct = distinct (class, API path, assignment)')
ASSUMPTIONS = ['binary64 arithmetic obeys the standard model: a user-supplied real is the decimal it is written as; model and '
               'code are compared on every stage except where a supplied real lies within 1e-6 (positions) / 1e-9 (others) '
               'code units of a quantisation tie, where only the property oracle (tolerance) is applied',
               'sentence framing and parsing (encode.ais_to_nmea_0183, the NMEA parser) are exercised by the implementation '
               'side of every case; their models belong to C09 / C04 and are not part of the Coq statement of C02']
TRUSTED_EXTRA = ['Spec/RoundTripSpec.v (in_range, normalise, tolerance) over the hand-transcribed layouts of Spec/Layout.v']

ENTRY = 'encode+decode'


def guard_suffix(g):
    names = [n for n, bit in zip(('short-data', 'inherited-type', 'empty-varlen'), g) if bit == '1']
    return ('/' + '+'.join(names)) if names else ''


def oracle(rep, lay, api, a, spec_reply, impl, replay):
    """the demand of C02 on the implementation's result for an in-range assignment; -> number of violations"""
    inr, guards, norm, kinds, tols, alts = spec_reply.split(' ')
    if inr != '1':
        return 0
    suffix = guard_suffix(guards)
    expected = dict(cc.parse_fields(norm))
    kind = {k: v.split(':')[0] for k, v in cc.parse_fields(kinds)}
    tol = dict(cc.parse_fields(tols))
    alt = dict(cc.parse_fields(alts))
    shown = {k: cc.show(v) for k, v in a.items()}
    n = 0

    def viol(component, knd, what):
        nonlocal n
        n += 1
        rep.violation({'entry': ENTRY, 'class': lay.cls, 'component': component, 'kind': knd + suffix},
                      f'{lay.cls} via {api}: {what}; assignment {shown}', replay)

    if 'error' in impl:
        viol('exception', f'exception:{impl["error"][1]}', f'{impl["error"][0]} raised {impl["error"][1]} on an in-range assignment')
        return n
    dec = impl['decoded']
    if dec[0] == 'Raise':
        viol('exception', f'exception:{dec[1]}', f'decoding the produced sentences raised {dec[1]}')
        return n
    if dec[1] != lay.cls:
        viol('variant', 'wrong-class', f'the encoded message decodes as {dec[1]}')
        return n
    got = dict(dec[2])
    for name, val in a.items():
        g = got.get(name)
        exp = expected[name]
        k = kind[name]
        ok = True
        if k in rc.SCALE:
            x = rc.real_fraction(val)
            y = rc.real_fraction(g)
            if type(g) is not float or y is None:
                ok = False
            else:
                tn, td, strict = tol[name].split('/')
                bound = Fraction(int(tn), int(td))
                d = abs(y - x)
                ok = d < bound if strict == '1' else d <= bound
                en, ed = exp[1:].split('/')
                if Fraction(int(en), int(ed)) == x:          # already wire-representable: must come back unchanged
                    ok = ok and y == x
                if ok and k in ('LL', 'LL600') and d > Fraction(1, 2 * rc.SCALE[k]):
                    # inside the proved bound (half a step + half a unit of the 6th decimal) but beyond the property's
                    # literal half step: the decoder's six-decimal reporting -- an OPEN known finding, reported as such
                    n += 1
                    rep.violation({'entry': ENTRY, 'class': lay.cls, 'component': 'position-half-step',
                                   'kind': 'beyond-half-step'},
                                  f'{lay.cls} via {api}: {name} = {cc.show(val)} comes back as {cc.show(g)}, '
                                  f'{float(d):.3e} away: more than half a wire step ({float(Fraction(1, 2 * rc.SCALE[k])):.3e})',
                                  replay)
        elif k == 'ROT' and exp[0] == 'f':
            x = rc.real_fraction(val)
            ok = any(cc.spec_value_matches(g, t) for t in alt[name].split('|'))
            en, ed = exp[1:].split('/')
            if Fraction(int(en), int(ed)) == x:
                ok = ok and type(g) is float and rc.real_fraction(g) == x
        else:
            ok = cc.spec_value_matches(g, exp)
        if not ok:
            viol(name, 'wrong-value', f'{name} = {cc.show(val)} comes back as {cc.show(g)} (demanded: {exp})')
    return n


def run_cases(ctx, lay, cases, use_oracle=True):
    """cases: list of (kind, api, assignment)"""
    rep = ctx.rep
    lines = []
    for _, api, a in cases:
        txt = rc.assignment_text(a)
        target = lay.cls if api == 'create+encode_msg' else str(lay.tid)
        kw = txt
        lines.append(f'c02model {target} {kw}')
        lines.append(f'rtspec {lay.cls} {txt}')
    replies = ctx.model.ask_many(lines) if ctx.model else None
    e2e_replies = e2e_ask(ctx, lay, cases)
    for i, (kind, api, a) in enumerate(cases):
        rep.case((lay.cls, api, sorted((k, repr(v)) for k, v in a.items())), kind=kind)
        impl = rc.impl_roundtrip(lay, api, a)
        replay = {'class': lay.cls, 'api': api, 'assignment': {k: cc.value_text(v) for k, v in a.items()}}
        if impl.get('aliasing'):
            rep.violation({'entry': api, 'class': lay.cls, 'component': 'result-independence', 'kind': 'aliased-result'},
                          f'{lay.cls} via {api}: {impl["aliasing"]}', dict(replay, aliasing=True))
        if replies is None:
            continue
        mrep, srep = replies[2 * i], replies[2 * i + 1]
        if srep.startswith('ERROR'):
            rep.count('spec-not-applicable')
            srep = None
        # correspondence
        if mrep.startswith('ERROR'):
            rep.internal(f'driver: {mrep} on {lines[2 * i][:300]}')
        else:
            model = rc.parse_c02model(mrep)
            if model.get('error') == 'Unmodelled' or (model.get('decoded', ('',))[0] == 'Raise' and model['decoded'][1] == 'Unmodelled'):
                rep.count('unmodelled-skipped')
            elif rc.near_tie(lay, a):
                rep.count('near-tie:oracle-only')
            else:
                diff = rc.compare_c02(impl, model)
                if diff:
                    rep.disagree('H-codec/encode', replay, mrep[:400], diff)
                elif e2e_replies is not None:
                    e2e_compare(rep, impl, e2e_replies[i], replay)
        # oracle
        if use_oracle and srep is not None:
            if srep[0] == '1':
                rep.count('in-range')
                if srep.split(' ')[1] != '000':
                    rep.count('in-range:guarded-input')
            nv = oracle(rep, lay, api, a, srep, impl, replay)
            if i % 197 == 0 and srep[0] == '1' and 'decoded' in impl and impl['decoded'][0] == 'Ok':
                rep.sample({'class': lay.cls, 'api': api, 'assignment': {k: cc.show(v) for k, v in list(a.items())[:8]},
                            'sentences': impl.get('sentences', [])[:1],
                            'decoded': {k: cc.show(v) for k, v in impl['decoded'][2] if k in a}, 'violations': nv})


# ---- the full path in the model (composition layer; Props/C02.v C02_end_to_end is about exactly this function) ----
# encode_msg / encode_dict -> decode_api in the extracted model (driver command `e2e`, ocaml/cmd_e2e.ml) against
# pyais.decode(*pyais.encode_dict(d)) / pyais.decode(*pyais.encode_msg(m)): the sentences and the decoded message.
# Model-vs-code only (no oracle), and only for cases on which the payload-level correspondence above already agreed
# and the model is defined (not Unmodelled, not near a quantisation tie): it cannot raise an alarm on correct code
# that the stage-by-stage comparison would not raise as well, it only adds the framing + parsing + assembly stages.
E2E_API = {'create+encode_msg': 'msg', 'encode_dict:msg_type': 'dict', 'encode_dict:type': 'dicttype'}
E2E_TALKER, E2E_CHANNEL = 'AIVDO'.encode().hex(), 'A'.encode().hex()      # the defaults of encode_dict / encode_msg


def e2e_ask(ctx, lay, cases):
    if not ctx.model:
        return None
    lines = []
    for _, api, a in cases:
        target = lay.cls if api == 'create+encode_msg' else str(lay.tid)
        lines.append(f'e2e {E2E_API[api]} {target} {E2E_TALKER} {E2E_CHANNEL} {rc.assignment_text(a)}')
    replies = ctx.model.ask_many(lines)
    if any(r.startswith('ERROR unknown command') for r in replies[:1]):
        return None                                   # a driver built without ocaml/cmd_e2e.ml
    return replies


def e2e_compare(rep, impl, reply, replay):
    if reply.startswith('ERROR'):
        rep.internal(f'driver: {reply[:300]} (e2e)')
        return
    if 'error' in impl or 'sentences' not in impl or 'decoded' not in impl:
        return                                        # outcome already compared by compare_c02
    if reply.startswith('Raise '):
        if reply[6:].strip() == 'Unmodelled':
            rep.count('e2e:unmodelled-skipped')
        else:
            rep.disagree('H-e2e/encode-decode', replay, reply[:400], f"outcome: impl Ok model {reply[:80]}")
        return
    left, right = reply[3:].split(' | ', 1)
    if right.strip() == 'Raise Unmodelled':
        rep.count('e2e:unmodelled-skipped')
        return
    rep.count('e2e:full-path-compared')
    msent = [] if left.strip() == '-' else [bytes.fromhex(h).decode('latin-1') for h in left.strip().split(',')]
    if list(impl['sentences']) != msent:
        rep.disagree('H-e2e/encode-decode', replay, reply[:400],
                     f"sentences: impl {list(impl['sentences'])[:2]} model {msent[:2]}")
        return
    d = cc.compare_model(impl['decoded'], cc.parse_msg(right))
    if d:
        rep.disagree('H-e2e/encode-decode', replay, reply[:400], 'decoded through the full path: ' + d)


def build_cases(ctx, lay, n_random, per_field, n_bad):
    rng = ctx.rng
    cases = []
    for api in rc.APIS:
        for _ in range(n_random):
            cases.append(('random', api, rc.random_assignment(rng, lay, api, p_present=rng.choice([0.3, 0.7, 1.0]))))
    # only the fields the API requires (every other field takes its default)
    for api in rc.APIS:
        cases.append(('defaults', api, rc.random_assignment(rng, lay, api, p_present=0.0)))
    # per-field sweeps of boundary values, each in a random context
    for f in lay.fields:
        if f.name == 'msg_type' or f.name in lay.disc:
            continue
        vals = rc.boundary_values(f)
        if per_field and len(vals) > per_field:
            head = vals[:per_field // 2]
            vals = head + rng.sample(vals[per_field // 2:], per_field - len(head))
        for v in vals:
            api = rng.choice(rc.APIS)
            cases.append(('sweep:' + f.kind, api, rc.random_assignment(rng, lay, api, p_present=rng.choice([0.2, 0.8]),
                                                                      focus=(f.name, v))))
    # bytes of every length 0..ceil(w/8)+1 (short widths) / a spread of lengths (long fields)
    for f in lay.fields:
        if f.kind in ('D', 'X'):
            full = (f.width + 7) // 8
            lens = range(full + 2) if full <= 16 or not ctx.quick else sorted({0, 1, 2, 3, full // 2, full - 2, full - 1, full, full + 1})
            for ln in lens:
                b = bytes(rng.getrandbits(8) | 1 for _ in range(ln))
                api = rng.choice(rc.APIS)
                cases.append(('bytes-length', api, rc.random_assignment(rng, lay, api, focus=(f.name, b))))
    # discriminators: each with the other value (the other variant), absent, or as int
    for name in lay.disc:
        for api in rc.APIS:
            a = rc.random_assignment(rng, lay, api)
            a.pop(name, None)
            cases.append(('disc-absent', api, a))
            a2 = rc.random_assignment(rng, lay, api)
            v = a2[name]
            a2[name] = (not v) if isinstance(v, bool) else (1 - v if v in (0, 1) else 0)
            cases.append(('disc-other', api, a2))
    # msg_type inconsistent with the class; required field missing
    a = rc.random_assignment(rng, lay, 'encode_dict:type')
    a['msg_type'] = (lay.tid % 27) + 1
    cases.append(('msg_type-other', 'encode_dict:type', a))
    a = rc.random_assignment(rng, lay, 'create+encode_msg')
    a.pop(rng.choice(lay.required), None)
    cases.append(('required-missing', 'create+encode_msg', a))
    # out-of-range stream
    for _ in range(n_bad):
        api = rng.choice(rc.APIS)
        f = rng.choice([f for f in lay.fields if f.name != 'msg_type' and f.name not in lay.disc])
        cases.append(('out-of-range:' + f.kind, api, rc.random_assignment(rng, lay, api, focus=(f.name, rc.out_of_range_value(rng, f)))))
    return cases


def run(ctx, n_random=None, per_field=None, n_bad=None, classes=None):
    if ctx.model is None:
        ctx.rep.note = 'no model driver'
    n_random = n_random if n_random is not None else ctx.budget(6, 150)
    per_field = per_field if per_field is not None else ctx.budget(14, 0)
    n_bad = n_bad if n_bad is not None else ctx.budget(10, 150)
    import vlib
    model = ctx.model or vlib.FastModel()
    for variant in cc.VARIANTS:
        if classes and variant[0] not in classes:
            continue
        lay = rc.layout(model, variant[0])
        if lay.tid != variant[1] or lay.nominal != variant[2]:
            ctx.rep.internal(f'harness variant table and Spec/Layout.v disagree on {variant[0]}')
            continue
        cases = build_cases(ctx, lay, n_random, per_field, n_bad)
        run_cases(ctx, lay, cases)
    share = ctx.rep.dist.get('in-range', 0) / max(1, ctx.rep.evaluations)
    if ctx.rep.evaluations and share < 0.05:
        ctx.rep.internal(f'generator self-check: only {share:.1%} of the cases are in range')


def hunt(ctx):
    run(ctx, n_random=ctx.budget(40, 300), per_field=0, n_bad=ctx.budget(20, 100))


def replay(ctx, data):
    import vlib
    m = ctx.model or vlib.FastModel()
    lay = rc.layout(m, data['class'])
    a = {k: rc.py_of_text(v) for k, v in data['assignment'].items()}
    if data.get('aliasing'):
        return rc.impl_roundtrip(lay, data['api'], a).get('aliasing')
    srep = m.ask(f'rtspec {lay.cls} {rc.assignment_text(a)}')
    if srep.startswith('ERROR') or srep[0] != '1':
        return None
    impl = rc.impl_roundtrip(lay, data['api'], a)
    rep = vlib.Report('C02', 'quick', 0)
    oracle(rep, lay, data['api'], a, srep, impl, data)
    return '; '.join(v['what'] for v in rep.violations)[:1500] if rep.violations else None
