"""C04 -- the decoded message depends only on the AIS payload, not on its NMEA carrier.

Model: Model/DecodeApi.v (decode.py _assemble_messages + AISSentence.decode) over Model/Nmea.v (sentence parsing) and
Model/Codec.v.  Correspondence: extracted decode_api vs pyais.decode(*parts) on the same carrier sentences.
Oracle: invariance -- every carrier of the same payload bits decodes to the message the plain single-sentence
!AIVDM carrier decodes to (class and every field), and none raises."""
import itertools
import os
import sys

sys.path.insert(0, os.path.dirname(os.path.dirname(os.path.abspath(__file__))))
sys.path.insert(0, os.path.dirname(os.path.abspath(__file__)))
import ais  # noqa: E402
import codec_common as cc  # noqa: E402

GEN = ['GenTables.v', 'GenDispatch.v', 'GenConv.v', 'GenEnums.v', 'GenAlpha.v', 'GenConst.v']
RULE = ('payload bit strings of every layout variant (nominal length, plus shorter field-boundary forms) x carrier '
        'transformations applied systematically: every talker of the talker table + unknown talkers x VDM/VDO (any case) x '
        'channel A/B/1/2/empty x sequence id 0-9/empty, every set of cut points into 1..5 fragments for short payloads and '
        'PRNG-drawn cut sets for long ones, every permutation of the parts (up to 5 parts), str vs bytes arguments, trailing '
        'CR LF / blanks, a leading tag block, a wrong checksum (lenient mode); a case is one (payload, carrier) pair; '
        'distinct = distinct tuples of sentences')
ASSUMPTIONS = ['carrier sentences are built by the harness (tools/ais.py), independently of pyais.encode',
               'binary64 results are compared exactly (same float), no tolerance']
TRUSTED_EXTRA = ['Spec/CarrierSpec.v: the carrier family is the one listed in the property text']

TALKERS = ['AB', 'AD', 'AI', 'AN', 'AR', 'AS', 'AT', 'AX', 'BS', 'SA', 'XX', 'ZZ']
TYPES = ['VDM', 'VDO', 'vdm', 'Vdo']
CHANNELS = ['A', 'B', '1', '2', '']
SEQS = [None] + list(range(10))


def canon(msg):
    d = msg.asdict()
    return (type(msg).__name__, tuple((k, repr(ais.canon_value(v))) for k, v in d.items()))


def impl(parts, **kw):
    import pyais
    try:
        return ('Ok', canon(pyais.decode(*parts, **kw)))
    except Exception as e:   # noqa: BLE001 -- the class of the exception is the observation
        return ('Raise', type(e).__name__, str(e)[:120])


def build(payload, fill, talker='AI', typ='VDM', channel='A', seq=None, cuts=(), order=None, as_str=False, suffix=b'',
          tag=None, bad_checksum_on=None):
    """-> list of carrier sentences (bytes or str) for the armored payload."""
    bounds = [0] + list(cuts) + [len(payload)]
    chunks = [payload[bounds[i]:bounds[i + 1]] for i in range(len(bounds) - 1)]
    n = len(chunks)
    if n > 1 and seq is None:
        seq = 0
    out = []
    for i, ch in enumerate(chunks, 1):
        s = ais.sentence(talker + typ, n, i, seq, channel, ch, fill if i == n else 0)
        if bad_checksum_on is not None and i - 1 == bad_checksum_on:
            cs = int(s[-2:], 16) ^ 0x5A
            s = s[:-2] + format(cs, '02X').encode()
        if tag is not None:
            body = tag.encode()
            s = b'\\' + body + b'*' + format(ais.xor_checksum(body), '02X').encode() + b'\\' + s
        s = s + suffix
        out.append(s.decode('ascii') if as_str else s)
    if order is not None:
        out = [out[j] for j in order]
    return out


def check(ctx, bits, base, desc, parts, kw=None):
    rep = ctx.rep
    rep.case(tuple(parts), kind=desc[0])
    got = impl(parts, **(kw or {}))
    if got != base:
        comp = 'exception' if got[0] == 'Raise' else ('class' if got[1][0] != base[1][0] else 'fields')
        kind = f'foreign-or-library-exception:{got[1]}' if got[0] == 'Raise' else 'wrong-value'
        detail = got[1] if got[0] == 'Raise' else next(
            (f'{a[0]}: {a[1]} vs {b[1]}' for a, b in zip(got[1][1], base[1][1]) if a != b), got[1][0] + ' vs ' + base[1][0])
        rep.violation({'entry': 'decode', 'component': comp, 'kind': kind, 'transformation': desc[0]},
                      f'carrier variation {desc} of the same payload decodes differently: {detail}',
                      {'bits': bits, 'parts': [p if isinstance(p, str) else p.decode('latin-1') for p in parts],
                       'as_str': isinstance(parts[0], str), 'kw': kw or {}})
    return got


def variations(rng, payload, fill, budget, exhaustive_cuts):
    n = len(payload)
    # single-sentence carrier details
    for t in TALKERS:
        for ty in TYPES[:2]:
            yield ('talker/type', t, ty), dict(talker=t, typ=ty)
    for ty in TYPES[2:]:
        yield ('type-case', ty), dict(typ=ty)
    for ch in CHANNELS:
        for sq in SEQS:
            yield ('channel/seq', ch, sq), dict(channel=ch, seq=sq)
    yield ('str',), dict(as_str=True)
    for suf in (b'\r\n', b'\n', b' ', b'  \r\n', b'\t'):
        yield ('suffix', suf.decode()), dict(suffix=suf)
        yield ('suffix+str', suf.decode()), dict(suffix=suf, as_str=True)
    for tag in ('s:2573535,c:1671533231', 'g:1-1-77', 'c:1'):
        yield ('tagblock', tag), dict(tag=tag)
    yield ('bad-checksum',), dict(bad_checksum_on=0)
    # fragmentation and order
    cutsets = []
    if n >= 2:
        if exhaustive_cuts and n <= 9:
            for k in range(1, min(4, n - 1) + 1):
                cutsets.extend(itertools.combinations(range(1, n), k))
        for _ in range(budget):
            k = rng.randint(1, min(4, n - 1))
            cutsets.append(tuple(sorted(rng.sample(range(1, n), k))))
        cutsets.append((1,))
        cutsets.append((n - 1,))
    seen = set()
    for cuts in cutsets:
        if cuts in seen or any(b - a > 200 for a, b in zip((0,) + cuts, cuts + (n,))):
            continue
        seen.add(cuts)
        k = len(cuts) + 1
        perms = list(itertools.permutations(range(k))) if k <= 3 else \
            [tuple(range(k)), tuple(reversed(range(k)))] + [tuple(rng.sample(range(k), k)) for _ in range(3)]
        for order in perms:
            opts = dict(cuts=cuts, order=order, seq=rng.choice(range(10)), channel=rng.choice(CHANNELS),
                        talker=rng.choice(TALKERS), typ=rng.choice(TYPES))
            if rng.random() < 0.3:
                opts['as_str'] = True
            if rng.random() < 0.3:
                opts['suffix'] = rng.choice([b'\r\n', b'\n', b' '])
            if rng.random() < 0.2:
                opts['tag'] = 'g:%d-%d-5' % (1, k)
            if rng.random() < 0.2:
                opts['bad_checksum_on'] = rng.randrange(k)
            yield ('fragments', k, 'in-order' if list(order) == sorted(order) else 'permuted'), opts


def run(ctx, n_payloads=None, cut_budget=None):
    rng = ctx.rng
    n_payloads = n_payloads if n_payloads is not None else ctx.budget(2, 6)
    cut_budget = cut_budget if cut_budget is not None else ctx.budget(4, 30)
    model_cases = []
    for variant in cc.VARIANTS:
        for j in range(n_payloads):
            length = variant[2]
            if j % 2 == 1:      # a shorter form (still containing the discriminators) that needs fill bits: the closing
                # fragment then differs from the others, and variable-length tails make surplus/missing bits visible
                length = rng.randrange(max(40, max(variant[3], default=0) + 1), variant[2])
                if length % 6 == 0:
                    length -= rng.choice([1, 2, 3, 4, 5])
            bits = cc.make_payload(rng, variant, length)
            payload, fill = ais.armor(bits)
            base_parts = build(payload, fill)
            base = impl(base_parts)
            ctx.rep.case(tuple(base_parts), kind='base')
            if base[0] != 'Ok':
                ctx.rep.count('base-raises:' + base[1])
                # the plain carrier itself is rejected: nothing to compare against (C01/C11 territory)
                continue
            small = ais.armor(bits[:48])          # exhaustive cut sets on a short prefix of the same payload
            for desc, opts in variations(rng, payload, fill, cut_budget, False):
                parts = build(payload, fill, **opts)
                check(ctx, bits, base, desc, parts)
                model_cases.append((bits, parts))
                if desc[0] == 'fragments' and desc[2] == 'permuted':
                    # the same parts once more, in fragment order: an earlier call must leave no trace (hidden state)
                    again = build(payload, fill, **dict(opts, order=None))
                    check(ctx, bits, base, ('fragments', desc[1], 'in-order-after-permuted'), again)
            if variant[2] <= 168 and j == 0 and not ctx.quick:
                sp, sf = small
                sbase = impl(build(sp, sf))
                if sbase[0] == 'Ok':
                    for desc, opts in variations(rng, sp, sf, 0, True):
                        if desc[0] == 'fragments':
                            check(ctx, bits[:48], sbase, desc, build(sp, sf, **opts))
            if j == 0:
                ctx.rep.sample({'variant': variant[0], 'bits': bits[:48] + '...', 'plain carrier': base_parts[0].decode(),
                                'a fragmented, permuted carrier': [p if isinstance(p, str) else p.decode() for p in
                                                                    build(payload, fill, cuts=(1,), order=(1, 0), seq=3,
                                                                          channel='B', talker='AB', typ='VDO')]})
    run_model(ctx, model_cases)


def run_model(ctx, cases):
    """model-vs-code: extracted decode_api on the same carrier sentences (driver command `decodeapi`)."""
    if not ctx.model or not cases:
        return
    import stream_glue  # noqa: F401  (written with the nmea layer)
    stream_glue.compare_decode_api(ctx, cases)


def hunt(ctx):
    run(ctx, n_payloads=ctx.budget(4, 12), cut_budget=ctx.budget(40, 120))


def replay(ctx, data):
    parts = [p if data.get('as_str') else p.encode('latin-1') for p in data['parts']]
    payload, fill = ais.armor(data['bits'])
    base = impl(build(payload, fill))
    got = impl(parts, **data.get('kw', {}))
    if base[0] == 'Ok' and got != base:
        return f'decodes differently from the plain carrier of the same payload: {got[1] if got[0] == "Raise" else "field values differ"}'
    return None
