"""C04 -- the decoded message depends only on the AIS payload, not on its NMEA carrier.

Model: Model/DecodeApi.v (decode.py _assemble_messages + AISSentence.decode) over Model/Nmea.v (sentence parsing) and
Model/Codec.v.  Correspondence: extracted decode_api vs pyais.decode(*parts) on the same carrier sentences.
Oracle: invariance -- every carrier of the same payload bits decodes to the message the plain single-sentence
!AIVDM carrier decodes to (class and every field), and none raises."""
import itertools
import os
import sys

sys.path.insert(0, os.path.dirname(os.path.dirname(os.path.abspath(__file__))))
sys.path.insert(0, os.path.dirname(os.path.abspath(__file__)))
import ais  # noqa: E402
import codec_common as cc  # noqa: E402

GEN = ['GenTables.v', 'GenDispatch.v', 'GenConv.v', 'GenEnums.v', 'GenAlpha.v', 'GenConst.v']
RULE = ('payload bit strings of every layout variant (nominal length, plus shorter field-boundary forms) x carrier '
        'transformations applied systematically: every talker of the talker table + unknown talkers x VDM/VDO (any case) x '
        'channel A/B/1/2/empty x sequence id 0-9/empty, every set of cut points into 1..5 fragments for short payloads and '
        'PRNG-drawn cut sets for long ones, every permutation of the parts (up to 5 parts), str vs bytes arguments, trailing '
        'CR LF / blanks, a leading tag block, a wrong checksum (lenient mode); a case is one (payload, carrier) pair; '
        'distinct = distinct tuples of sentences')
ASSUMPTIONS = ['carrier sentences are built by the harness (tools/ais.py), independently of pyais.encode',
               'binary64 results are compared exactly (same float), no tolerance']
TRUSTED_EXTRA = ['Spec/CarrierSpec.v: the carrier family is the one listed in the property text']

TALKERS = ['AB', 'AD', 'AI', 'AN', 'AR', 'AS', 'AT', 'AX', 'BS', 'SA', 'XX', 'ZZ']
TYPES = ['VDM', 'VDO', 'vdm', 'Vdo']
CHANNELS = ['A', 'B', '1', '2', '']
SEQS = [None] + list(range(10))


def canon(msg):
    d = msg.asdict()
    return (type(msg).__name__, tuple((k, repr(ais.canon_value(v))) for k, v in d.items()))


def impl(parts, **kw):
    import pyais
    try:
        return ('Ok', canon(pyais.decode(*parts, **kw)))
    except Exception as e:   # noqa: BLE001 -- the class of the exception is the observation
        return ('Raise', type(e).__name__, str(e)[:120])


def build(payload, fill, talker='AI', typ='VDM', channel='A', seq=None, cuts=(), order=None, as_str=False, suffix=b'',
          tag=None, bad_checksum_on=None, witness=None):
    """-> list of carrier sentences (bytes or str) for the armored payload.  If [witness] is a dict it receives how the
    carrier was made (seq, and per fragment in fragment order: chunk, talker, type, channel, checksum characters, tag block,
    trailing bytes) -- the witness of Spec/CarrierSpec.v is_carrier."""
    bounds = [0] + list(cuts) + [len(payload)]
    chunks = [payload[bounds[i]:bounds[i + 1]] for i in range(len(bounds) - 1)]
    n = len(chunks)
    if n > 1 and seq is None:
        seq = 0
    out = []
    per_part = (talker, typ, channel, tag, suffix)

    def pick(x, i):
        return x[i - 1] if isinstance(x, list) else x
    for i, ch in enumerate(chunks, 1):
        # carrier details may differ from sentence to sentence (Spec/CarrierSpec.v gives every part its own options)
        talker, typ, channel, tag, suffix = (pick(x, i) for x in per_part)
        s = ais.sentence(talker + typ, n, i, seq, channel, ch, fill if i == n else 0)
        if bad_checksum_on is not None and i - 1 == bad_checksum_on:
            cs = int(s[-2:], 16) ^ 0x5A
            s = s[:-2] + format(cs, '02X').encode()
        if tag is not None:
            body = tag.encode()
            s = b'\\' + body + b'*' + format(ais.xor_checksum(body), '02X').encode() + b'\\' + s
        if witness is not None:
            witness.setdefault('frags', []).append({
                'chunk': ch.encode(), 'talker': talker.encode(), 'type': typ.encode(), 'channel': channel.encode(),
                'checksum': s[-2:], 'tag': None if tag is None else s[1:s.index(b'\\', 1)], 'trailing': suffix})
            witness['seq'] = seq
        s = s + suffix
        str_here = as_str[i - 1] if isinstance(as_str, list) else as_str
        out.append(s.decode('utf-8') if str_here else s)
    if order is not None:
        out = [out[j] for j in order]
    return out


_RECENT = []      # the last decode() calls of this process (parts, kw): a failure that depends on an EARLIER call (hidden
#                   state in the library) only reproduces after them, so the replay carries them


def _ser(parts):
    return {'parts': [p if isinstance(p, str) else p.decode('latin-1') for p in parts], 'as_str': [isinstance(p, str) for p in parts]}


def check(ctx, bits, base, desc, parts, kw=None):
    rep = ctx.rep
    rep.case(tuple(parts), kind=desc[0])
    before = list(_RECENT)
    got = impl(parts, **(kw or {}))
    _RECENT.append(dict(_ser(parts), kw=kw or {}))
    del _RECENT[:-3]
    if got != base:
        comp = 'exception' if got[0] == 'Raise' else ('class' if got[1][0] != base[1][0] else 'fields')
        kind = f'foreign-or-library-exception:{got[1]}' if got[0] == 'Raise' else 'wrong-value'
        detail = got[1] if got[0] == 'Raise' else next(
            (f'{a[0]}: {a[1]} vs {b[1]}' for a, b in zip(got[1][1], base[1][1]) if a != b), got[1][0] + ' vs ' + base[1][0])
        rep.violation({'entry': 'decode', 'component': comp, 'kind': kind, 'transformation': desc[0]},
                      f'carrier variation {desc} of the same payload decodes differently: {detail}',
                      {'bits': bits, 'parts': [p if isinstance(p, str) else p.decode('latin-1') for p in parts],
                       'as_str': [isinstance(p, str) for p in parts], 'kw': kw or {}, 'before': before})
    return got


def variations(rng, payload, fill, budget, exhaustive_cuts):
    n = len(payload)
    # single-sentence carrier details
    for t in TALKERS:
        for ty in TYPES[:2]:
            yield ('talker/type', t, ty), dict(talker=t, typ=ty)
    for ty in TYPES[2:]:
        yield ('type-case', ty), dict(typ=ty)
    for ch in CHANNELS:
        for sq in SEQS:
            yield ('channel/seq', ch, sq), dict(channel=ch, seq=sq)
    yield ('str',), dict(as_str=True)
    for suf in (b'\r\n', b'\n', b' ', b'  \r\n', b'\t'):
        yield ('suffix', suf.decode()), dict(suffix=suf)
        yield ('suffix+str', suf.decode()), dict(suffix=suf, as_str=True)
    for tag in ('s:2573535,c:1671533231', 'g:1-1-77', 'c:1'):
        yield ('tagblock', tag), dict(tag=tag)
    long_tag = 'c:1671533231,s:' + 'STATION-' * 20 + ',t:' + 'x' * 60           # 240 characters of tag block
    yield ('tagblock-long', len(long_tag)), dict(tag=long_tag)
    yield ('tagblock-long+suffix', len(long_tag)), dict(tag=long_tag, suffix=b' ' * 90 + b'\r\n')
    for tag in ('s:G\u00f6teborg,c:1671533231', 't:\u20ac \u6e2f'):          # free text in a tag block is not confined to ASCII
        yield ('tagblock-non-ascii', tag), dict(tag=tag)
        yield ('tagblock-non-ascii+str', tag), dict(tag=tag, as_str=True)
    yield ('bad-checksum',), dict(bad_checksum_on=0)
    # strict checksum mode must not matter either when every checksum is right -- in particular the legitimate checksum 00
    # (and one-digit-significant ones): search the carrier details for sentences whose body XORs to 0x00 / below 0x10
    found = {0: 0, 1: 0}
    for t in TALKERS:
        for ty in TYPES[:2]:
            for ch in CHANNELS:
                for sq in SEQS:
                    x = ais.xor_checksum(ais.sentence(t + ty, 1, 1, sq, ch, payload, fill)[1:-3])
                    cls = 0 if x == 0 else (1 if x < 16 else None)
                    if cls is not None and found[cls] < 2:
                        found[cls] += 1
                        yield ('strict', 'xor=%02X' % x), dict(talker=t, typ=ty, channel=ch, seq=sq,
                                                               kw={'error_if_checksum_invalid': True})
    yield ('strict',), dict(kw={'error_if_checksum_invalid': True})
    # fragmentation and order
    cutsets = []
    if n >= 2:
        if exhaustive_cuts and n <= 9:
            for k in range(1, min(4, n - 1) + 1):
                cutsets.extend(itertools.combinations(range(1, n), k))
        for _ in range(budget):
            k = rng.randint(1, min(4, n - 1))
            cutsets.append(tuple(sorted(rng.sample(range(1, n), k))))
        cutsets.append((1,))
        cutsets.append((n - 1,))
    seen = set()
    for cuts in cutsets:
        if cuts in seen or any(b - a > 200 for a, b in zip((0,) + cuts, cuts + (n,))):
            continue
        seen.add(cuts)
        k = len(cuts) + 1
        perms = list(itertools.permutations(range(k))) if k <= 3 else \
            [tuple(range(k)), tuple(reversed(range(k)))] + [tuple(rng.sample(range(k), k)) for _ in range(3)]
        for order in perms:
            opts = dict(cuts=cuts, order=order, seq=rng.choice(range(10)), channel=rng.choice(CHANNELS),
                        talker=rng.choice(TALKERS), typ=rng.choice(TYPES))
            if rng.random() < 0.3:
                opts['as_str'] = True
            elif rng.random() < 0.3:
                opts['as_str'] = [rng.random() < 0.5 for _ in range(k)]      # a log line here, a socket line there
            if rng.random() < 0.3:
                opts['suffix'] = rng.choice([b'\r\n', b'\n', b' '])
            if rng.random() < 0.2:
                opts['tag'] = 'g:%d-%d-5' % (1, k)
            elif rng.random() < 0.25:
                # details that differ between the parts: a tag block on the opening sentence only (or on some), talkers /
                # VDM-VDO / channels mixed (a relay that re-labels what it forwards), different line ends
                opts['tag'] = [rng.choice([None, None, 's:rx%d,c:1671533231' % j]) if j else 'c:1671533231,s:2573535' for j in range(k)]
                if rng.random() < 0.5:
                    opts['tag'] = [opts['tag'][0]] + [None] * (k - 1)
                if rng.random() < 0.6:
                    opts['talker'] = [rng.choice(TALKERS) for _ in range(k)]
                if rng.random() < 0.4:
                    opts['typ'] = [rng.choice(TYPES) for _ in range(k)]
                if rng.random() < 0.3:
                    opts['channel'] = [rng.choice(CHANNELS) for _ in range(k)]
                if rng.random() < 0.3:
                    opts['suffix'] = [rng.choice([b'', b'\r\n', b'\n', b' ']) for _ in range(k)]
            if rng.random() < 0.2:
                opts['bad_checksum_on'] = rng.randrange(k)
            yield ('fragments', k, 'in-order' if list(order) == sorted(order) else 'permuted'), opts


def malformed(rng, payload, fill):
    """Argument lists OUTSIDE the carrier family (the property says nothing about them; they tie the remaining
    statements of _assemble_messages / assemble_from_iterable / AISSentence.decode to the model): missing part,
    duplicate part, too many parts, counts that differ between the parts, an empty payload, a non-AIS sentence mixed
    in, an unknown sentence, no argument at all, a payload over the length limit, fill bits on an inner part."""
    n = len(payload)
    c1, c2 = max(1, n // 3), max(2, 2 * n // 3)
    three = build(payload, fill, cuts=(c1, c2), seq=4, channel='B')
    two = build(payload, fill, cuts=(c1,), seq=4)
    one = build(payload, fill)
    gh = b'$PGHP,1,2020,12,31,23,59,58,239,0,0,0,1,2C*5B'
    yield 'missing-last', three[:2]
    yield 'missing-first', three[1:]
    yield 'missing-middle', [three[2], three[0]]
    yield 'duplicate-part', [three[0], three[1], three[1]]
    yield 'duplicate-first', [three[0], three[0], three[2]]
    yield 'too-many', three + [three[1]]
    yield 'too-many-single', one + one
    yield 'two-messages', one + two
    yield 'count-mismatch', [two[0], three[2]]
    yield 'count-mismatch-rev', [three[2], two[0]]
    yield 'count-last-wins', [three[0], three[1], two[1]]
    yield 'nothing', []
    yield 'empty-payload', [ais.sentence('AIVDM', 1, 1, None, 'A', '', 0)]
    yield 'empty-payload-part', [two[0], ais.sentence('AIVDM', 2, 2, 4, 'A', '', 0)]
    yield 'empty-first-part', [ais.sentence('AIVDM', 2, 1, 4, 'A', '', 0), two[1]]
    yield 'gatehouse-mixed-in', [gh] + two
    yield 'gatehouse-between', [two[1], gh, two[0]]
    yield 'gatehouse-only', [gh]
    yield 'unknown-sentence-mixed-in', [two[0], b'$GPGGA,123519,4807.038,N,01131.000,E,1,08,0.9,545.4,M,46.9,M,,*47', two[1]]
    yield 'blank-argument', [two[0], b'  ', two[1]]
    yield 'payload-201', [ais.sentence('AIVDM', 1, 1, None, 'A', (payload * (201 // n + 1))[:201], 0)]
    yield 'payload-200', [ais.sentence('AIVDM', 1, 1, None, 'A', (payload * (200 // n + 1))[:200], 0)]
    yield 'fill-on-inner-part', [ais.sentence('AIVDM', 2, 1, 4, 'A', payload[:c1], 2), two[1]]
    yield 'fragment-number-0', [ais.sentence('AIVDM', 2, 0, 4, 'A', payload[:c1], 0), two[1]]
    yield 'fragment-number-beyond-count', [two[0], ais.sentence('AIVDM', 2, 3, 4, 'A', payload[c1:], fill)]
    yield 'six-parts', build(payload, fill, cuts=tuple(range(1, 6)), seq=1) if n >= 6 else one
    yield 'six-parts-reversed', list(reversed(build(payload, fill, cuts=tuple(range(1, 6)), seq=1))) if n >= 6 else one
    yield 'nine-parts-shuffled', rng.sample(build(payload, fill, cuts=tuple(range(1, 9)), seq=1), 9) if n >= 9 else one
    yield 'unarmored-character', [ais.sentence('AIVDM', 1, 1, None, 'A', payload[:3] + 'z' + payload[4:], fill)]
    yield 'non-printable-character', [ais.sentence('AIVDM', 1, 1, None, 'A', payload[:3].encode() + b'\x7f' + payload[4:].encode(), fill)]
    yield 'str-non-ascii', ['!AIVDM,1,1,,A,' + payload[:3] + '\u00e9' + payload[4:] + ',0*00']
    # a non-ASCII character where it does no harm (inside the tag block): the UTF-8 encoding of str arguments shows in
    # the tag block bytes of the delivered sentence
    yield 'str-non-ascii-tag', ['\\c:1,t:caf\u00e9*00\\' + one[0].decode()]
    yield 'leading-blank', [b' \r\n' + one[0]]


def run(ctx, n_payloads=None, cut_budget=None):
    rng = ctx.rng
    n_payloads = n_payloads if n_payloads is not None else ctx.budget(2, 6)
    cut_budget = cut_budget if cut_budget is not None else ctx.budget(4, 30)
    model_cases = []          # (bits, argument list, carrier witness or None)
    for variant in cc.VARIANTS:
        for j in range(n_payloads):
            length = variant[2]
            if j % 2 == 1:      # a shorter form (still containing the discriminators) that needs fill bits: the closing
                # fragment then differs from the others, and variable-length tails make surplus/missing bits visible
                length = rng.randrange(max(40, max(variant[3], default=0) + 1), variant[2])
                if length % 6 == 0:
                    length -= rng.choice([1, 2, 3, 4, 5])
            bits = cc.make_payload(rng, variant, length)
            payload, fill = ais.armor(bits)
            w0 = {}
            base_parts = build(payload, fill, witness=w0)
            base = impl(base_parts)
            ctx.rep.case(tuple(base_parts), kind='base')
            model_cases.append((bits, base_parts, (payload, fill, w0)))
            if base[0] != 'Ok':
                ctx.rep.count('base-raises:' + base[1])
                # the plain carrier itself is rejected.  A payload that no carrier can deliver is C01/C11 territory, but
                # the rejection must not depend on the carrier either: the same payload in two parts must fail too
                if len(payload) >= 2:
                    two = build(payload, fill, cuts=(len(payload) // 2,), seq=1)
                    got = impl(two)
                    ctx.rep.case(tuple(two), kind='base-raises-two-parts')
                    if got[0] == 'Ok' or got[1] != base[1]:
                        ctx.rep.violation(
                            {'entry': 'decode', 'component': 'exception', 'kind': 'carrier-dependent-outcome',
                             'transformation': 'fragments'},
                            f'the plain carrier is rejected with {base[1]} but the same payload in two parts gives '
                            f'{got[1] if got[0] == "Raise" else "a " + got[1][0]}',
                            {'bits': bits, 'parts': [p.decode('latin-1') for p in two], 'as_str': False, 'kw': {},
                             'base_raises': base[1]})
                continue
            small = ais.armor(bits[:48])          # exhaustive cut sets on a short prefix of the same payload
            for desc, opts in variations(rng, payload, fill, cut_budget, False):
                w = {}
                kw = opts.pop('kw', None)
                parts = build(payload, fill, witness=w, **opts)
                check(ctx, bits, base, desc, parts, kw)
                model_cases.append((bits, parts, (payload, fill, w)))
                if desc[0] == 'fragments' and desc[2] == 'permuted':
                    # the same parts once more, in fragment order: an earlier call must leave no trace (hidden state)
                    again = build(payload, fill, **dict(opts, order=None))
                    check(ctx, bits, base, ('fragments', desc[1], 'in-order-after-permuted'), again)
            if variant[2] <= 168 and j == 0 and not ctx.quick:
                sp, sf = small
                sbase = impl(build(sp, sf))
                if sbase[0] == 'Ok':
                    for desc, opts in variations(rng, sp, sf, 0, True):
                        if desc[0] == 'fragments':
                            w = {}
                            opts.pop('kw', None)
                            parts = build(sp, sf, witness=w, **opts)
                            check(ctx, bits[:48], sbase, desc, parts)
                            if rng.random() < 0.05:
                                model_cases.append((bits[:48], parts, (sp, sf, w)))
            if j == 0:
                for kind, parts in malformed(rng, payload, fill):
                    ctx.rep.count('malformed:' + kind)
                    model_cases.append((bits, parts, None))
                ctx.rep.sample({'variant': variant[0], 'bits': bits[:48] + '...', 'plain carrier': base_parts[0].decode(),
                                'a fragmented, permuted carrier': [p if isinstance(p, str) else p.decode() for p in
                                                                    build(payload, fill, cuts=(1,), order=(1, 0), seq=3,
                                                                          channel='B', talker='AB', typ='VDO')]})
    run_model(ctx, model_cases)


def run_model(ctx, cases):
    """model-vs-code: extracted decode_api on the same argument lists (driver command `decodeapi_full`), and the
    specification's witness check on every generated carrier (driver command `carrierchk`): the carriers the oracle
    judges must be inside the family the theorem quantifies over."""
    if not ctx.model or not cases:
        return
    import stream_glue
    if ctx.quick and len(cases) > 4500:
        # the quick tier compares a PRNG-drawn share (all malformed lists, all base carriers); the oracle saw them all
        keep = [c for c in cases if c[2] is None or len(c[1]) == 1 and c[2][2].get('seq') is None]
        rest = [c for c in cases if not (c[2] is None or len(c[1]) == 1 and c[2][2].get('seq') is None)]
        cases = keep + ctx.rng.sample(rest, max(0, 4500 - len(keep)))
    stream_glue.compare_decode_api(ctx, cases)
    items = [(c[2][0].encode(), c[2][1], c[2][2]['seq'], c[2][2]['frags'], c[1]) for c in cases if c[2] is not None]
    inside = stream_glue.label_carriers(ctx, items)
    ctx.rep.count('carrier-inside-spec-family', sum(inside))
    ctx.rep.count('argument-list-outside-family(model-vs-code only)', sum(1 for c in cases if c[2] is None))
    for it, ok in zip(items, inside):
        if not ok:
            ctx.rep.internal('the harness judged a carrier that Spec/CarrierSpec.v carrier_checkb rejects: '
                             + repr([p if isinstance(p, str) else p.decode('latin-1') for p in it[4]])[:400])
            break


def hunt(ctx):
    run(ctx, n_payloads=ctx.budget(1, 12), cut_budget=ctx.budget(10, 120))


def replay(ctx, data):
    flags = data.get('as_str')
    flags = flags if isinstance(flags, list) else [bool(flags)] * len(data['parts'])
    parts = [p if f else p.encode('latin-1') for p, f in zip(data['parts'], flags)]
    payload, fill = ais.armor(data['bits'])
    base = impl(build(payload, fill))

    def once():
        got = impl(parts, **data.get('kw', {}))
        if base[0] == 'Ok' and got != base:
            return f'decodes differently from the plain carrier of the same payload: {got[1] if got[0] == "Raise" else "field values differ"}'
        if base[0] == 'Raise' and (got[0] == 'Ok' or got[1] != base[1]):
            return (f'the plain carrier of the payload is rejected with {base[1]} but this carrier gives '
                    f'{got[1] if got[0] == "Raise" else "a " + got[1][0]}')
        return None
    for b in data.get('before') or []:        # the calls that preceded it in the recorded run, in order, BEFORE the failing one
        impl([q if f else q.encode('latin-1') for q, f in zip(b['parts'], b['as_str'])], **b.get('kw', {}))
    return once()
