"""H-stream: line sequences through the six reader front-ends (shared by C03, C07, C18).

A sequence is a list of JSON-able line descriptors built by the harness itself (tools/ais.py armoring/framing, nothing of
pyais): {'hex': line bytes, 'kind': 'frag'|'wrapper'|'badwrapper'|'foreign'|'malformed', ...own knowledge of the line...}.

Correspondence (model vs implementation):  per front-end, the extracted source function says which lines reach the loop,
the REAL NMEASentenceFactory.produce (and a shadow TagBlockQueue when a tbq is attached) gives the per-line outcomes that are
the model's inputs, the extracted stream_step/queue_step run on them, and the deliveries (every attribute, as text tokens),
the escaping exception class and -- for NMEAQueue -- the final buffer and pending wrapper are compared with the real reader.

Oracles (property vs implementation) use the extracted Spec/AssembleSpec.v on the harness's own knowledge of the lines.

Backpressure (section "bounded NMEAQueue"): the same lines into NMEAQueue(maxsize=k) with non-blocking puts and a consumer that
takes items at given moments; correspondence with the extracted queue_step_b (asm_run_b), oracle from Proofs/AssembleBounded.v:
what comes out is what the unbounded reference delivers at the lines whose put was accepted, queue.Full exactly at the others."""
import io
import itertools
import os
import shutil
import sys
import tempfile

sys.path.insert(0, os.path.dirname(os.path.dirname(os.path.abspath(__file__))))
import ais  # noqa: E402

FRONTENDS = ['IterMessages', 'ByteStream', 'BinaryIOStream', 'FileReaderStream', 'SocketStream', 'NMEAQueue']
SKIPPABLE = ('InvalidNMEAMessageException', 'NonPrintableCharacterException', 'UnknownMessageException')

# nominal lengths (bits) of real message types used for payloads
TYPE_BITS = {1: 168, 2: 168, 3: 168, 4: 168, 5: 424, 9: 168, 11: 168, 18: 168, 19: 312, 21: 360, 24: 160, 27: 96,
             8: 1008, 14: 400, 6: 920, 12: 600, 17: 816, 26: 1064}


# ------------------------------------------------------------------------------------------------ tokens

def hx(b):
    return b.hex() if b else '-'


def cps(s):
    return '.'.join(str(ord(c)) for c in s) if s else '-'


def opt(v):
    return 'N' if v is None else str(v)


def tok_common(raw, delim=b'!', talker='AI', typ='VDM', checksum=0, fill=0, valid=True, tag=None):
    return ':'.join([hx(raw), hx(delim), cps(talker), cps(typ), str(checksum), str(fill), '1' if valid else '0',
                     'N' if tag is None else hx(tag)])


def tok_gatehouse_obj(g):
    t = g.timestamp
    return ':'.join(['G', tok_common(g.raw, g.delimiter, g.talker_id, g.type, g.checksum, g.fill_bits, g.is_valid,
                                     g.tag_block.raw if g.tag_block else None),
                     '.'.join(str(x) for x in (t.year, t.month, t.day, t.hour, t.minute, t.second, t.microsecond)),
                     cps(g.country), cps(g.region), cps(g.pss), str(g.online_data)])


def tok_ais_obj(s):
    return ':'.join(['A', tok_common(s.raw, s.delimiter, s.talker_id, s.type, s.checksum, s.fill_bits, s.is_valid,
                                     s.tag_block.raw if s.tag_block else None),
                     str(s.frag_cnt), str(s.frag_num), opt(s.seq_id), cps(s.channel), hx(s.payload),
                     s.bit_array.to01() or '-', str(s.ais_id)])


def tok_delivered(s):
    return tok_ais_obj(s) + '@' + ('N' if s.wrapper_msg is None else tok_gatehouse_obj(s.wrapper_msg))


def wrapper_fields_of_token(tok):
    """G-token -> (timestamp tuple, country, region, pss, online)"""
    if tok == 'N':
        return None
    f = tok.split(':')
    uncps = lambda x: '' if x == '-' else ''.join(chr(int(c)) for c in x.split('.'))  # noqa: E731
    return (tuple(int(x) for x in f[9].split('.')), uncps(f[10]), uncps(f[11]), uncps(f[12]), int(f[13]))


def wrapper_fields_of_obj(g):
    if g is None:
        return None
    t = g.timestamp
    return ((t.year, t.month, t.day, t.hour, t.minute, t.second, t.microsecond), g.country, g.region, g.pss,
            g.online_data)


def attrs(s):
    """What the properties observe of a delivered sentence, as an explicit tuple-able dict (never ==)."""
    return {'raw': s.raw.hex(), 'payload': s.payload.hex(), 'bits': s.bit_array.to01(), 'valid': bool(s.is_valid),
            'cnt': s.frag_cnt, 'num': s.frag_num, 'seq': s.seq_id, 'chan': s.channel,
            'wrapper': wrapper_fields_of_obj(s.wrapper_msg), 'tag': s.tag_block.raw.hex() if s.tag_block else None,
            'ais_id': s.ais_id}


# ------------------------------------------------------------------------------------------------ line builders

def tag_block(rng, group=None, good=True):
    fields = []
    if group:
        fields.append('g:%d-%d-%d' % group)
    if rng.random() < 0.7:
        fields.append('s:r%07d' % rng.randrange(10 ** 7))
    if rng.random() < 0.7 or not fields:
        fields.append('c:%d' % rng.randrange(1_000_000_000, 1_700_000_000))
    if rng.random() < 0.2:
        fields.append('n:%d' % rng.randrange(1000))
    body = ','.join(fields).encode()
    cs = ais.xor_checksum(body)
    if not good:
        cs ^= 0x21
    return body + b'*' + format(cs, '02X').encode()


def make_message(rng, idx, nfrag, seq, chan, mt=None, head='!AIVDM', bad_checksums=0.08, tagged=0.0):
    """-> list of fragment descriptors (in fragment order) of one message."""
    if mt is None:
        mt = rng.choice([m for m, n in TYPE_BITS.items() if n // 6 + 1 >= nfrag])
    nbits = TYPE_BITS[mt]
    if nbits // 6 < nfrag:
        nbits = 6 * nfrag + 12
    bits = format(mt, '06b') + ''.join(rng.choice('01') for _ in range(nbits - 6))
    payload, fill = ais.armor(bits)
    n = len(payload)
    if nfrag == 1:
        cuts = []
    else:
        # random cut positions with every chunk 1..120 characters
        for _ in range(50):
            cuts = sorted(rng.sample(range(1, n), nfrag - 1))
            bounds = [0] + cuts + [n]
            if all(1 <= bounds[i + 1] - bounds[i] <= 120 for i in range(nfrag)):
                break
    bounds = [0] + cuts + [n]
    out = []
    gid = rng.randrange(1, 9999)
    for i in range(nfrag):
        chunk = payload[bounds[i]:bounds[i + 1]]
        f = fill if i == nfrag - 1 else 0
        body = ','.join([head[1:], str(nfrag), str(i + 1), '' if seq is None else str(seq), chan, chunk, str(f)]).encode()
        cs = ais.xor_checksum(body)
        valid = True
        if rng.random() < bad_checksums:
            cs ^= 0x13
            valid = False
        line = head[:1].encode() + body + b'*' + format(cs, '02X').encode()
        tag = None
        if rng.random() < tagged:
            tag = tag_block(rng, group=(i + 1, nfrag, gid) if rng.random() < 0.6 else None, good=rng.random() < 0.85)
            line = b'\\' + tag + b'\\' + line
        raw = line[len(tag) + 2:] if tag is not None else line
        out.append({'kind': 'frag', 'hex': line.hex(), 'msg': idx, 'cnt': nfrag, 'num': i + 1, 'seq': seq, 'chan': chan,
                    'raw': raw.hex(), 'chunk': chunk, 'fill': f, 'valid': valid, 'bits': ais.dearmor(chunk, f),
                    'tag': tag.hex() if tag is not None else None, 'mt': mt})
    return out


def long_message(rng, idx, nfrag, seq, chan, chars):
    """A message of nfrag fragments with `chars` payload characters each (up to the 200 a sentence may carry): the reassembly
    must not care how much it adds up to (9 x 200 characters = 10800 bits; surplus bits behind a type's layout are ignored by
    the decoder, the loops deliver the sentence all the same)."""
    mt = 8
    bits = format(mt, '06b') + ''.join(rng.choice('01') for _ in range(6 * chars * nfrag - 6))
    payload, fill = ais.armor(bits)
    out = []
    for i in range(nfrag):
        chunk = payload[i * chars:(i + 1) * chars]
        body = ','.join(['AIVDM', str(nfrag), str(i + 1), '' if seq is None else str(seq), chan, chunk, '0']).encode()
        line = b'!' + body + b'*' + format(ais.xor_checksum(body), '02X').encode()
        out.append({'kind': 'frag', 'hex': line.hex(), 'msg': idx, 'cnt': nfrag, 'num': i + 1, 'seq': seq, 'chan': chan,
                    'raw': line.hex(), 'chunk': chunk, 'fill': 0, 'valid': True, 'bits': ais.dearmor(chunk, 0), 'tag': None, 'mt': mt})
    return out


def wrapper_line(rng, valid=True):
    y, mo, d = rng.randrange(1990, 2031), rng.randrange(1, 13), rng.randrange(1, 29)
    h, mi, s, ms = rng.randrange(24), rng.randrange(60), rng.randrange(60), rng.randrange(1000)
    if valid and rng.random() < 0.15:
        y, mo, d = rng.choice([(2024, 2, 29), (2000, 2, 29), (2023, 12, 31), (1999, 1, 1)])
    if not valid:
        which = rng.randrange(6)
        if which == 0:
            mo = 13
        elif which == 1:
            y, mo, d = 2023, 2, 29
        elif which == 2:
            h = 24
        elif which == 3:
            mi = 60
        elif which == 4:
            d = 0
        else:
            ms = 1000
    country = str(rng.choice([219, 338, 244, 0, '']))
    region = str(rng.choice([219000001, 2, '']))
    pss = str(rng.choice([219000002, 7, '']))
    online = rng.choice([0, 1])
    body = 'PGHP,1,%d,%d,%d,%d,%d,%d,%d,%s,%s,%s,%d,%02X' % (y, mo, d, h, mi, s, ms, country, region, pss, online,
                                                            rng.randrange(256))
    if rng.random() < 0.12:
        body = rng.choice(['pghp', 'PGhp', 'pgHP', 'Pghp']) + body[4:]      # the library folds the case of sentence tags
    cs = ais.xor_checksum(body.encode())
    if rng.random() < 0.12:
        cs ^= rng.choice([0x01, 0x10, 0x5A])          # a wrapper with a wrong checksum of its own is still the wrapper (pinned
        #                                               by tests/timestamped.ais); it is flagged, not dropped
    line = b'$' + body.encode() + b'*' + format(cs, '02X').encode()
    if rng.random() < 0.2:
        line = b'\\' + tag_block(rng) + b'\\' + line          # a wrapper line may carry a tag block like any other sentence
    d_ = {'kind': 'wrapper' if valid else 'badwrapper', 'hex': line.hex()}
    if valid:
        d_['fields'] = [[y, mo, d, h, mi, s, ms * 1000], country, region, pss, online]
    return d_


FOREIGN = [b'$GPGGA,123519,4807.038,N,01131.000,E,1,08,0.9,545.4,M,46.9,M,,*47',
           b'$GPRMC,123519,A,4807.038,N,01131.000,E,022.4,084.4,230394,003.1,W*6A',
           b'$GPGSV,3,1,11,03,03,111,00,04,15,270,00,06,01,010,00,13,06,292,00*74',
           b'$AITXT,01,01,91,FREQ,2087,2088*57', b'!AIVSI,r003669945,1,013542,1,-103,0*2A']

# lines with len > 10 that start with '!' or '$' and make produce() raise one of the three skipped exceptions on every
# version of the parser in scope (checked at run time: a line whose outcome is anything else is not used by the oracles)
MALFORMED_INSCOPE = [b'!AIVDM,1,1,,A,15M67FC000G?ufbE`FepT@3n00Sa', b'!AIVDM,1,1,,A', b'!AIVDM,a,1,,A,15M67F,0*00',
                     b'!AIVDM,1,x,,A,15M67F,0*00', b'!AIVDM,1,1,q,A,15M67F,0*00', b'!AIVDM,101,1,1,A,15M67F,0*00',
                     b'!AIVDM,2,101,1,A,15M67F,0*00', b'$PGHP,1,2020,12,31', b'!AIVDM,1,1,,A,' + b'1' * 201 + b',0*00',
                     b'!AIVDM,1,1,,B,15M67F\x00C0,0*00', b'!AIXYZ,1,1,,A,15M67FC,0*00', b'$PGHP,0,21,1,1,1,1,1,1,1,1,1,1*00']

# correspondence only (outside the quantifier of C03/C07/C18, partly C05 territory)
MALFORMED_OUT = [b'', b' ', b'\x00', b' \x00 \x00', b'\x00' * 12, b'!AIVDM', b'$PGHP', b'xAIVDM,1,1,,A,15M67FC000G?ufbE`FepT@3n00Sa,0*5C',
                 b' !AIVDM,1,1,,A,15M67FC000G?ufbE`FepT@3n00Sa,0*5C', b'AIVDM,1,1,,A,15M67FC000G?ufbE`FepT@3n00Sa,0*5C',
                 b'!AIVDM,0,1,,A,15M67F,0*00', b'!AIVDM,0,1,3,A,15M67F,0*00', b'!AIVDM,2,-1,3,A,15M67F,0*00',
                 b'!AIVDM,2,0,3,B,15M67F,0*00', b'!AIVDM,3,-300,3,B,15M67F,0*00', b'!AIVDM,-2,1,3,B,15M67F,0*00',
                 b'!AIVDM,1,1,-1,B,15M67F,0*00', b'!AIVDM,1,1,,A,15M67F,-1*00', b'!\xffIVDM,1,1,,A,15M67F,0*00',
                 b'!*IVDM,1,1,,A,15M67F,0*00', b'\\s:x\\!AIVDM,1,1,,A,15M67FC000G?ufbE`FepT@3n00Sa,0*5C',
                 b'\\s:x*1*2\\!AIVDM,1,1,,A,15M67FC000G?ufbE`FepT@3n00Sa,0*5C',
                 b'\\s:x*ZZ\\!AIVDM,1,1,,A,15M67FC000G?ufbE`FepT@3n00Sa,0*5C',
                 b'\\*00\\!AIVDM,1,1,,A,15M67FC000G?ufbE`FepT@3n00Sa,0*5C', b'\\s:x*00\\$PGHP,1,2020,12,31,23,59,58,239,0,0,0,1,2C*5B',
                 b'\\s:x\\$PGHP,1,2020,12,31,23,59,58,239,0,0,0,1,2C*5B', b'!AIVDM,1,1,,A,,0*26', b'!AIVDM,2,1,3,A,,0*00']


def noise_line(rng, kind):
    if kind == 'foreign':
        return {'kind': 'foreign', 'hex': rng.choice(FOREIGN).hex()}
    if kind == 'malformed':
        return {'kind': 'malformed', 'hex': rng.choice(MALFORMED_INSCOPE).hex()}
    if kind == 'out':
        return {'kind': 'out', 'hex': rng.choice(MALFORMED_OUT).hex()}
    raise ValueError(kind)


def occupies(m):
    return not (m[0]['cnt'] == 1 and m[0]['seq'] in (None, 0))


def slot_of(m):
    return (-1 if m[0]['seq'] is None else m[0]['seq'], m[0]['chan'])


SEQS = [None, 0, 1, 2, 3, 9]
CHANS = ['A', 'B', '1', '']


def gen_schedule(rng, k, max_frag=9, p_incomplete=0.1, p_reuse=0.35, p_noise=0.25, tagged=0.15, force=None, out_noise=0.0):
    """A well-formed schedule of k messages: per-message fragment permutation, random interleaving, slots reused only after
    completion, some messages incomplete; wrappers / foreign / malformed lines in between."""
    active, dead, freed, seq_out = [], set(), [], []
    started = 0
    forced = list(force or [])
    while started < k or active:
        can_start = started < k
        if can_start and (not active or rng.random() < 0.4):
            nfrag = forced.pop(0) if forced else rng.choice([1, 1, 2, 2, 3, 3, 4, 5, 6, 9, rng.randrange(1, max_frag + 1)])
            nfrag = min(nfrag, max_frag)
            busy = {slot_of(m['frags']) for m in active if occupies(m['frags'])} | dead
            for _ in range(40):
                if freed and rng.random() < p_reuse:
                    seq, chan = freed[-1]
                    seq = None if seq == -1 else seq
                else:
                    seq, chan = rng.choice(SEQS), rng.choice(CHANS)
                if nfrag == 1 and rng.random() < 0.7:
                    seq = rng.choice([None, None, 0])
                probe = [{'cnt': nfrag, 'seq': seq, 'chan': chan}]
                if not occupies(probe) or slot_of(probe) not in busy:
                    break
            else:
                continue
            head = rng.choice(['!AIVDM'] * 6 + ['!AIVDO', '!BSVDM', '!ABVDM', '$AIVDM', '!aivdm'])
            frs = make_message(rng, started, nfrag, seq, chan, head=head, tagged=tagged)
            order = frs[:]
            rng.shuffle(order)
            incomplete = nfrag > 1 and rng.random() < p_incomplete
            if incomplete:
                order.pop(rng.randrange(len(order)))
            active.append({'frags': frs, 'order': order, 'incomplete': incomplete})
            started += 1
            continue
        if not active:
            continue
        m = rng.choice(active)
        f = m['order'].pop(0)
        last = not m['order'] and not m['incomplete']
        if last and rng.random() < 0.35:
            seq_out.append(wrapper_line(rng))                       # a wrapper directly before the last fragment
        seq_out.append(f)
        if not m['order']:
            active.remove(m)
            if occupies(m['frags']):
                if m['incomplete']:
                    dead.add(slot_of(m['frags']))
                else:
                    freed.append(slot_of(m['frags']))
        if rng.random() < p_noise:
            r = rng.random()
            if r < 0.35:
                seq_out.append(wrapper_line(rng))
                if rng.random() < 0.3:
                    seq_out.append(wrapper_line(rng))               # two wrappers in a row
            elif r < 0.5:
                seq_out.append(wrapper_line(rng, valid=False))
            elif r < 0.7:
                seq_out.append(noise_line(rng, 'foreign'))
            elif r < 0.85 or not out_noise:
                seq_out.append(noise_line(rng, 'malformed'))
            else:
                seq_out.append(noise_line(rng, 'out'))
    return seq_out


def boundary_schedules(rng):
    """The boundary content DESIGN.md section 5 lists for H-stream, as explicit sequences."""
    out = []
    # same sequence id on different channels and different ids on the same channel, interleaved
    a = make_message(rng, 0, 3, 1, 'A', bad_checksums=0)
    b = make_message(rng, 1, 3, 1, 'B', bad_checksums=0)
    c = make_message(rng, 2, 2, 2, 'A', bad_checksums=0)
    out.append(('same-seq-different-channel', [a[0], b[0], c[1], a[2], b[2], c[0], b[1], a[1]]))
    # slot reused immediately after completion
    d = make_message(rng, 0, 2, 5, 'B', bad_checksums=0)
    e = make_message(rng, 1, 3, 5, 'B', bad_checksums=0)
    f = make_message(rng, 2, 2, 5, 'B', bad_checksums=0)
    out.append(('slot-reuse', [d[1], d[0], e[2], e[0], e[1], f[0], f[1]]))
    # fragment counts 1 and 9 (9 in reverse order), a single with seq id 0, a 1/1 message WITH a sequence id
    g = make_message(rng, 0, 9, 3, 'A', mt=8)
    h = make_message(rng, 1, 1, None, 'A')
    i = make_message(rng, 2, 1, 0, 'B')
    j = make_message(rng, 3, 1, 7, 'A')
    out.append(('counts-1-and-9', g[:4:-1] + h + g[4::-1][:2] + i + j + g[2::-1]))
    # wrapper directly before the LAST fragment of a multi-part message; two wrappers in a row; then an unwrapped single
    k = make_message(rng, 0, 3, 4, 'A')
    l_ = make_message(rng, 1, 1, None, 'B')
    m = make_message(rng, 2, 1, None, 'A')
    w1, w2, w3 = wrapper_line(rng), wrapper_line(rng), wrapper_line(rng)
    out.append(('wrapper-before-last-fragment', [k[0], k[2], w1, k[1], l_[0], w2, w3, m[0]]))
    # wrapper, then fragments of an incomplete message, then a single: the single gets the wrapper
    n = make_message(rng, 0, 3, 6, 'A')
    o = make_message(rng, 1, 1, 0, 'A')
    p = make_message(rng, 2, 2, None, 'A')
    out.append(('wrapper-kept-over-incomplete', [wrapper_line(rng), n[0], n[1], wrapper_line(rng, valid=False), o[0],
                                                 p[1], wrapper_line(rng), noise_line(rng, 'foreign'), p[0],
                                                 make_message(rng, 3, 1, None, 'B')[0]]))
    # multi-part without sequence id next to singles on the same channel (slot (-1, chan))
    q = make_message(rng, 0, 2, None, 'A')
    r = make_message(rng, 1, 1, None, 'A')
    s = make_message(rng, 2, 2, 0, 'A')
    out.append(('no-seq-multipart', [q[1], r[0], s[0], q[0], s[1]]))
    # singles with sequence id 0 / without one while a multi-part message with sequence id 0 is in flight on the same channel
    t0 = make_message(rng, 0, 3, 0, 'B')
    t1 = make_message(rng, 1, 1, 0, 'B')
    t2 = make_message(rng, 2, 1, None, 'B')
    t3 = make_message(rng, 3, 1, 0, 'B')
    out.append(('seq0-single-inside-seq0-multipart', [t0[0], t1[0], t0[2], wrapper_line(rng), t2[0], t3[0], t0[1]]))
    # the same multi-part message transmitted again, byte for byte, in the same slot (a retransmitted static report);
    # the second copy is a message of its own (index 2) -- a cache keyed by the line text, or an object reused after
    # in-place assembly, shows only here
    u = make_message(rng, 0, 3, 3, 'B', bad_checksums=0)
    u2 = [dict(x, msg=2) for x in u]
    v = make_message(rng, 1, 1, None, 'A')
    out.append(('verbatim-retransmission', [u[0], u[1], u[2], v[0], u2[0], u2[1], u2[2]]))
    out.append(('verbatim-retransmission-permuted', [u[2], u[0], u[1], v[0], u2[1], u2[0], u2[2], dict(v[0], msg=3)]))
    # the same SINGLE sentence again, byte for byte (a vessel at anchor repeats its report): once behind a wrapper, once
    # without, once behind another wrapper -- a sentence object remembered from the first time keeps the first wrapper
    x = make_message(rng, 0, 1, None, 'A', bad_checksums=0)
    y = make_message(rng, 4, 1, None, 'B', bad_checksums=0)
    out.append(('verbatim-single-and-wrappers', [wrapper_line(rng), x[0], dict(x[0], msg=1), y[0], wrapper_line(rng),
                                                 dict(x[0], msg=2), dict(y[0], msg=5), dict(x[0], msg=3)]))
    # the largest messages the sentence format admits: 9 fragments of 160 and of 200 payload characters, interleaved with a single
    big = long_message(rng, 0, 9, 6, 'A', 160)
    big2 = long_message(rng, 1, 9, 7, 'B', 200)
    one = make_message(rng, 2, 1, None, 'A')
    out.append(('nine-long-fragments', big[:5] + one + big[5:] + big2[::-1]))
    # tag-blocked multi-part with a wrapper
    t = make_message(rng, 0, 2, 8, 'B', tagged=1.0)
    out.append(('tagged', [wrapper_line(rng), t[1], t[0]]))
    return out


# ------------------------------------------------------------------------------------------------ the six front-ends

class _CountIter:
    def __init__(self, items):
        self.items, self.n = items, 0

    def __iter__(self):
        for x in self.items:
            self.n += 1
            yield x


class _CountIO(io.BytesIO):
    def __init__(self, data):
        super().__init__(data)
        self.n = 0

    def __iter__(self):
        while True:
            line = self.readline()
            if not line:
                return
            self.n += 1
            yield line


class _FakeSock:
    def __init__(self, chunks):
        self.chunks, self.n = list(chunks), 0

    def recv(self, bufsize):
        if self.n < len(self.chunks):
            self.n += 1
            return self.chunks[self.n - 1]
        self.n += 1
        return b''

    def close(self):
        pass


def _drain(reader, counter, nlines, conv):
    per = [[] for _ in range(nlines)]
    flat, exc = [], None
    try:
        for s in reader:
            c = conv(s)
            flat.append(c)
            k = counter() - 1
            if 0 <= k < nlines:
                per[k].append(c)
    except Exception as e:   # noqa: BLE001 -- the class is the observation
        exc = type(e).__name__
    return per, flat, exc


def run_frontend(name, raw_lines, tbq, tmpdir=None, conv=None):
    """raw_lines: list of bytes exactly as given to the front-end (terminators included; the file-like front-ends
    receive their concatenation).  -> dict(per=[..per input line..] or None, flat=[..], exc=class name or None, state)"""
    import pyais.stream as ps
    from pyais.queue import NMEAQueue
    conv = conv or (lambda s: (tok_delivered(s), attrs(s), s))
    q = ps.TagBlockQueue() if tbq else None
    n = len(raw_lines)
    state = None
    if name == 'IterMessages':
        src = _CountIter(raw_lines)
        per, flat, exc = _drain(ps.IterMessages(src, tbq=q), lambda: src.n, n, conv)
    elif name == 'ByteStream':
        src = _CountIter(raw_lines)
        per, flat, exc = _drain(ps.ByteStream(src, tbq=q), lambda: src.n, n, conv)
    elif name == 'BinaryIOStream':
        f = _CountIO(b''.join(raw_lines))
        per, flat, exc = _drain(ps.BinaryIOStream(f, tbq=q), lambda: f.n, n, conv)
    elif name == 'FileReaderStream':
        path = os.path.join(tmpdir, 'lines.nmea')
        with open(path, 'wb') as fh:
            fh.write(b''.join(raw_lines))
        with ps.FileReaderStream(path, tbq=q) as r:
            per, flat, exc = _drain(r, lambda: 0, n, conv)
        per = None
    elif name == 'SocketStream':
        sock = _FakeSock(raw_lines)
        per, flat, exc = _drain(ps.SocketStream(sock, tbq=q), lambda: sock.n, n, conv)
    elif name == 'NMEAQueue':
        nq = NMEAQueue(tbq=q)
        per, flat, exc = [[] for _ in range(n)], [], None
        for k, line in enumerate(raw_lines):
            try:
                nq.put_line(line)
            except Exception as e:   # noqa: BLE001
                exc = type(e).__name__
                break
            while True:
                s = nq.get_or_none()
                if s is None:
                    break
                c = conv(s)
                per[k].append(c)
                flat.append(c)
        if exc is None:
            try:
                cells = []
                for (seq, chan), arr in nq.buffer.items():
                    cs = ','.join('%d=%s' % (i, hx(a.raw)) for i, a in enumerate(arr) if a is not None)
                    cells.append('[%d;%s;%d;%s]' % (seq, cps(chan), len(arr), cs))
                state = 'B' + ''.join(cells) + 'W' + ('N' if nq.last_wrapper is None else tok_gatehouse_obj(nq.last_wrapper))
            except Exception as e:   # noqa: BLE001 -- the buffer no longer has the shape the model describes
                state = f'unreadable:{type(e).__name__}'
    else:
        raise ValueError(name)
    return {'per': per, 'flat': flat, 'exc': exc, 'state': state}


def run_resumed(raw_lines, tbq):
    """ByteStream over ONE iterator of the lines, consumed by a for loop that is left after every delivery and entered
    again.  -> res without per-line attribution."""
    import pyais.stream as ps
    q = ps.TagBlockQueue() if tbq else None
    it = iter(list(raw_lines))
    reader = ps.ByteStream(it, tbq=q)
    flat, exc = [], None
    try:
        while True:
            got = None
            for s in reader:
                got = s
                break
            if got is None:
                break
            flat.append((tok_delivered(got), attrs(got), got))
    except Exception as e:   # noqa: BLE001
        exc = type(e).__name__
    return {'per': None, 'flat': flat, 'exc': exc, 'state': None}


class _PolledSource:
    """A line source that runs dry at given positions (a log file that is polled while it is being written): iteration
    stops there (StopIteration), and goes on from the same position when the source is iterated again."""

    def __init__(self, lines, stops):
        self.lines, self.stops, self.pos, self.paused_at = lines, set(stops), 0, -1

    def __iter__(self):
        return self

    def __next__(self):
        if self.pos >= len(self.lines):
            raise StopIteration
        if self.pos in self.stops and self.paused_at != self.pos:
            self.paused_at = self.pos
            raise StopIteration
        self.pos += 1
        return self.lines[self.pos - 1]


def quiescent_points(seq):
    """positions p (0 < p < len) such that no multi-fragment message is partly received after the first p lines"""
    seen, pts = {}, []
    for p, d in enumerate(seq):
        if p and not any(0 < n < c for n, c in seen.values()):
            pts.append(p)
        if d['kind'] == 'frag' and d['cnt'] > 1:
            n, c = seen.get(d['msg'], (0, d['cnt']))
            seen[d['msg']] = (n + 1, c)
    return pts


def run_polled(name, raw_lines, stops, tbq):
    """ONE reader object over a source that runs dry at the positions `stops` (all of them quiescent: no fragment pending);
    the reader is iterated to exhaustion, then -- more lines have arrived -- iterated again, and so on.  The pending
    wrapper is state of the reader object and survives; fragments would not (they are per-iteration state), hence the
    quiescent positions.  -> res without per-line attribution."""
    import pyais.stream as ps
    q = ps.TagBlockQueue() if tbq else None
    flat, exc = [], None
    if name == 'BinaryIOStream':
        f = io.BytesIO()
        reader = ps.BinaryIOStream(f, tbq=q)
        cuts = [0] + sorted(stops) + [len(raw_lines)]
        batches = [raw_lines[a:b] for a, b in zip(cuts, cuts[1:])]
    else:
        src = _PolledSource(list(raw_lines), stops)
        reader = ps.IterMessages(src, tbq=q) if name == 'IterMessages' else ps.ByteStream(src, tbq=q)
        batches = [None] * (len(stops) + 1)
    try:
        for b in batches:
            if b is not None:            # the writer appends a batch of lines; the reader's position stays where it was
                at = f.tell()
                f.seek(0, 2)
                f.write(b''.join(b))
                f.seek(at)
            for s in reader:
                flat.append((tok_delivered(s), attrs(s), s))
    except Exception as e:   # noqa: BLE001
        exc = type(e).__name__
    return {'per': None, 'flat': flat, 'exc': exc, 'state': None}


def lines_for(name, lines, term):
    """The byte strings handed to a front-end for a sequence of lines: the file-like and socket front-ends need a
    line terminator, the in-memory ones take the lines as they are (or with the same terminator)."""
    if name in ('BinaryIOStream', 'FileReaderStream', 'SocketStream'):
        t = term or b'\n'
    else:
        t = term
    return [l + t for l in lines]


# ------------------------------------------------------------------------------------------------ model side

def parse_outcomes(fed, tbq):
    """Per fed line: the text form of (M sentence, tbq outcome), from the REAL parser and a shadow TagBlockQueue."""
    from pyais.messages import NMEASentenceFactory, AISSentence, GatehouseSentence
    import pyais.stream as ps
    shadow = ps.TagBlockQueue() if tbq else None
    toks = []
    for line in fed:
        try:
            s = NMEASentenceFactory.produce(line)
        except Exception as e:   # noqa: BLE001
            toks.append('R:' + type(e).__name__)
            continue
        if isinstance(s, AISSentence):
            t = tok_ais_obj(s)
        elif isinstance(s, GatehouseSentence):
            t = tok_gatehouse_obj(s)
        else:
            t = 'R:Unmodelled'
        if shadow is not None:
            try:
                shadow.put_sentence(s)
            except Exception as e:   # noqa: BLE001
                t += '/T:' + type(e).__name__
        toks.append(t)
    return toks


def model_fed(model, name, raw_lines):
    """Which lines reach the loop according to the extracted source functions; -> list of (input index, bytes)."""
    if name in ('IterMessages', 'NMEAQueue'):
        reply = model.ask('asm_src iter ' + ' '.join(hx(l) for l in raw_lines))
    elif name in ('ByteStream', 'SocketStream'):
        reply = model.ask('asm_src stream ' + ' '.join(hx(l) for l in raw_lines))
    else:
        reply = model.ask('asm_split ' + hx(b''.join(raw_lines)))
    if reply.startswith('ERROR'):
        raise RuntimeError(reply)
    fed = [b'' if w == '-' else bytes.fromhex(w) for w in reply.split()[:-1]]
    # the fed lines are a subsequence of the input lines: align greedily
    out, k = [], 0
    for l in fed:
        while k < len(raw_lines) and raw_lines[k] != l:
            k += 1
        if k >= len(raw_lines):
            return None, fed
        out.append((k, l))
        k += 1
    return out, fed


def model_run(model, loop, toks, cache=None):
    key = (loop, tuple(toks))
    if cache is not None and key in cache:
        return cache[key]
    reply = model.ask('asm_run %s %s' % (loop, ' '.join(toks)))
    if reply.startswith('ERROR'):
        raise RuntimeError(reply + ' for ' + ' '.join(toks)[:300])
    outs, fin = reply.split(' # ')
    per = [([] if o == '=' else o[1:].split(',')) for o in outs.split('|')] if outs else []
    res = (per, fin)
    if cache is not None:
        cache[key] = res
    return res


def correspond(ctx, name, raw_lines, tbq, res, case, cache=None, strip_wrapper=False):
    """Model vs implementation for one front-end on one sequence.  Returns True when they agree."""
    rep, model = ctx.rep, ctx.model
    aligned, fed = model_fed(model, name, raw_lines)
    if aligned is None:
        rep.disagree('H-stream/source', case, {'fed': [hx(x) for x in fed]}, {'input': [hx(x) for x in raw_lines]})
        return False
    toks = parse_outcomes([l for _, l in aligned], tbq)
    loop = 'queue' if name == 'NMEAQueue' else 'stream'
    per_fed, fin = model_run(model, loop, toks, cache)
    cut = (lambda t: t.split('@')[0]) if strip_wrapper else (lambda t: t)     # C03 does not observe wrappers
    per_fed = [[cut(t) for t in outs] for outs in per_fed]
    if strip_wrapper and fin.startswith('Ok '):
        fin = fin.split('W')[0]
    # the run stops at the first escaping exception: per_fed may be shorter than fed
    n = len(raw_lines)
    m_per = [[] for _ in range(n)]
    for (k, _), outs in zip(aligned, per_fed):
        m_per[k] = outs
    m_flat = [t for outs in per_fed for t in outs]
    m_exc = fin[6:] if fin.startswith('Raise ') else None
    i_flat = [cut(c[0]) for c in res['flat']]
    i_per = [[cut(c[0]) for c in x] for x in res['per']] if res['per'] is not None else None
    i_state = None if res['state'] is None else (res['state'].split('W')[0] if strip_wrapper else res['state'])
    ok = True
    if m_flat != i_flat or m_exc != res['exc']:
        ok = False
    elif i_per is not None and i_per != m_per:
        ok = False
    elif name == 'NMEAQueue' and m_exc is None and i_state is not None and fin != 'Ok ' + i_state:
        ok = False
    if not ok:
        rep.disagree('H-stream/' + name, case,
                     {'deliveries': m_per if res['per'] is not None else m_flat, 'end': fin[:400]},
                     {'deliveries': i_per if i_per is not None else i_flat,
                      'end': res['exc'] or ('Ok ' + (i_state or '(state not observable)'))[:400]})
    return ok


# ------------------------------------------------------------------------------------------------ oracles

def spec_items(seq):
    """The schedule in the driver's text form, from the harness's own knowledge of the lines (nothing of pyais)."""
    items = []
    for d in seq:
        if d['kind'] == 'frag':
            raw = bytes.fromhex(d['raw'])
            items.append('F%d/' % d['msg'] + ':'.join([
                'A', tok_common(raw, valid=d['valid'], fill=d['fill'], tag=bytes.fromhex(d['tag']) if d['tag'] else None),
                str(d['cnt']), str(d['num']), opt(d['seq']), cps(d['chan']), hx(d['chunk'].encode()), d['bits'] or '-', '0']))
        elif d['kind'] == 'wrapper':
            items.append(spec_wrapper_token(d))
        else:
            items.append('R:InvalidNMEAMessageException')
    return items


def spec_wrapper_token(d):
    ts, country, region, pss, online = d['fields']
    return ':'.join(['G', tok_common(bytes.fromhex(d['hex']), delim=b'$', talker='PG', typ='HP'),
                     '.'.join(str(x) for x in ts), cps(country), cps(region), cps(pss), str(online)])


def spec_deliveries(model, seq):
    reply = model.ask('asm_spec ' + ' '.join(spec_items(seq)))
    if reply.startswith('ERROR'):
        raise RuntimeError(reply)
    per = []
    for o in (reply.split('|') if reply else []):
        ds = []
        for t in ([] if o == '=' else o[1:].split(',')):
            raw, payload, bits, valid, sq, chan = t.split(';')
            ds.append({'raw': '' if raw == '-' else raw, 'payload': '' if payload == '-' else payload,
                       'bits': '' if bits == '-' else bits, 'valid': valid == '1', 'seq': None if sq == 'N' else int(sq),
                       'chan': '' if chan == '-' else ''.join(chr(int(c)) for c in chan.split('.'))})
        per.append(ds)
    return per


def spec_wrappers(model, events):
    """events: list of 'D' | 'N' | ('W', descriptor) -> per line list of expected wrapper field tuples"""
    toks = [e if isinstance(e, str) else 'W' + spec_wrapper_token(e[1]) for e in events]
    reply = model.ask('asm_specw ' + ' '.join(toks))
    if reply.startswith('ERROR'):
        raise RuntimeError(reply)
    return [[wrapper_fields_of_token(t) for t in ([] if o == '=' else o[1:].split(','))] for o in reply.split('|')] if reply else []


C03_KEYS = ('raw', 'payload', 'bits', 'valid', 'seq', 'chan')


def in_scope(seq):
    """Is the sequence inside the quantifier of C03/C07/C18?  Every line longer than 10 bytes and starting with ! $ or \\;
    non-fragment lines are wrappers or raise one of the three skipped exceptions (checked against the real parser,
    because the parser is being repaired concurrently and the classification must follow the code that exists)."""
    from pyais.messages import NMEASentenceFactory
    for d in seq:
        line = bytes.fromhex(d['hex'])
        if len(line) <= 10 or line[:1] not in (b'!', b'$', b'\\'):
            return False
        if d['kind'] == 'out':
            return False
        if d['kind'] in ('badwrapper', 'foreign', 'malformed'):
            try:
                NMEASentenceFactory.produce(line)
                return False
            except Exception as e:   # noqa: BLE001
                if type(e).__name__ not in SKIPPABLE:
                    return False
    return True


def oracle_c03(spec_per, res, name):
    """-> list of (component, kind, text) for one front-end's deliveries against spec_deliveries."""
    bad = []
    want_flat = [d for x in spec_per for d in x]
    got_flat = [c[1] for c in res['flat']]
    if res['exc'] is not None:
        bad.append(('exception', 'foreign-exception:' + res['exc'], f'{name} raised {res["exc"]} on a well-formed schedule'))
        return bad
    if res['per'] is not None:
        for k, (w, g) in enumerate(zip(spec_per, res['per'])):
            g = [c[1] for c in g]
            if len(w) != len(g):
                kind = 'lost-or-late' if len(w) > len(g) else 'spurious-or-early'
                bad.append(('delivery', kind, f'{name}: line {k}: {len(g)} message(s) delivered, the property demands {len(w)}'))
                return bad
    if len(want_flat) != len(got_flat):
        bad.append(('delivery', 'lost' if len(want_flat) > len(got_flat) else 'duplicated-or-spurious',
                    f'{name}: {len(got_flat)} messages delivered, the property demands {len(want_flat)}'))
        return bad
    for n, (w, g) in enumerate(zip(want_flat, got_flat)):
        for key in C03_KEYS:
            if w[key] != g[key]:
                bad.append((key, 'wrong-value', f'{name}: delivery {n}: {key} = {str(g[key])[:80]!r}, fragments in '
                                                f'fragment-number order give {str(w[key])[:80]!r}'))
                return bad
    return bad


def delivery_events(seq, delivered_flags):
    ev = []
    for d, f in zip(seq, delivered_flags):
        if f:
            ev.append('D')
        elif d['kind'] == 'wrapper':
            ev.append(('W', d))
        else:
            ev.append('N')
    return ev


def oracle_c18(model, seq, spec_per, res, name):
    """wrapper attached to each delivery = spec_wrapper over (wrapper lines, delivery positions)."""
    if res['exc'] is not None:
        return []
    if res['per'] is not None:
        flags = [len(x) > 0 for x in res['per']]
        if any(len(x) > 1 for x in res['per']):
            return []
    elif spec_per is not None and [len(x) for x in spec_per].count(1) + [len(x) for x in spec_per].count(0) == len(spec_per) \
            and sum(len(x) for x in spec_per) == len(res['flat']):
        flags = [len(x) > 0 for x in spec_per]
    else:
        return []
    want = [w for x in spec_wrappers(model, delivery_events(seq, flags)) for w in x]
    got = [c[1]['wrapper'] for c in res['flat']]
    bad = []
    for n, (w, g) in enumerate(zip(want, got)):
        w = None if w is None else (tuple(w[0]), w[1], w[2], w[3], w[4])
        if w != g:
            kind = 'lost' if g is None else ('stale-or-unexpected' if w is None else 'wrong-value')
            multi = c_is_multi(res['flat'][n][1])
            bad.append(('wrapper_msg', kind, f'{name}: delivery {n} ({"assembled (buffered)" if multi else "single"} message, {res["flat"][n][1]["cnt"]} fragment(s)) '
                                             f'carries wrapper {g}, the latest wrapper since the previous delivery is {w}',
                        'assembled' if multi else 'single'))
            break
    return bad


def c_is_multi(a):
    """went through the fragment buffer (everything but a 1/1 message without sequence id)"""
    return not (a['cnt'] == 1 and a['seq'] in (None, 0))


C07_KEYS = ('raw', 'payload', 'bits', 'valid', 'wrapper', 'tag')


def oracle_c07(results):
    """results: {front-end name: res}.  Pairwise equality of the delivered sequences, against the first front-end."""
    bad = []
    names = [n for n in results if not n.startswith(BOUNDED)]
    ref = names[0]
    for name in names[1:]:
        a, b = results[ref], results[name]
        if a['exc'] != b['exc']:
            bad.append((name, 'exception', 'differs', f'{ref} ends with {a["exc"]}, {name} with {b["exc"]}'))
            continue
        fa, fb = [c[1] for c in a['flat']], [c[1] for c in b['flat']]
        if len(fa) != len(fb):
            bad.append((name, 'delivery', 'count', f'{ref} delivers {len(fa)} messages, {name} {len(fb)}'))
            continue
        for n, (x, y) in enumerate(zip(fa, fb)):
            diff = [k for k in C07_KEYS if x[k] != y[k]]
            if diff:
                k = diff[0]
                multi = 'assembled' if x['cnt'] > 1 else 'single'
                bad.append((name, 'wrapper_msg' if k == 'wrapper' else k, 'wrong-value',
                            f'delivery {n} ({multi}): {k} is {str(x[k])[:90]!r} from {ref} and {str(y[k])[:90]!r} from {name}'))
                break
    return bad


def oracle_decode(seq, res, name):
    """decode(*parts) of a message's lines agrees with .decode() of the sentence the reader delivered."""
    import pyais
    bad = []
    by_msg = {}
    for d in seq:
        if d['kind'] == 'frag':
            by_msg.setdefault(d['msg'], []).append(d)
    complete = {}
    for m, fr in by_msg.items():
        if len(fr) == fr[0]['cnt']:
            raw = b'\n'.join(bytes.fromhex(x['raw']) for x in sorted(fr, key=lambda x: x['num'])).hex()
            complete[raw] = [bytes.fromhex(x['hex']) for x in fr]      # in ARRIVAL order
    for c in res['flat']:
        parts = complete.get(c[1]['raw'])
        if parts is None:
            continue

        def dec(f):
            try:
                m_ = f()
                return (type(m_).__name__, tuple((k, repr(ais.canon_value(v))) for k, v in m_.asdict().items()))
            except Exception as e:   # noqa: BLE001
                return ('Raise', type(e).__name__)
        a, b = dec(lambda: c[2].decode()), dec(lambda: pyais.decode(*parts))
        if a != b:
            bad.append((name, 'decode', 'wrong-value', f'decode(*parts) = {str(b)[:120]}, delivered sentence decodes to {str(a)[:120]}'))
            break
    return bad


# ------------------------------------------------------------------------------------------------ bounded NMEAQueue (backpressure)
#
# NMEAQueue(maxsize=k) fed with put_line(line, block=False) (or a short timeout) by a producer that catches queue.Full and goes
# on with the next line -- it never offers a refused line again --, and a consumer that takes items out at given moments.
# Model: queue_step_b / bq_run (Model/Assemble.v; command asm_run_b), which gets per line whether the queue had room -- the
# capacity arithmetic (k, the consumer) is the environment's.  Oracle: Proofs/AssembleBounded.v bq_schedule_correct -- what
# comes out of the bounded queue is, line by line, what the unbounded reference delivers at the lines whose put was accepted,
# queue.Full is raised exactly at the others where a message is due, nothing is left behind in the slot table.

BOUNDED = 'NMEAQueue/bounded'
RULE_BOUNDED = ('; wherever NMEAQueue is among the front-ends the same lines also go into NMEAQueue(maxsize=k), k in 1..3, with '
                'put_line(line, block=False) (one run in ten: block=True with a 0.2 ms timeout), queue.Full caught per line and the line '
                'NOT offered again, and a consumer that calls get_or_none() at given moments: k = 1 with the queue emptied right after '
                'every refused message (two phases) and PRNG-drawn (k, takes per line) pairs derived from the case; a bounded case = '
                '(k, put mode, consumer schedule, tbq, terminator, line list)')
ASSUMPTION_BOUNDED = ('bounded NMEAQueue: queue_step_b takes, per line, whether the final put would be accepted; the harness supplies '
                      '"qsize() < maxsize right before the call" (queue.Queue\'s own capacity arithmetic and the consumer are the '
                      'environment of the model, not part of it), so the theorems hold for every capacity and every consumer; a '
                      'refused line is never offered again (a repeated last fragment is a stale fragment, outside the well-formed '
                      'schedules)')


def bounded_random_params(lines, term, tbq, variant):
    """k, put mode and the consumer's schedule (takes[i] = number of get attempts right before line i; everything is
    taken out after the last line), derived from the case alone."""
    import random as _random
    import zlib
    r = _random.Random(zlib.crc32(b'\n'.join(lines) + b'|' + term + bytes([1 if tbq else 0, variant])))
    k = r.choice([1, 1, 2, 3])
    p = r.choice([0.05, 0.15, 0.3, 0.6])
    takes = [(r.choice([1, 1, 2, 3]) if r.random() < p else 0) for _ in lines]
    return {'k': k, 'mode': 'timeout' if r.random() < 0.1 else 'nonblock', 'takes': takes, 'how': 'random'}


def bounded_directed_params(delivers, phase):
    """k = 1 and a consumer that empties the queue right after every refused message (delivers[i] = a message is due at line
    i): messages are accepted and refused alternately, and the lines that follow a refused message -- the next message of
    its slot among them -- find room in the queue."""
    takes = [0] * len(delivers)
    filled, seen = False, 0
    for i, d in enumerate(delivers):
        if not d:
            continue
        seen += 1
        if filled:                      # this one is refused; the consumer empties the queue before the next line
            if i + 1 < len(takes):
                takes[i + 1] = 1
            filled = False
        else:
            filled = True
            if phase == 1 and seen == 1 and i + 1 < len(takes):
                takes[i + 1] = 1        # the other phase: take the first message at once
                filled = False
    return {'k': 1, 'mode': 'nonblock', 'takes': takes, 'how': 'directed%d' % phase}


def run_bounded(raw_lines, tbq, params, conv=None):
    """-> res like run_frontend plus 'full' (queue.Full raised by the call for line i) and 'room' (the queue had a free
    place when line i was offered).  A taken item is attributed to the line whose call put it (FIFO)."""
    import queue as _queue
    import pyais.stream as ps
    from pyais.queue import NMEAQueue
    conv = conv or (lambda s: (tok_delivered(s), attrs(s), s))
    q = ps.TagBlockQueue() if tbq else None
    n = len(raw_lines)
    nq = NMEAQueue(maxsize=params['k'], tbq=q)
    per, flat, exc = [[] for _ in range(n)], [], None
    full, room, owners, unowned = [False] * n, [True] * n, [], []

    def take():
        s = nq.get_or_none()
        if s is None:
            return False
        c = conv(s)
        flat.append(c)
        if owners:
            per[owners.pop(0)].append(c)
        else:
            unowned.append(c)
        return True
    for i, line in enumerate(raw_lines):
        for _ in range(params['takes'][i] if i < len(params['takes']) else 0):
            take()
        before = nq.qsize()
        room[i] = before < params['k']
        try:
            if params['mode'] == 'timeout':
                nq.put_line(line, True, 0.0002)
            else:
                nq.put_line(line, block=False)
        except _queue.Full:
            full[i] = True
        except Exception as e:   # noqa: BLE001
            exc = type(e).__name__
            break
        owners.extend([i] * max(0, nq.qsize() - before))
    while take():
        pass
    state = None
    if exc is None:
        cells = []
        for (seq, chan), arr in nq.buffer.items():
            cs = ','.join('%d=%s' % (i, hx(a.raw)) for i, a in enumerate(arr) if a is not None)
            cells.append('[%d;%s;%d;%s]' % (seq, cps(chan), len(arr), cs))
        state = 'B' + ''.join(cells) + 'W' + ('N' if nq.last_wrapper is None else tok_gatehouse_obj(nq.last_wrapper))
    return {'per': per, 'flat': flat, 'exc': exc, 'state': state, 'full': full, 'room': room, 'unowned': unowned}


def correspond_bounded(ctx, raw_lines, tbq, res, case, strip_wrapper=False):
    """Extracted bq_run queue_step_b, given the real parser's outcomes and per line whether the queue had room, against the
    bounded NMEAQueue: per line nothing / the sentence put / queue.Full, the escaping exception, final buffer and wrapper."""
    rep, model = ctx.rep, ctx.model
    toks = parse_outcomes(raw_lines, tbq)
    puts = ''.join('O' if r else 'F' for r in res['room'])
    reply = model.ask('asm_run_b %s %s' % (puts, ' '.join(toks))) if toks else ' # Ok BWN'
    if reply.startswith('ERROR'):
        raise RuntimeError(reply + ' for ' + ' '.join(toks)[:300])
    outs, fin = reply.split(' # ')
    cut = (lambda t: t.split('@')[0]) if strip_wrapper else (lambda t: t)
    m_per = [([] if o == '=' else [cut(o[1:])]) for o in outs.split('|')] if outs else []
    if strip_wrapper and fin.startswith('Ok '):
        fin = fin.split('W')[0]
    m_exc = fin[6:] if fin.startswith('Raise ') else None
    i_per = [(['!Full'] if f else []) + [cut(c[0]) for c in x] for f, x in zip(res['full'], res['per'])]
    i_state = None if res['state'] is None else (res['state'].split('W')[0] if strip_wrapper else res['state'])
    ok = m_exc == res['exc'] and not res['unowned']
    if ok and m_exc is None:
        ok = m_per == i_per and fin == 'Ok ' + i_state
    elif ok:
        ok = m_per == i_per[:len(m_per)] and not any(i_per[len(m_per):])
    if not ok:
        rep.disagree('H-stream/' + BOUNDED, case, {'puts': puts, 'per_line': m_per, 'end': fin[:400]},
                     {'per_line': i_per, 'end': res['exc'] or ('Ok ' + (i_state or ''))[:400],
                      'unattributed': [c[0] for c in res['unowned']][:3]})
    return ok


def whose_fragments(seq, raw_hex):
    """The lines of a delivered raw text, each as 'fragment n/c of message m' by the harness's own record of the sequence."""
    by_raw = {}
    for d in seq:
        if d['kind'] == 'frag':
            by_raw.setdefault(d['raw'], []).append(d)
    parts, msgs = [], set()
    for piece in bytes.fromhex(raw_hex).split(b'\n'):
        ds = by_raw.get(piece.hex())
        if not ds:
            parts.append('an unknown line')
            msgs.add(None)
        else:
            parts.append('fragment %d/%d of message %s' % (ds[0]['num'], ds[0]['cnt'], '/'.join(sorted({str(x['msg']) for x in ds}))))
            msgs.add(frozenset(x['msg'] for x in ds))
    if None in msgs:
        mixed = len(msgs) > 1
    else:
        mixed = not frozenset.intersection(*msgs)       # no message that all its lines belong to
    return ' + '.join(parts), mixed


def expected_rest(seq, spec_per):
    """What the reader must still hold after the sequence, by the harness's own record: slot -> {cell: raw} of the messages that
    are not complete, and the wrapper line that no delivery has consumed."""
    live, pending = {}, None
    for d, due in zip(seq, spec_per):
        if d['kind'] == 'wrapper':
            pending = d
        if d['kind'] == 'frag' and not (d['cnt'] == 1 and d['seq'] in (None, 0)):
            slot = (-1 if d['seq'] is None else d['seq'], cps(d['chan']))
            cells = live.setdefault((slot, d['msg']), {})
            cells[d['num'] - 1] = d['raw']
        if due:
            pending = None
            if d['kind'] == 'frag':
                live = {k: v for k, v in live.items() if k[1] != d['msg']}
    return {slot: cells for (slot, _), cells in live.items()}, pending


def parse_state(state):
    import re
    buf, w = state[1:].split('W', 1)
    slots = {}
    for m in re.finditer(r'\[(-?\d+);([^;\]]*);(\d+);([^\]]*)\]', buf):
        cells = {}
        for c in (m.group(4).split(',') if m.group(4) else []):
            i, raw = c.split('=')
            cells[int(i)] = '' if raw == '-' else raw
        slots[(int(m.group(1)), m.group(2))] = cells
    return slots, wrapper_fields_of_token(w)


def oracle_bounded(seq, spec_per, want_w, res, want, ref=None, ref_name=None):
    """-> list of (component, kind, text).  spec_per / want_w = the messages and their wrappers the unbounded reference delivers
    per line (Spec/AssembleSpec.v on the harness's own description of the lines); ref = the per-line deliveries of another
    front-end (C07's differential clause).  C03 looks at what is delivered where and at the slot table, C18 at the wrappers,
    C07 at both."""
    bad = []
    if any(len(x) > 1 for x in spec_per):
        return bad
    if res['exc'] is not None:
        return [('exception', 'foreign-exception:' + res['exc'], f'{BOUNDED} raised {res["exc"]} on a well-formed schedule')]
    deliveries = 'C03' in want or 'C07' in want
    wrappers = 'C18' in want or 'C07' in want
    keys = C03_KEYS if 'C03' in want else (('raw', 'payload', 'bits', 'valid') if 'C07' in want else ())
    seen_raw = set()
    for i, (due, got, full) in enumerate(zip(spec_per, res['per'], res['full'])):
        got = [c[1] for c in got]
        kind_i = seq[i]['kind']
        if full and not due and (deliveries or kind_i == 'wrapper'):
            if not any(b[0] == 'queue.Full' for b in bad):
                bad.append(('queue.Full', 'refused-without-delivery',
                            f'{BOUNDED}: queue.Full raised for line {i} ({kind_i} line), a line that puts nothing on the queue'
                            + (': the wrapper is lost' if kind_i == 'wrapper' else '')))
            continue            # (go on: what the refused line costs later -- a message without its wrapper, a lost message -- is a finding of its own)
        if deliveries:
            if got and not due:
                what, mixed = whose_fragments(seq, got[0]['raw'])
                k = 'mixed-fragments' if mixed else ('duplicated' if got[0]['raw'] in seen_raw else 'spurious-or-early')
                bad.append(('delivery', k, f'{BOUNDED}: line {i} ({kind_i}) puts a message on the queue although no message is due '
                                           f'there: {what}' + (' -- fragments of different messages in one delivery' if mixed else '')))
                break
            if len(got) > 1:
                bad.append(('delivery', 'duplicated-or-spurious', f'{BOUNDED}: line {i} puts {len(got)} messages on the queue'))
                break
            if due and not got and not full:
                bad.append(('delivery', 'lost', f'{BOUNDED}: the message due at line {i} never comes out of the queue although '
                                                'queue.Full was not raised for that line'))
                break
            if full and got:
                bad.append(('queue.Full', 'raised-and-delivered', f'{BOUNDED}: line {i}: queue.Full was raised AND a message was put'))
                break
            if full and res['room'][i]:
                bad.append(('queue.Full', 'raised-with-room', f'{BOUNDED}: queue.Full raised for line {i} while the queue had a free place'))
                break
        if len(got) == 1 and due:
            seen_raw.add(got[0]['raw'])
            wrong = [k for k in keys if due[0][k] != got[0][k]]
            if wrong:
                k = wrong[0]
                what, mixed = whose_fragments(seq, got[0]['raw'])
                bad.append((k, 'mixed-fragments' if mixed else 'wrong-value',
                            f'{BOUNDED}: the message put at line {i} has {k} = {str(got[0][k])[:80]!r}, the unbounded reference delivers '
                            f'{str(due[0][k])[:80]!r} there; it consists of {what}'))
                break
            if wrappers and want_w[i] and want_w[i][0] != got[0]['wrapper']:
                g, w = got[0]['wrapper'], want_w[i][0]
                bad.append(('wrapper_msg', 'lost' if g is None else ('stale-or-unexpected' if w is None else 'wrong-value'),
                            f'{BOUNDED}: the message put at line {i} carries wrapper {g}, the unbounded reference delivers it with {w}'))
                break
            if ref is not None and i < len(ref) and len(ref[i]) == 1:
                diff = [k for k in C07_KEYS if ref[i][0][1][k] != got[0][k]]
                if diff:
                    bad.append((diff[0], 'wrong-value', f'{BOUNDED}: the message put at line {i} has {diff[0]} = {str(got[0][diff[0]])[:80]!r}, '
                                                        f'{ref_name} delivers it with {str(ref[i][0][1][diff[0]])[:80]!r}'))
                    break
    if res['state'] is not None:
        exp_slots, exp_pending = expected_rest(seq, spec_per)
        got_slots, got_pending = parse_state(res['state'])
        if deliveries and exp_slots != got_slots:
            extra = sorted(set(got_slots) - set(exp_slots))
            refused = [i for i, (due, f) in enumerate(zip(spec_per, res['full'])) if due and f]
            show = lambda t: {k: sorted(v) for k, v in t.items()}   # noqa: E731
            bad.append(('buffer', 'stale-fragments' if extra else 'wrong-value',
                        f'{BOUNDED}: after the last line the slot table holds cells {show(got_slots)}, the fragments of the incomplete '
                        f'messages are {show(exp_slots)} (messages refused with queue.Full at lines {refused})'))
        if wrappers:
            e = None if exp_pending is None else (tuple(exp_pending['fields'][0]),) + tuple(exp_pending['fields'][1:])
            if e != got_pending:
                bad.append(('last_wrapper', 'lost' if got_pending is None else 'stale-or-unexpected',
                            f'{BOUNDED}: after the last line the pending wrapper is {got_pending}, the wrapper lines not consumed by a '
                            f'delivery give {e}'))
    return bad


def run_bounded_case(ctx, seq, label, lines, term, tbq, want, scoped, spec_per, results, frontends, previous, only=None):
    """The bounded front-end for one sequence: directed and PRNG-drawn (k, consumer) pairs, or exactly `only` (a replay)."""
    rep = ctx.rep
    raw_lines = lines_for('NMEAQueue', lines, term)
    if only is not None:
        variants = [only]
    else:
        guide = [len(x) > 0 for x in (spec_per if spec_per is not None else (results['NMEAQueue']['per'] or []))]
        guide += [False] * (len(lines) - len(guide))
        rich = label.split(':')[0] in ('boundary', 'sequential', 'many-in-flight', 'many-incomplete-then-wrapper')
        variants = [bounded_directed_params(guide, 0), bounded_random_params(lines, term, tbq, 0)]
        if rich:
            variants += [bounded_directed_params(guide, 1), bounded_random_params(lines, term, tbq, 1)]
    ref_name = frontends[0] if frontends[0] != 'NMEAQueue' or len(frontends) == 1 else frontends[1]
    ref = results.get(ref_name, {}).get('per') if 'C07' in want else None
    want_w = None
    if scoped and ctx.model is not None and spec_per is not None and not any(len(x) > 1 for x in spec_per):
        want_w = [[None if w is None else (tuple(w[0]), w[1], w[2], w[3], w[4]) for w in x]
                  for x in spec_wrappers(ctx.model, delivery_events(seq, [len(x) > 0 for x in spec_per]))]
    for params in variants:
        res = run_bounded(raw_lines, tbq, params)
        results[BOUNDED + ':' + params['how']] = res
        rep.case((BOUNDED, params['k'], params['mode'], tuple(params['takes']), tbq, term, tuple(d['hex'] for d in seq)),
                 kind='frontend:' + BOUNDED)
        rep.count('bounded:runs')
        rep.count('bounded:queue.Full raised', sum(res['full']))
        case = {'label': label, 'term': term.hex(), 'tbq': tbq, 'lines': [d['hex'] for d in seq], 'frontend': BOUNDED, 'bounded': params}
        if ctx.model is not None:
            correspond_bounded(ctx, raw_lines, tbq, res, case, strip_wrapper=(tuple(want) == ('C03',)))
        if not scoped or ctx.model is None or spec_per is None:
            continue
        # (counted from the harness's own view -- a message is due and the queue has no room --, not from what the implementation did)
        refused = [i for i, (due, r) in enumerate(zip(spec_per, res['room'])) if due and not r]
        rep.count('bounded:messages refused', len(refused))
        rep.count('bounded:assembled messages refused', sum(1 for i in refused if seq[i]['cnt'] > 1))
        rep.count('bounded:wrapped messages refused',
                  sum(1 for i in refused if any(d['kind'] == 'wrapper' for d in seq[max(0, i - 2):i])))
        slots_refused = {(seq[i]['seq'], seq[i]['chan']): i for i in refused if seq[i]['cnt'] > 1}
        if any(d['kind'] == 'frag' and d['cnt'] > 1 and slots_refused.get((d['seq'], d['chan']), len(seq)) < j
               for j, d in enumerate(seq)):
            rep.count('bounded:runs in which a slot is used again after its message was refused')
        replay = {'seq': seq, 'term': term.hex(), 'tbq': tbq, 'label': label, 'previous': previous, 'frontend': BOUNDED,
                  'bounded': params}
        if 'C07' in want:
            replay['reference'] = ref_name
        for comp, kind, text in oracle_bounded(seq, spec_per, want_w, res, want, ref=ref, ref_name=ref_name):
            rep.violation({'entry': BOUNDED, 'component': comp, 'kind': kind}, f'{text} [{label}; maxsize={params["k"]}, '
                          f'{params["mode"]} puts, consumer {params["how"]}]', replay)


# ------------------------------------------------------------------------------------------------ one case, all front-ends

_PREVIOUS = {}
READER_RUNS = []      # [front-end, tbq, [line hex]] of the reader-level runs made outside run_case (tools/props/C05_readers.py
#                       check_sequence) in this process: part of the history a replay may need (shared list + position)


def run_case(ctx, seq, label, term=b'', tbq=False, frontends=None, cache=None, tmpdir=None, want=('C03', 'C07', 'C18'),
             scoped=None, stops=None, bounded=None):
    """Run one sequence through the front-ends; correspondence always, the oracles of `want` when the sequence is inside
    the properties' quantifier.  Returns {front-end: res}."""
    rep = ctx.rep
    lines = [bytes.fromhex(d['hex']) for d in seq]
    frontends = frontends or FRONTENDS
    results = {}
    case = {'label': label, 'term': term.hex(), 'tbq': tbq, 'lines': [d['hex'] for d in seq]}
    # a failure caused by state that EARLIER readers / queues left behind (class-level or module-level state in the library)
    # only reproduces after those earlier cases: the replay refers to all cases run before it in this process (shared list)
    hist = _PREVIOUS.setdefault('cases', [])
    previous = {'cases': hist, 'upto': len(hist), 'runs': READER_RUNS, 'runs_upto': len(READER_RUNS)}
    if not _PREVIOUS.get('replaying'):
        hist.append({'seq': seq, 'term': term.hex(), 'tbq': tbq, 'label': label, 'frontends': list(frontends or FRONTENDS)})
    scoped = in_scope(seq) if scoped is None else scoped
    pairwise_only = label.startswith('pairwise-only')
    if pairwise_only:
        scoped = False
    spec_per = None
    if scoped and ctx.model is not None:
        # the oracles' inputs must lie inside the theorems' quantifier: the extracted, proved-sound WF check says so
        if ctx.model.ask('asm_wf ' + ' '.join(spec_items(seq))) != '1':
            rep.internal('harness generated a sequence outside WF for the oracles: ' + repr(case)[:600])
            scoped = False
        else:
            spec_per = spec_deliveries(ctx.model, seq)
    for name in frontends:
        raw_lines = lines_for(name, lines, term)
        res = run_frontend(name, raw_lines, tbq, tmpdir=tmpdir)
        results[name] = res
        rep.case((name, tbq, term, tuple(case['lines'])), kind='frontend:' + name)
        if ctx.model is not None:
            correspond(ctx, name, raw_lines, tbq, res, dict(case, frontend=name), cache,
                       strip_wrapper=(tuple(want) == ('C03',)))
        if not scoped or ctx.model is None:
            continue
        replay = {'seq': seq, 'term': term.hex(), 'tbq': tbq, 'label': label, 'previous': previous, 'frontend': name}
        if 'C03' in want:
            for comp, kind, text in oracle_c03(spec_per, res, name):
                rep.violation({'entry': name, 'component': comp, 'kind': kind}, f'{text} [{label}]', replay)
        if 'C18' in want:
            for comp, kind, text, cls in oracle_c18(ctx.model, seq, spec_per, res, name):
                rep.violation({'entry': name, 'component': comp, 'kind': kind, 'class': cls}, f'{text} [{label}]', replay)
        if 'C07' in want and name == frontends[0]:
            for nm, comp, kind, text in oracle_decode(seq, res, name):
                rep.violation({'entry': 'decode', 'component': comp, 'kind': kind}, f'{text} [{label}]', replay)
        if 'C07' in want and name == 'SocketStream':
            # the same byte stream as the transport may deliver it: cut into small receive chunks (a line then spans
            # several recv() results); compared with the other front-ends by the pairwise oracle below
            import random as _random
            r2 = _random.Random(len(raw_lines) * 7919 + sum(len(x) for x in raw_lines))
            data, chunks, k = b''.join(raw_lines), [], 0
            while k < len(data):
                step = r2.choice([1, 2, 3, 7, 13, 24, 33, 60])
                chunks.append(data[k:k + step])
                k += step
            res2 = run_frontend('SocketStream', chunks, tbq, tmpdir=tmpdir)
            res2['per'] = None
            results['SocketStream/chunked'] = res2
            rep.case(('SocketStream/chunked', tbq, term, tuple(case['lines'])), kind='frontend:SocketStream/chunked')
    if 'NMEAQueue' in frontends and bounded is not False:
        # the same lines into a BOUNDED queue whose puts may be refused (backpressure; bounded = the recorded k / consumer of a replay)
        run_bounded_case(ctx, seq, label, lines, term, tbq, want, scoped and not pairwise_only, spec_per, results, frontends,
                         previous, only=bounded)
    if label.startswith('sequential') and 'ByteStream' in frontends:
        # iteration interrupted after every delivered message and resumed (`for ... break`, again `for ...`): the readers are
        # at rest at those points, so the deliveries must be the same as for uninterrupted iteration
        res3 = run_resumed(lines_for('ByteStream', lines, term), tbq)
        results['ByteStream/resumed'] = res3
        rep.case(('ByteStream/resumed', tbq, term, tuple(case['lines'])), kind='frontend:ByteStream/resumed')
        if scoped and ctx.model is not None and 'C03' in want:
            for comp, kind, text in oracle_c03(spec_per, res3, 'ByteStream/resumed'):
                rep.violation({'entry': 'ByteStream/resumed', 'component': comp, 'kind': kind}, f'{text} [{label}]',
                              {'seq': seq, 'term': term.hex(), 'tbq': tbq, 'label': label, 'previous': previous, 'frontend': 'ByteStream/resumed'})
        if scoped and ctx.model is not None and 'C18' in want:
            # leaving the loop after a delivery and entering it again must not re-attach (or lose) the pending wrapper
            for comp, kind, text, cls in oracle_c18(ctx.model, seq, spec_per, res3, 'ByteStream/resumed'):
                rep.violation({'entry': 'ByteStream/resumed', 'component': comp, 'kind': kind, 'class': cls}, f'{text} [{label}]',
                              {'seq': seq, 'term': term.hex(), 'tbq': tbq, 'label': label, 'previous': previous, 'frontend': 'ByteStream/resumed'})
    if label.startswith('sequential') and 'ByteStream' in frontends:
        # the source runs dry at quiescent points (always right after a wrapper line) and the SAME reader is iterated again when
        # more lines have arrived: deliveries and their wrappers must be those of uninterrupted reading
        import random as _random
        r3 = _random.Random(len(lines) * 104729 + sum(len(x) for x in lines))
        pts = quiescent_points(seq)
        if stops is None:
            stops = sorted(p for p in pts if seq[p - 1]['kind'] == 'wrapper' or r3.random() < 0.4)
        else:
            stops = sorted(set(stops) & set(pts))                 # (a replay: the recorded positions)
        for pname in ('IterMessages', 'ByteStream', 'BinaryIOStream'):
            res4 = run_polled(pname, lines_for(pname, lines, term), stops, tbq)
            nm4 = pname + '/polled'
            results[nm4] = res4
            rep.case((nm4, tbq, term, tuple(case['lines'])), kind='frontend:' + nm4)
            rep.count('polled:stops', len(stops))
            if scoped and ctx.model is not None:
                rp = {'seq': seq, 'term': term.hex(), 'tbq': tbq, 'label': label, 'previous': previous, 'frontend': nm4, 'stops': stops}
                if 'C03' in want:
                    for comp, kind, text in oracle_c03(spec_per, res4, nm4):
                        rep.violation({'entry': nm4, 'component': comp, 'kind': kind}, f'{text} [{label}]', rp)
                if 'C18' in want:
                    for comp, kind, text, cls in oracle_c18(ctx.model, seq, spec_per, res4, nm4):
                        rep.violation({'entry': nm4, 'component': comp, 'kind': kind, 'class': cls}, f'{text} [{label}]', rp)
    if scoped and ctx.model is not None and (sum(len(x) for x in lines) + len(lines)) % 6 == 0:
        # the same case while an hour passes between any two clock readings (tools/props/leapclock.py): nothing in these paths
        # may depend on the time that passes between two lines
        import leapclock
        for base_name in ('IterMessages', 'NMEAQueue'):
            if base_name not in frontends:
                continue
            with leapclock.leaping():
                res5 = run_frontend(base_name, lines_for(base_name, lines, term), tbq, tmpdir=tmpdir)
            nm5 = base_name + '/leaping-clock'
            results[nm5] = res5
            rep.case((nm5, tbq, term, tuple(case['lines'])), kind='frontend:' + nm5)
            rp5 = {'seq': seq, 'term': term.hex(), 'tbq': tbq, 'label': label, 'previous': previous, 'frontend': nm5}
            if 'C03' in want or 'C07' in want:
                for comp, kind, text in oracle_c03(spec_per, res5, nm5):
                    rep.violation({'entry': nm5, 'component': comp, 'kind': kind}, f'{text} [{label}; an hour between clock readings]', rp5)
            if 'C18' in want:
                for comp, kind, text, cls in oracle_c18(ctx.model, seq, spec_per, res5, nm5):
                    rep.violation({'entry': nm5, 'component': comp, 'kind': kind, 'class': cls},
                                  f'{text} [{label}; an hour between clock readings]', rp5)
    if (scoped or pairwise_only) and 'C07' in want and len(frontends) > 1:
        for nm, comp, kind, text in oracle_c07(results):
            rep.violation({'entry': nm, 'component': comp, 'kind': kind}, f'{text} [{label}]',
                          {'seq': seq, 'term': term.hex(), 'tbq': tbq, 'label': label, 'previous': previous, 'frontend': nm, 'reference': frontends[0]})
    rep.count('scoped' if scoped else 'correspondence-only')
    return results


def describe(seq):
    c = {}
    for d in seq:
        c[d['kind']] = c.get(d['kind'], 0) + 1
    return c


def many_in_flight(rng, n):
    """n two-fragment messages on n distinct (sequence id, channel) slots, ALL in flight at the same time (first fragments,
    then the second fragments in random order), followed by new messages that reuse some of the slots.  A bounded buffer,
    an eviction policy or a cache only shows with many slots occupied at once."""
    slots = [(sq, ch) for sq in [None] + list(range(10)) for ch in ['A', 'B', '1', '2', '']]
    rng.shuffle(slots)
    slots = slots[:n]
    msgs = [make_message(rng, i, 2, sq, ch, bad_checksums=0) for i, (sq, ch) in enumerate(slots)]
    firsts = [m[0] for m in msgs]
    seconds = [m[1] for m in msgs]
    rng.shuffle(firsts)
    rng.shuffle(seconds)
    seq = firsts + seconds
    for j, (sq, ch) in enumerate(slots[:5]):
        m = make_message(rng, n + j, 2, sq, ch, bad_checksums=0)
        seq += [m[1], m[0]]
    return seq


def many_incomplete_then_wrapper(rng, n):
    """n messages whose last fragment never arrives (n distinct slots stay occupied), then a wrapper, then a complete message in
    a fresh slot and a single: the wrapper belongs to the first of them.  A bounded / reset fragment table that also forgets
    the pending wrapper shows only with that many slots occupied."""
    slots = [(sq, ch) for sq in [None] + list(range(10)) for ch in ['A', 'B', '1', '2', '']]
    rng.shuffle(slots)
    seq = []
    for i, (sq, ch) in enumerate(slots[:n]):
        m = make_message(rng, i, 2, sq, ch, bad_checksums=0)
        seq.append(m[0])
    sq, ch = slots[n]
    new = make_message(rng, n, 2, sq, ch, bad_checksums=0)
    seq += [wrapper_line(rng), new[0], new[1], make_message(rng, n + 1, 1, None, 'A')[0], wrapper_line(rng),
            make_message(rng, n + 2, 1, None, 'B')[0]]
    return seq


def sequential_schedule(rng, k):
    """k complete messages one after the other (no interleaving, nothing incomplete), with slots reused -- the readers
    are at rest after every delivery, so iteration may be interrupted and resumed there."""
    seq, used = [], []
    for i in range(k):
        nfrag = rng.choice([1, 2, 2, 3, 4])
        if used and rng.random() < 0.5:
            sq, ch = rng.choice(used)
        else:
            sq, ch = rng.choice(SEQS), rng.choice(CHANS)
        if nfrag == 1:
            sq = rng.choice([None, 0])
        frs = make_message(rng, i, nfrag, sq, ch, bad_checksums=0.05)
        if nfrag > 1:
            used.append((sq, ch))
        order = frs[:]
        rng.shuffle(order)
        for _ in range(rng.choice([0, 0, 1, 1, 2])):          # wrapper line(s) in front of the message (the latest valid one counts)
            seq.append(wrapper_line(rng, valid=rng.random() < 0.85))
        seq += order
    if rng.random() < 0.3:
        seq.append(wrapper_line(rng))                         # a trailing wrapper that nothing follows
    return seq


def reuse_after_incomplete(rng):
    """Valid sentences only, but a slot is used again although its previous message never completed (a fragment was
    lost on the air): outside the well-formed schedules of C03, inside 'any sequence of input lines' of C07 -- only the
    pairwise front-end agreement is demanded here."""
    sq, ch = rng.choice([1, 2, 3, 9, None]), rng.choice(CHANS)
    cases = []
    for stale_cnt, keep, new_cnt in ((3, [2], 2), (3, [1], 2), (4, [3, 0], 2), (2, [1], 3), (5, [4], 4), (3, [2], 3)):
        old = make_message(rng, 0, stale_cnt, sq, ch, bad_checksums=0)
        new = make_message(rng, 1, new_cnt, sq, ch, bad_checksums=0)
        other = make_message(rng, 2, 1, None, 'A')
        order = new[:]
        rng.shuffle(order)
        cases.append([old[i] for i in keep] + [other[0], wrapper_line(rng)] + order + [make_message(rng, 3, 1, None, 'B')[0]])
        # the same with the new message in fragment order and in reverse order (which cell the stale fragment occupies when
        # the new fragments arrive decides what a loop that resets or restarts a slot does)
        cases.append([old[i] for i in keep] + [other[0]] + new)
        cases.append([old[i] for i in keep] + new[::-1] + [other[0]])
    # a message of 12 fragments (the format allows two-digit counts) in a slot that an unfinished 2-fragment message opened
    opener = make_message(rng, 0, 2, sq, ch, bad_checksums=0)
    twelve = []
    bits12 = format(5, '06b') + ''.join(rng.choice('01') for _ in range(424 - 6))
    p12, f12 = ais.armor(bits12)
    step = -(-len(p12) // 12)
    for i in range(12):
        chunk = p12[i * step:(i + 1) * step]
        body = ','.join(['AIVDM', '12', str(i + 1), '' if sq is None else str(sq), ch, chunk, str(f12 if i == 11 else 0)]).encode()
        line = b'!' + body + b'*' + format(ais.xor_checksum(body), '02X').encode()
        twelve.append({'kind': 'frag', 'hex': line.hex(), 'msg': 1, 'cnt': 12, 'num': i + 1, 'seq': sq, 'chan': ch, 'raw': line.hex(),
                       'chunk': chunk, 'fill': f12 if i == 11 else 0, 'valid': True, 'bits': ais.dearmor(chunk, f12 if i == 11 else 0),
                       'tag': None, 'mt': 5})
    cases.append([opener[0]] + twelve + [make_message(rng, 2, 1, None, 'A')[0]])
    cases.append(twelve[::-1])
    # a fragment that arrives twice while its message is still open (a repeater echo): X1 X2 X2 S X3, X1 X1 X2, X2 X1 X2 X3
    x = make_message(rng, 0, 3, sq, ch, bad_checksums=0)
    y = make_message(rng, 1, 1, None, 'A')
    cases.append([x[0], x[1], dict(x[1], msg=0), y[0], x[2]])
    cases.append([x[0], dict(x[0], msg=0), x[1], x[2]])
    cases.append([x[1], x[0], dict(x[1], msg=0), x[2], y[0]])
    return cases


def generated_cases(ctx, n_random, n_out):
    """(label, seq, term, tbq) for a run: boundary content, random well-formed schedules, out-of-scope noise."""
    rng = ctx.rng
    cases = []
    for label, seq in boundary_schedules(rng):
        for tbq in (False, True):
            cases.append(('boundary:' + label, seq, rng.choice([b'', b'\n', b'\r\n']), tbq))
    for n in ((21, 30) if ctx.quick else (21, 22, 30, 41, 55)):
        cases.append(('many-in-flight', many_in_flight(rng, n), rng.choice([b'', b'\n']), False))
    for n in ((15, 16, 17, 32, 50) if ctx.quick else (7, 8, 9, 15, 16, 17, 31, 32, 33, 40, 50, 54)):
        cases.append(('many-incomplete-then-wrapper', many_incomplete_then_wrapper(rng, n), rng.choice([b'', b'\n']), False))
    for _ in range(ctx.budget(12, 60)):
        cases.append(('sequential', sequential_schedule(rng, rng.choice([2, 3, 5, 8])), rng.choice([b'', b'\n', b'\r\n']),
                      rng.random() < 0.3))
    for seq in reuse_after_incomplete(rng):
        cases.append(('pairwise-only:reuse-after-incomplete', seq, rng.choice([b'', b'\n']), False))
    for i in range(n_random):
        k = rng.choice([1, 2, 3, 3, 4, 5, 6, 8])
        seq = gen_schedule(rng, k, force=[rng.choice([1, 9, 2, 3])] if i % 5 == 0 else None)
        cases.append(('random', seq, rng.choice([b'', b'\n', b'\r\n']), rng.random() < 0.5))
    for i in range(n_out):
        seq = gen_schedule(rng, rng.choice([1, 2, 3, 4]), out_noise=1.0, p_noise=0.6)
        for _ in range(rng.randrange(1, 3)):
            seq.insert(rng.randrange(len(seq) + 1), noise_line(rng, 'out'))
        cases.append(('out-of-scope', seq, rng.choice([b'', b'\n', b'\r\n']), rng.random() < 0.5))
    return cases


def run_generated(ctx, want, n_random, n_out, frontends=None, deadline=None):
    import time
    rep = ctx.rep
    tmpdir = tempfile.mkdtemp(prefix='verif_stream_')
    cache = {}
    try:
        for n, (label, seq, term, tbq) in enumerate(generated_cases(ctx, n_random, n_out)):
            if deadline and time.time() > deadline:
                rep.notes.append(f'generated cases stopped at the time limit after {n} sequences')
                break
            res = run_case(ctx, seq, label, term=term, tbq=tbq, cache=cache, tmpdir=tmpdir, want=want, frontends=frontends)
            rep.count('label:' + label.split(':')[0])
            for k, v in describe(seq).items():
                rep.count('lines:' + k, v)
            nd = len(res[FRONTENDS[0]]['flat']) if FRONTENDS[0] in res else 0
            rep.count('deliveries', nd)
            rep.count('deliveries-with-wrapper', sum(1 for c in res[FRONTENDS[0]]['flat'] if c[1]['wrapper']) if nd else 0)
            rep.count('assembled-deliveries', sum(1 for c in res[FRONTENDS[0]]['flat'] if c[1]['cnt'] > 1) if nd else 0)
            rep.count('sequences')
            if nd and any(c[1]['cnt'] > 1 and c[1]['wrapper'] for c in res[FRONTENDS[0]]['flat']):
                rep.count('sequences-with-wrapped-assembled-delivery')
            if len({(d['seq'], d['chan']) for d in seq if d['kind'] == 'frag' and d['cnt'] > 1}) > 1:
                rep.count('sequences-with-several-slots')
            if n % 37 == 0:
                rep.sample({'label': label, 'tbq': tbq, 'lines': [bytes.fromhex(d['hex']).decode('latin-1') for d in seq][:12],
                            'delivered_raw': [bytes.fromhex(c[1]['raw']).decode('latin-1') for c in res[FRONTENDS[0]]['flat']][:6]})
            if len(cache) > 4000:
                cache.clear()
        # generator self-check: the interesting branches must be exercised, not passed silently
        n_seq = rep.dist.get('sequences', 0)
        if n_seq >= 100 and FRONTENDS[0] in (frontends or FRONTENDS):
            for key in ('sequences-with-wrapped-assembled-delivery', 'sequences-with-several-slots'):
                if rep.dist.get(key, 0) < 0.05 * n_seq:
                    rep.internal(f'generator self-check: {key} in only {rep.dist.get(key, 0)} of {n_seq} sequences')
        if n_seq >= 100 and 'NMEAQueue' in (frontends or FRONTENDS) and ctx.model is not None:
            # the bounded front-end must really exert backpressure: refused assembled messages, refused wrapped messages, and a
            # slot used again after its message was refused (the only place where a message kept in its slot would show)
            for key, least in (('bounded:assembled messages refused', 0.5 * n_seq), ('bounded:wrapped messages refused', 0.1 * n_seq),
                               ('bounded:runs in which a slot is used again after its message was refused', 5)):
                if rep.dist.get(key, 0) < least:
                    rep.internal(f'generator self-check: {key} = {rep.dist.get(key, 0)} (at least {least:.0f} expected for {n_seq} sequences)')
    finally:
        shutil.rmtree(tmpdir, ignore_errors=True)


# ------------------------------------------------------------------------------------------------ small-scope enumeration

def enumerate_orders(msgs):
    """All arrival orders of the fragments of the given messages (= all interleavings x per-message permutations)."""
    allf = [f for m in msgs for f in m]
    return itertools.permutations(allf)


def small_scope(ctx, want, shapes, frontends, with_wrappers=True, limit=None, deadline=None):
    """shapes: list of tuples of fragment counts, e.g. (3, 2, 1).  Messages occupy distinct slots (the interleavings of
    messages that share a slot are not well-formed).  All arrival orders of a shape are run; when there are more than
    `limit`, that many PRNG-drawn orders instead (then the space is not recorded as exhausted)."""
    import math
    import time
    rng, rep = ctx.rng, ctx.rep
    cache = {}
    tmpdir = tempfile.mkdtemp(prefix='verif_stream_')
    total = 0
    try:
        for shape in shapes:
            slots = [(1, 'A'), (1, 'B'), (2, 'A'), (None, 'A')]
            msgs = []
            for i, n in enumerate(shape):
                seq, chan = (None, 'A') if n == 1 else slots[i % len(slots)]
                msgs.append(make_message(rng, i, n, seq, chan, bad_checksums=0.1))
            w = wrapper_line(rng)
            w0 = wrapper_line(rng)
            allf = [f for m in msgs for f in m]
            n_orders = math.factorial(len(allf))
            if limit and n_orders > limit:
                def orders():
                    for _ in range(limit):
                        o = allf[:]
                        rng.shuffle(o)
                        yield o
                full = False
            else:
                orders = lambda: enumerate_orders(msgs)   # noqa: E731
                full = True
            for order in orders():
                if deadline and time.time() > deadline:
                    rep.notes.append(f'small-scope enumeration stopped at the time limit in shape {shape}')
                    return total
                seq_ = list(order)
                if with_wrappers:
                    # a wrapper at the start and one directly in front of the last line: the last delivery carries the latest
                    seq_ = [w0] + seq_[:-1] + [w] + seq_[-1:]
                run_case(ctx, seq_, f'enum:{shape}', term=b'\n', tbq=False, frontends=frontends, cache=cache,
                         tmpdir=tmpdir, want=want, scoped=True)
                total += 1
                if len(cache) > 20000:
                    cache.clear()
            if full:
                rep.exhaustive.append(f'all {n_orders} arrival orders of messages with fragment counts {shape} through '
                                      + '/'.join(frontends)
                                      + (' (each order also into the bounded NMEAQueue, k = 1 with the directed consumer and one '
                                         'PRNG-drawn (k, consumer) pair)' if 'NMEAQueue' in frontends else ''))
            else:
                rep.count(f'sampled-orders:{shape}', limit)
    finally:
        shutil.rmtree(tmpdir, ignore_errors=True)
    return total


# ------------------------------------------------------------------------------------------------ micro harnesses

def pylist_micro(ctx):
    """Prim/PyList.v against CPython on every index / slice bound around the list ends."""
    rep, model = ctx.rep, ctx.model
    reqs, wants = [], []
    for n in (0, 1, 3, 5):
        base = list(range(n))
        for i in list(range(-n - 3, n + 4)) + [-300, 300, 255, -255, -256]:
            try:
                w = 'Ok %d' % base[i]
            except IndexError:
                w = 'Raise IndexError'
            reqs.append(f'pylist get {n} {i}')
            wants.append(w)
            cp = base[:]
            try:
                cp[i] = -7
                w = 'Ok ' + ','.join(map(str, cp))
            except IndexError:
                w = 'Raise IndexError'
            reqs.append(f'pylist set {n} {i}')
            wants.append(w)
            for j in list(range(-n - 2, n + 3)) + [300, -300]:
                reqs.append(f'pylist slice {n} {i} {j}')
                wants.append('Ok ' + ','.join(map(str, base[i:j])))
    for k in (-3, -1, 0, 1, 4):
        reqs.append(f'pylist repeat 0 {k}')
        wants.append('Ok ' + ','.join(map(str, [5] * k)))
    for q, w, g in zip(reqs, wants, model.ask_many(reqs)):
        rep.case(('pylist', q), kind='pylist')
        if w != g:
            rep.disagree('H-prim/PyList', q, g, w)


def source_micro(ctx):
    """The extracted front-end line sources against Stream._iter_messages / IterMessages._iter_messages themselves."""
    import pyais.stream as ps
    rep, model, rng = ctx.rep, ctx.model, ctx.rng
    pool = [b'', b'!', b'$', b'\\', b'!AIVDM,1,1', b'!AIVDM,1,1,', b'$AIVDM,1,1,,', b'\\AIVDM,1,1,,A', b'xAIVDM,1,1,,A,15', b' !AIVDM,1,1,,A',
            b'!AIVDM,1,1,,A,15M67FC000G?ufbE`FepT@3n00Sa,0*5C', b'$GPGGA,1,2,3,4,5', b'\\s:x*00\\!AIVDM,1,1,,A,1,0*00', b'\r', b'1234567890',
            b'!234567890', b'!2345678901', b'!23456789\r', b'#AIVDM,1,1,,A,15M6,0*00']
    for _ in range(ctx.budget(60, 600)):
        lines = [rng.choice(pool) for _ in range(rng.randrange(0, 8))]
        rep.case(('src', tuple(lines)), kind='source')
        want_iter = list(ps.IterMessages(lines)._iter_messages())
        want_bs = list(ps.ByteStream(lines)._iter_messages())
        term = rng.choice([b'\n', b'\r\n'])
        content = b''.join(l + term for l in lines)
        if rng.random() < 0.3 and lines:
            content = content[:-len(term)]          # last line without terminator
        want_io = list(ps.BinaryIOStream(io.BytesIO(content))._iter_messages())
        got_iter = model.ask('asm_src iter ' + ' '.join(hx(l) for l in lines)).split()[:-1]
        got_bs = model.ask('asm_src stream ' + ' '.join(hx(l) for l in lines)).split()[:-1]
        got_io = model.ask('asm_split ' + hx(content)).split()[:-1]
        for nm, w, g in (('iter', want_iter, got_iter), ('bytestream', want_bs, got_bs), ('binaryio', want_io, got_io)):
            if [hx(x) for x in w] != g:
                rep.disagree('H-stream/source:' + nm, [hx(x) for x in lines], g, [hx(x) for x in w])


def replay_case(ctx, data, want):
    """Re-run one recorded sequence; returns the text of the first violation of `want` that still occurs."""
    import vlib
    own = ctx.model is None
    if own:
        ctx.model = vlib.FastModel()
    tmpdir = tempfile.mkdtemp(prefix='verif_stream_')
    try:
        fes = [data['frontend']]
        if data.get('reference'):
            fes = [data['reference'], data['frontend']]
        label = data.get('label') or 'replay'     # (the label decides which oracles apply: 'pairwise-only:...', 'sequential')
        bounded = False
        if data['frontend'] == BOUNDED:
            # the bounded queue with the recorded capacity and consumer schedule (run_case derives it from 'NMEAQueue')
            bounded = data.get('bounded')
            fes = [f for f in fes if f != BOUNDED]
            fes = fes + ['NMEAQueue'] if 'NMEAQueue' not in fes else fes
        if any('/' in f for f in fes):
            # a derived front-end (ByteStream/resumed, <reader>/polled, SocketStream/chunked): run_case derives them from the
            # plain ones of a 'sequential' case
            if not label.startswith('sequential') and any('/' in f and not f.endswith('/leaping-clock') for f in fes):
                label = 'sequential:replay'
            fes = sorted({f.split('/')[0] for f in fes} | ({'ByteStream'} if any('/polled' in f or '/resumed' in f for f in fes) else set()))

        def once():
            before = len(ctx.rep.violations)
            run_case(ctx, data['seq'], label, term=bytes.fromhex(data['term']), tbq=data['tbq'], frontends=fes, tmpdir=tmpdir,
                     want=want, stops=data.get('stops'), bounded=bounded)
            new = ctx.rep.violations[before:]
            same = [v for v in new if v['signature'].get('entry') == data['frontend']]
            return (same or new)[0]['what'] if new else None
        _PREVIOUS['replaying'] = True
        prev = data.get('previous') or {}
        r = None
        for name, tbq_, hexes in (prev.get('runs') or [])[:prev.get('runs_upto', 0)]:      # reader-level runs made before it
            try:
                run_frontend(name, [bytes.fromhex(h) for h in hexes], tbq_, tmpdir=tmpdir)
            except Exception:      # noqa: BLE001
                pass
        for k, pc in enumerate(prev.get('cases', [])[:prev.get('upto', 0)]):
            # the cases that preceded it in the recorded run first (same process, new reader / queue objects): a failure caused
            # by state that leaks between objects needs them.  (If one of THEM already violates, that is the answer.)
            quiet = len(ctx.rep.violations)
            run_case(ctx, pc['seq'], pc['label'], term=bytes.fromhex(pc['term']), tbq=pc['tbq'],
                     frontends=pc.get('frontends'), tmpdir=tmpdir, want=want)
            if len(ctx.rep.violations) > quiet and r is None:
                r = ctx.rep.violations[quiet]['what'] + f' (case {k} of the recorded run)'
            del ctx.rep.violations[quiet:]
        return once() or r
    finally:
        shutil.rmtree(tmpdir, ignore_errors=True)
        if own:
            ctx.model.close()
            ctx.model = None
