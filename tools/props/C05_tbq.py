"""C05, the tag block queue part -- a malformed tag block never makes put_sentence (and so a reader with a tag block
queue attached) raise anything but a library exception.

Theorem: coq/Props/C05_tbq.v  tbq_put_raises_only_lib (for all sentences, all tag block bytes, all int() oracles).
Correspondence: the extracted Model/Tbq.v against TagBlockQueue.put_sentence (exact exception class), IterMessages(...,
tbq=...) and NMEAQueue(tbq=...).  Oracle: nothing but an AISBaseException leaves put_sentence, nothing at all leaves the
readers, and the valid lines around the bad one are still delivered, to the caller and to the tag block queue.
Meant to be folded into C05.py by whoever owns C05; it runs on its own as `./check C05_tbq`."""
import os
import sys

sys.path.insert(0, os.path.dirname(os.path.abspath(__file__)))
from tagblock_common import hx, with_checksum  # noqa: E402
import C16  # noqa: E402
import C17  # noqa: E402

GEN = []
RULE = ('tag blocks: a fixed family (no "*", two or more "*", empty content, empty / non-hex / non-UTF-8 / signed / '
        'underscored / 0x-prefixed / blank-padded checksum field, malformed fields of every kind) plus one- and two-byte '
        'edits of well-formed tag blocks plus noise over the separator alphabet; each placed (1) alone, (2) between two '
        'valid sentences, (3) between the two sentences of a group; fed to put_sentence directly, to IterMessages and to '
        'NMEAQueue with a tag block queue attached.  distinct = distinct (tag block, placement)')
ASSUMPTIONS = ['library exception = subclass of pyais.exceptions.AISBaseException',
               'int() of non-ASCII digit text is an oracle variable of the model (either outcome is covered by the theorem); '
               'the exception-class comparison leaves such tag blocks out, the oracle does not']
TRUSTED_EXTRA = ['coq/Prim/PyText.v text primitives (see C16)']

FIXED = [b's:x', b'', b'*', b'**', b'a*b*c', b's:x*15*', b'*00', b'*', b's:x*', b's:x*zz', b's:x*1', b's:x*015', b's:x* 15 ',
         b's:x*0x15', b's:x*1_5', b's:x*+15', b's:x*-15', b's:x*_15', b's:x*15_', b's:x*\xff', b's:x*\xc3\xa9', b's:x*\xd9\xa1\xd9\xa2',
         b'g:1-2-3', b'g:1-2-3*', b'g:x*00', b',*2C', b'\xff*00', b'\xff', b's:x*1__5', b's:x*0x', b's:x*0x_15', b's:x*\t15\n',
         b's:x*1 5', b'g:1-2-\xd9\xa3*00', b's:x*' + b'f' * 40, b's:x*--15']


def placements(rng, tb):
    G = lambda n, t, g: ('g', n, t, g, True)   # noqa: E731
    bad = ('raw', tb, 'malformed')
    return [('alone', [bad]), ('between-valid', [('u', 'none'), bad, ('u', 'no-g')]),
            ('inside-group', [G(1, 2, 4), bad, G(2, 2, 4)])]


def check(ctx, tbs):
    rep, rng = ctx.rep, ctx.rng
    from pyais.messages import NMEASentenceFactory
    cases = []
    for tb in tbs:
        if b'\\' in tb:          # would end the tag block early; the framing is C16's business
            continue
        for label, specs in placements(rng, tb):
            cases.append((tb, label, C17.mk_items(rng, specs)))
    asks = ['tbqrun ' + ' '.join(C17.tb_tok(it.tb) for it in items) for _, _, items in cases]
    replies = ctx.model.ask_many(asks) if ctx.model else None
    for i, (tb, label, items) in enumerate(cases):
        order = tuple(range(len(items)))
        badpos = [p for p, it in enumerate(items) if it.grp == 'malformed'][0]
        parsed = [NMEASentenceFactory.produce(it.bare) for it in items]
        rep.case(('c05tbq', tb, label), kind=label)
        rp = {'tb': tb.hex(), 'placement': label}
        d_steps, _ = C17.feed_direct(items, order, parsed)
        if tb:
            i_steps, i_msgs = C17.feed_iter(items, order)
            q_steps, q_msgs = C17.feed_queue(items, order)
        else:                       # produce() does not attach an empty tag block: only direct feeding sees one
            i_steps, i_msgs, q_steps, q_msgs = None, None, None, None
        b = d_steps[badpos]
        rep.count('put_sentence:' + (b[1] if not isinstance(b, list) else 'accepted'))
        # ---- oracle
        paths = [('TagBlockQueue.put_sentence', d_steps)] + ([('IterMessages', i_steps), ('NMEAQueue', q_steps)] if tb else [])
        for name, steps in paths:
            for st in steps:
                if not isinstance(st, list) and not (st[2] and name == 'TagBlockQueue.put_sentence'):
                    rep.violation({'entry': name, 'component': 'tag_block',
                                   'kind': ('foreign-exception:' if not st[2] else 'exception:') + st[1]},
                                  f'{name}: the tag block {tb!r} ({label}) makes '
                                  f'{"put_sentence" if name.startswith("Tag") else "the reader"} raise {st[1]}', dict(rp, entry=name))
        accepted = isinstance(b, list)
        # ($PGHP wrapper sentences, which C17.mk_items mixes in now and then, are sentences for the queue but no messages)
        want_msgs = [it.bare for p, it in enumerate(items) if (accepted or p != badpos) and not it.bare.startswith(b'$')]
        for name, msgs, steps in ((('IterMessages', i_msgs, i_steps), ('NMEAQueue', q_msgs, q_steps)) if tb else ()):
            if all(isinstance(st, list) for st in steps) and msgs != want_msgs:
                rep.violation({'entry': name, 'component': 'messages', 'kind': 'lost'},
                              f'{name}: with the tag block {tb!r} ({label}) {len(msgs)} of {len(want_msgs)} intact messages '
                              f'are delivered', dict(rp, entry=name))
        if label == 'inside-group' and not accepted:
            for name, steps in paths:
                if all(isinstance(st, list) or st[2] for st in steps) and len(steps) == 3 and steps[2] != [[0, 2]]:
                    rep.violation({'entry': name, 'component': 'groups', 'kind': 'wrong-value'},
                                  f'{name}: the group around the bad tag block {tb!r} is delivered as {steps[2]}, not [[0, 2]]',
                                  dict(rp, entry=name))
        # ---- correspondence (exact exception class)
        if replies:
            msteps, _, consulted = C17.parse_run(replies[i])
            if consulted:
                rep.count('oracle-dependent')
                continue
            view = [x if isinstance(x, list) else ('raise', x[1]) for x in d_steps]
            if view != msteps:
                rep.disagree('H-tbq', {'entry': 'put_sentence', 'tb': hx(tb), 'placement': label}, str(msteps), str(view))
            skip = [x if isinstance(x, list) else [] for x in msteps]
            for name, steps in paths[1:]:
                if steps != skip:
                    rep.disagree('H-tbq', {'entry': name, 'tb': hx(tb), 'placement': label}, str(skip), str(steps))
        if i % 301 == 0:
            rep.sample({'tag_block': tb.decode('latin-1'), 'placement': label, 'put_sentence': str(d_steps), 'IterMessages': str(i_steps)})


def run(ctx):
    created = [with_checksum(c) for c in (b's:x', b'g:1-2-3', b'c:1671533231,s:2573535', b't:a:b,d:x', b'g:2-2-4,n:7')]
    check(ctx, FIXED + C16.malformed_raws(ctx.rng, ctx.budget(250, 5000), created))


def hunt(ctx):
    created = [with_checksum(c) for c in (b's:x', b'g:1-2-3', b'c:1671533231,s:2573535')]
    check(ctx, C16.malformed_raws(ctx.rng, 20000, created))


def replay(ctx, data):
    import vlib
    rep = vlib.Report('C05_tbq', 'quick', 0)

    class C:
        pass
    c = C()
    c.rep, c.model, c.rng, c.quick = rep, None, ctx.rng, True
    check(c, [bytes.fromhex(data['tb'])])
    for v in rep.violations:
        if v['replay'].get('placement') == data.get('placement') and v['replay'].get('entry') == data.get('entry'):
            return v['what']
    return rep.violations[0]['what'] if rep.violations else None
