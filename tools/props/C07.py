"""C07 -- every ingestion path delivers the same messages for the same lines.

Models: Model/Assemble.v (stream_step, queue_step, the line sources; over Prim/PyList.v and Model/AssembleIter.v) and, for the
composition over LINES proved in Props/C07.v part 2 (C07_readers_loops_equal, C07_socket, C07_six_frontends, C07_wrappers,
C07_decode_agrees, C07_decode_agrees_schedule, C07), Model/Reader.v (= Model/Nmea.v produce -> Model/Tbq.v -> one loop iteration), Model/DecodeApi.v
(decode_api) and Model/Socket.v (sock_iter_messages).
Correspondence: (a) H-stream (tools/props/stream_common.py): the extracted loops, given the real parser's per-line outcomes,
against the six real front-ends; (b) composed(): on generated line sequences the extracted rd_run (both loops, with and without
a tag block queue) against IterMessages / NMEAQueue per line, and the extracted decode_api on the part lines of every message
(arrival order and reversed) against pyais.decode_nmea_and_ais attribute by attribute.  Model/Socket.v is tied by C06's run.
Oracle: pairwise equality of the delivered sequences (raw, payload, bits, validity, wrapper fields, tag block) of the six
front-ends; decode(*parts) against .decode() of the delivered sentence.
Backpressure extension (C07_bounded_queue): wherever NMEAQueue is a front-end the same lines also go into a bounded
NMEAQueue(maxsize=k) with non-blocking puts (stream_common.py, "bounded NMEAQueue"); what comes out must be, line by line, what
the unbounded reference and the first front-end deliver at the accepted lines."""
import os
import sys

sys.path.insert(0, os.path.dirname(os.path.abspath(__file__)))
import stream_common as sc  # noqa: E402
import C05_readers as rdr  # noqa: E402
import stream_glue  # noqa: E402

GEN = ['GenConst.v', 'GenTables.v', 'GenDispatch.v', 'GenConv.v', 'GenEnums.v', 'GenAlpha.v']
RULE = ('line sequences built by the harness from K messages (1..9 fragments, random bit payloads of real message types '
        'armored and cut by tools/ais.py) in distinct or reused (sequence id, channel) slots, per-message fragment permutation, '
        'random interleaving, some messages left incomplete, mixed with Gatehouse wrappers (valid / invalid dates), tag-blocked '
        'lines, foreign NMEA lines and malformed lines, plus the boundary sequences of DESIGN.md section 5; every sequence goes '
        'through IterMessages, ByteStream, BinaryIOStream, FileReaderStream, SocketStream (scripted recv) and NMEAQueue, with and '
        'without a TagBlockQueue; a case = (front-end, tbq, terminator, line list); distinct = distinct such tuples; thorough tier '
        'adds all arrival orders of small message sets' + sc.RULE_BOUNDED)
ASSUMPTIONS = [sc.ASSUMPTION_BOUNDED,
               'loop-level theorems (C07_queue_step_eq, C07_runs_*, C03, C18) quantify over the per-line outcomes of '
               'NMEASentenceFactory.produce / TagBlockQueue.put_sentence, and correspondence (a) feeds the extracted loops the REAL '
               'outcomes; the theorems of part 2 are over byte lines through the modelled parser and tag block queue, tied by '
               'correspondence (b) here and by the parser / tag-block harnesses of C05, C10, C16, C17',
               'C07_decode_agrees (1) takes a line sequence in which the lines storing into the message\'s (sequence id, channel) '
               'slot are exactly its parts (any order, ANY other lines in between, no hypothesis on them); '
               'C07_decode_agrees_schedule covers slot reuse (other messages of the same slot before and after) for line sequences '
               'that parse, line by line, to a C03 well-formed schedule; with a tag block queue the lines of such a schedule / the parts '
               'must not be rejected by it (no tag block, or one that tb.init() accepts) -- a rejected part is skipped by the reader, '
               'so the message is never completed',
               'the six-front-end theorem is about lines longer than 10 bytes starting with ! $ or backslash (what the Stream line '
               'filter passes; IterMessages and NMEAQueue have no filter), terminated by LF or CR LF; a socket is the sequence of its '
               'recv() results (C06)',
               'fragment count 0 / non-positive fragment numbers (IndexError in both loops) belong to C05 and are outside the '
               'schedules of C03; the model shows them, the correspondence check covers them']
TRUSTED_EXTRA = ['Prim/PyList.v: list index / store / slice / repeat with CPython semantics (micro-harness on every run)',
                 'queue.Queue as a FIFO list, generators as lazy lists, a file object as the list of its LF-terminated lines']
WANT = ('C07',)


MIXED = (('NMEAQueue', b'\r\n'), ('SocketStream', b'\r\n'), ('ByteStream', b'\n'), ('BinaryIOStream', b'\r\n'))


def mixed_terminators(lines, tbq):
    """C07_six_frontends_bare / C07_terminators on the implementation: the in-memory iterator on the bare lines against other
    front-ends on the same lines with the terminator their transport needs.  -> list of (front-end, component, kind, text)"""
    results = {'IterMessages': sc.run_frontend('IterMessages', lines, tbq)}
    for name, term in MIXED:
        results[f'{name}+{term!r}'] = sc.run_frontend(name, [l + term for l in lines], tbq)
    return sc.oracle_c07(results)


def composed(ctx, n=None):
    """Correspondence (b): the composed models of Props/C07.v part 2 against the implementation, on LINES; and the
    terminator clause of the property evaluated on the implementation."""
    rng, rep = ctx.rng, ctx.rep
    n = n if n is not None else ctx.budget(25, 300)
    dec_cases = []
    for _ in range(n):
        items = sc.gen_schedule(rng, rng.choice([1, 2, 3, 4]), max_frag=rng.choice([3, 5, 9]), p_incomplete=0.15, tagged=0.3)
        rdr.check_sequence(ctx, items, [], 'composed-readers')          # rd_run vs IterMessages / NMEAQueue, tbq on and off
        term = rng.choice([b'\n', b'\r\n', b'\r\n', b' \r\n'])
        rdr.check_sequence(ctx, [dict(d, hex=(bytes.fromhex(d['hex']) + term).hex()) for d in items], [],
                           'composed-readers-terminated')
        if sc.in_scope(items):
            lines = [bytes.fromhex(d['hex']) for d in items]
            for tbq in (False, True):
                rep.case(('mixed-terminators', tbq, tuple(lines)), kind='mixed-terminators')
                for nm, comp, kind, text in mixed_terminators(lines, tbq):
                    rep.violation({'entry': nm.split('+')[0], 'component': comp, 'kind': kind + ':terminator-dependent'},
                                  f'bare lines through IterMessages vs terminated lines through {nm}: {text}',
                                  {'mixed': True, 'lines': [l.hex() for l in lines], 'tbq': tbq})
        by_msg = {}
        for d in items:
            if d.get('kind') == 'frag':
                by_msg.setdefault(d['msg'], []).append(bytes.fromhex(d['hex']))   # arrival order (a permutation)
        for parts in by_msg.values():
            dec_cases.append(('composed-decode', parts))
            if len(parts) > 1:
                dec_cases.append(('composed-decode', parts[::-1]))
    stream_glue.compare_decode_api(ctx, dec_cases)


def run(ctx):
    sc.pylist_micro(ctx)
    sc.source_micro(ctx)
    composed(ctx)
    sc.run_generated(ctx, WANT, ctx.budget(140, 1500), ctx.budget(40, 400))
    if ctx.quick:
        sc.small_scope(ctx, WANT, [(2, 1), (2, 2)], sc.FRONTENDS, with_wrappers=True)
    else:
        sc.small_scope(ctx, WANT, [(2, 1), (2, 2), (2, 2, 1), (3, 2), (2, 2, 2)], sc.FRONTENDS, with_wrappers=True)
        sc.small_scope(ctx, WANT, [(3, 3, 1), (3, 2, 2)], ['IterMessages', 'NMEAQueue'], with_wrappers=True)


def hunt(ctx):
    """All arrival orders (= interleavings x per-message permutations) of up to 3 in-flight messages with up to 3 fragments
    plus singles, then random larger schedules; bounded by a time limit."""
    import time
    deadline = time.time() + (240 if ctx.quick else 900)
    fast = ['IterMessages', 'ByteStream', 'BinaryIOStream', 'NMEAQueue']
    two = ['IterMessages', 'NMEAQueue']
    sc.small_scope(ctx, WANT, [(2, 1), (2, 2), (3, 1), (3, 2, 1), (2, 2, 2)], fast, with_wrappers=True, deadline=deadline)
    if not ctx.rep.violations:
        sc.small_scope(ctx, WANT, [(3, 3, 1), (3, 2, 2)], two, with_wrappers=True, deadline=deadline)
    if not ctx.rep.violations:
        sc.run_generated(ctx, WANT, 600, 0, frontends=fast, deadline=deadline)
    if not ctx.rep.violations:
        sc.small_scope(ctx, WANT, [(3, 3, 2), (3, 3, 3), (3, 3, 3, 1)], two, with_wrappers=True, limit=6000, deadline=deadline)


def replay(ctx, data):
    if data.get('mixed'):
        bad = mixed_terminators([bytes.fromhex(h) for h in data['lines']], data.get('tbq', False))
        return bad[0][3] if bad else None
    if 'frontend' not in data and 'entry' in data:
        return rdr.replay(ctx, data)          # a case of the reader-level part (tools/props/C05_readers.py check_sequence)
    return sc.replay_case(ctx, data, WANT)
