"""C05 -- malformed input never escapes the documented error contract (decode()/produce half).

Model: Model/Nmea.v (NMEASentenceFactory.produce and everything below it, exception-precise) and Model/DecodeApi.v
(decode.py _assemble_messages + AISSentence.decode), over Prim/PyBytes.v, Prim/PyInt.v (CPython built-ins).
Correspondence (H-nmea, H-prim): extracted model vs pyais.decode.decode_nmea_line / decode_nmea_and_ais on the same byte
strings; compared is the outcome CLASS: delivered attributes (explicit tuples) | library exception name | foreign
exception name.  Oracle: an exception escaping decode()/decode_nmea_line on any bytes is an AISBaseException.
The reader-loop half of the property (C05b-d: IterMessages/ByteStream/NMEAQueue with and without a tag block queue) is
added by the composition layer: see run_readers() below.  Until then every single generated line is also fed, oracle
only and without a model, to IterMessages and NMEAQueue.put_line (no tag block queue): that is what reports the lines
that parse but crash the loops later (fragment count 0, negative fragment numbers)."""
import os
import sys

sys.path.insert(0, os.path.dirname(os.path.dirname(os.path.abspath(__file__))))
sys.path.insert(0, os.path.dirname(os.path.abspath(__file__)))
import nmea_common as nc  # noqa: E402

GEN = ['GenConst.v', 'GenTables.v', 'GenDispatch.v', 'GenConv.v', 'GenEnums.v']
RULE = ('byte strings derived from valid sentences of every carrier form (AIVDM/AIVDO/other talkers, lower-case type, '
        'single and multi-part, every fill count, extra fields, Gatehouse wrappers): the FIELD x TOKEN matrix (every comma '
        'field, the delimiter/talker/type parts of the first word, the whole last field, the fill half and the checksum half '
        'x {empty, -1, 0, 00, huge, 2^63, 2^63+7, 4301 digits, 1_0, +1, " 1", 0x1, abc, 0xff, ",", "*", "\\", "!", "$"}, checksum '
        'recomputed and kept), truncation at every position, every single deletion, sampled single insertions / byte flips '
        '/ bit flips, tag-block prefixes (well-formed, no "*", two "*", non-hex, unclosed, empty), Gatehouse lines over a '
        'grid of valid/invalid dates and times, hand-picked specials (whitespace-only, limits 100/101, 200/201 ...), random '
        'garbage, and argument LISTS for decode() (complete/incomplete/duplicated/reordered multi-part sets, wrappers mixed '
        'in, inconsistent counts); each line goes through decode_nmea_line and through decode_nmea_and_ais lenient and '
        'strict; a case is one argument list x entry point; distinct = distinct (entry, arguments)')
ASSUMPTIONS = ['arguments are bytes or ASCII str (decode() encodes str as UTF-8 before anything else)',
               'the reader loops (C05b-d) are outside this half: hook run_readers()']
TRUSTED_EXTRA = ['Prim/PyBytes.v, Prim/PyInt.v: CPython 3.12 bytes.split/strip/find/slicing/indexing/upper/decode, tuple '
                 'unpacking, reduce(xor), int(bytes[,16]) grammar incl. the 4300-digit limit, >> and zfill argument errors, '
                 'datetime argument validation -- modelled by hand, validated by the H-prim micro-harness on every run']


def generate(ctx, deep=False):
    """-> list of (kind, [arguments])"""
    rng = ctx.rng
    bases = nc.base_sentences(rng) + [('low-xor', nc.low_xor_sentence())]
    tokens = nc.TOKENS + (nc.TOKENS_EXTRA if (deep or not ctx.quick) else nc.TOKENS_EXTRA[:12])
    cases = []
    for kind, s in nc.specials():
        cases.append((kind, [s]))
    for kind, s in nc.gatehouse_dates():
        cases.append((kind, [s]))
    for kind, s in nc.tag_blocks(bases):
        cases.append((kind, [s]))
    mbases = bases if (deep or not ctx.quick) else [b for b in bases if b[0] in
                                                   ('single', 'single-bs-lower', 'part1of2', 'part2of2', 'fill5', 'extra-field', 'empty-payload',
                                                    'unknown-id', 'gatehouse', 'gatehouse-lower', 'low-xor')]
    for kind, s in nc.matrix(mbases, tokens):
        cases.append((kind, [s]))
    for kind, s in nc.truncations(bases):
        cases.append((kind, [s]))
    for kind, s in nc.mutations(bases, rng, ctx.budget(25, 400), exhaustive=deep):
        cases.append((kind, [s]))
    for kind, s in nc.random_garbage(rng, ctx.budget(300, 20000)):
        cases.append((kind, [s]))
    for kind, parts in nc.multi_sets(rng):
        cases.append((kind, parts))
    return cases


def violation(rep, entry, parts, strict, res):
    e = res[2]
    rep.violation({'entry': entry, 'component': nc.where_raised(e), 'kind': f'foreign-exception:{res[1]}'},
                  f'{entry}({", ".join(repr(p)[:90] for p in parts)}{", error_if_checksum_invalid=True" if strict else ""}) '
                  f'raises {res[1]}: {str(e)[:100]} -- not an AISBaseException',
                  {'entry': entry, 'parts': [p.hex() for p in parts], 'strict': bool(strict)})


def reader_oracle(rep, line):
    """Oracle only (no model yet): one line through the two reader loops without a tag block queue must not raise."""
    from pyais.stream import IterMessages
    from pyais.queue import NMEAQueue
    try:
        list(IterMessages([line]))
    except Exception as e:   # noqa: BLE001
        rep.violation({'entry': 'IterMessages', 'component': nc.where_raised(e), 'kind': f'foreign-exception:{type(e).__name__}'},
                      f'list(IterMessages([{line[:90]!r}])) raises {type(e).__name__}: {str(e)[:100]}',
                      {'entry': 'IterMessages', 'parts': [line.hex()], 'strict': False})
    try:
        NMEAQueue().put_line(line)
    except Exception as e:   # noqa: BLE001
        rep.violation({'entry': 'NMEAQueue.put_line', 'component': nc.where_raised(e),
                       'kind': f'foreign-exception:{type(e).__name__}'},
                      f'NMEAQueue().put_line({line[:90]!r}) raises {type(e).__name__}: {str(e)[:100]}',
                      {'entry': 'NMEAQueue.put_line', 'parts': [line.hex()], 'strict': False})


def run_cases(ctx, cases, readers=True):
    rep, model = ctx.rep, ctx.model
    singles = [(i, parts[0]) for i, (_, parts) in enumerate(cases) if len(parts) == 1]
    m_prod = dict(zip((i for i, _ in singles), nc.model_produce(model, [s for _, s in singles]))) if model else {}
    m_dec = {}
    if model:
        reqs = [(strict, parts) for _, parts in cases for strict in (False, True)]
        out = nc.model_decode(model, reqs)
        for i in range(len(cases)):
            m_dec[(i, False)], m_dec[(i, True)] = out[2 * i], out[2 * i + 1]
    n_dis = 0
    for i, (kind, parts) in enumerate(cases):
        klabel = kind.split(':')[0]
        # str arguments are part of the public interface of decode(): use them for ASCII content now and then
        as_str = (i % 7 == 3) and all(all(c < 128 for c in p) for p in parts)
        args = [p.decode('ascii') for p in parts] if as_str else parts
        escaped = set()
        for strict in (False, True):
            rep.case(('decode', strict, tuple(parts)), kind=klabel)
            res = nc.impl_decode(args, strict)
            rep.count('decode-outcome:' + (res[1] if res[0] == 'Raise' else 'Ok'))
            if res[0] == 'Raise' and not nc.is_library_exception(res[2]):
                if res[1] not in escaped:
                    violation(rep, 'decode', parts, strict, res)
                escaped.add(res[1])
            if model:
                m = m_dec[(i, strict)]
                if m[0] == 'Raise' and m[1] == 'Unmodelled':
                    rep.count('skipped:unmodelled')
                    continue
                d = nc.diff_decode(res, m)
                if d and n_dis < 25:
                    n_dis += 1
                    rep.disagree('H-nmea', {'entry': 'decode', 'strict': strict, 'parts': [p.hex() for p in parts],
                                            'text': [repr(p)[:120] for p in parts], 'kind': kind}, nc.short_outcome(m) + (d,), nc.short_outcome(res))
        if len(parts) == 1:
            rep.case(('produce', parts[0]), kind=klabel)
            res = nc.impl_produce(parts[0])
            rep.count('produce-outcome:' + (res[1] if res[0] == 'Raise' else res[1][0]))
            if res[0] == 'Raise' and not nc.is_library_exception(res[2]) and res[1] not in escaped:
                violation(rep, 'decode_nmea_line', parts, False, res)
            if model:
                d = nc.diff_produce(res, m_prod[i])
                if d and n_dis < 25:
                    n_dis += 1
                    rep.disagree('H-nmea', {'entry': 'decode_nmea_line', 'raw': parts[0].hex(), 'text': repr(parts[0])[:160],
                                            'kind': kind}, nc.short_outcome(m_prod[i]) + (d,), nc.short_outcome(res))
            if readers:
                reader_oracle(rep, parts[0])
            if i % 1500 == 7:
                rep.sample({'kind': kind, 'raw': repr(parts[0])[:120], 'decode_nmea_line': res[1] if res[0] == 'Raise' else res[1][0]})


def run_readers(ctx, deep=False):
    """The reader-loop half of C05 (C05b: nothing escapes IterMessages / NMEAQueue.put_line with and without a
    TagBlockQueue; C05c: skipped lines are no-ops; C05d: slot non-interference): tools/props/C05_readers.py over the composed
    model Model/Reader.v, and the tag block queue part tools/props/C05_tbq.py."""
    import C05_readers
    import C05_tbq
    (C05_readers.hunt if deep else C05_readers.run)(ctx)
    (C05_tbq.hunt if deep else C05_tbq.run)(ctx)


def run(ctx):
    if ctx.model:
        nc.prim_harness(ctx, ctx.budget(1500, 20000), full=not ctx.quick)
    run_cases(ctx, generate(ctx))
    run_readers(ctx)
    if ctx.rep.disagreements or ctx.rep.violations:
        return      # the generator self-check below is only meaningful when implementation and model agree
    for k in ('produce-outcome:AIS', 'produce-outcome:GH', 'produce-outcome:InvalidNMEAMessageException',
              'produce-outcome:UnknownMessageException', 'produce-outcome:NonPrintableCharacterException',
              'decode-outcome:Ok', 'decode-outcome:InvalidNMEAChecksum', 'decode-outcome:MissingMultipartMessageException',
              'decode-outcome:TooManyMessagesException', 'decode-outcome:MissingPayloadException'):
        if ctx.rep.dist.get(k, 0) < 5:
            ctx.rep.internal(f'generator self-check: outcome class {k} reached only {ctx.rep.dist.get(k, 0)} times')


def hunt(ctx):
    """Something no longer checks: the full token set on every base, exhaustive single-byte edits, much more garbage."""
    ctx.escalated = True
    run_cases(ctx, generate(ctx, deep=True))
    run_readers(ctx, deep=True)


def replay(ctx, data):
    if 'lines' in data:                 # reader-level replay (tools/props/C05_readers.py)
        import C05_readers
        return C05_readers.replay(ctx, data)
    if 'tb' in data:                    # tag block queue replay (tools/props/C05_tbq.py)
        import C05_tbq
        return C05_tbq.replay(ctx, data)
    parts = [bytes.fromhex(p) for p in data['parts']]
    entry = data.get('entry', 'decode')
    if entry == 'decode':
        res = nc.impl_decode(parts, data.get('strict', False))
    elif entry == 'decode_nmea_line':
        res = nc.impl_produce(parts[0])
    else:
        import vlib
        rep = vlib.Report('C05', 'quick', 0)
        reader_oracle(rep, parts[0])
        hit = [v for v in rep.violations if v['signature']['entry'] == entry]
        return hit[0]['what'] if hit else None
    if res[0] == 'Raise' and not nc.is_library_exception(res[2]):
        return f'{entry} raises {res[1]}: {str(res[2])[:120]} -- not an AISBaseException'
    return None
