"""C11 -- truncated payloads decode their covered fields and set the rest to None.

Model: Model/Codec.v over the regenerated tables (the from_bitarray loop with its end-of-data test, get_int on possibly
absent discriminator bits).  Correspondence: extracted decode_bits on the prefix vs pyais.decode(*sentences) of sentences
that carry exactly the prefix (armored with the fill bits the prefix length needs).  Oracle: the two implications of the
property relative to the implementation's OWN decode of the untruncated payload; the field positions are those of
Spec/Layout.v (extracted spec_layout), never those of pyais."""
import os
import sys

sys.path.insert(0, os.path.dirname(os.path.abspath(__file__)))
import codec_common as cc  # noqa: E402

GEN = ['GenTables.v', 'GenDispatch.v', 'GenConv.v', 'GenEnums.v', 'GenAlpha.v']
RULE = ('a case is (payload, cut length n): payloads of nominal length of each of the 35 layout variants (PRNG-drawn, all-ones and '
        'all-zero bodies), cut at n = every field boundary of the layout, one bit before and one bit after it, the smallest '
        'admissible length max(6, discriminator end), the full length and PRNG-drawn mid-field positions; plus EVERY bit '
        'length from max(6, discriminator end) to the nominal length of further payloads (1 per variant quick, 14 thorough); a separate model-vs-code stream cuts '
        'below the discriminator / inside the type id (outside the quantifier, no oracle); distinct = distinct (payload, n)')
ASSUMPTIONS = ['binary64 arithmetic obeys the standard model (each operation correctly rounded): the exact-rational value of '
               'a scaled field and the Python float are tied by x == num/den on Python integers',
               'a truncated payload reaches the decoder through well-formed !AIVDM sentences built by the harness '
               '(tools/ais.py) whose fill-bit count makes the de-armored payload exactly the prefix']
TRUSTED_EXTRA = ['Spec/Layout.v is a hand transcription of ITU-R M.1371-5 / gpsd AIVDM (DESIGN.md Appendix A); it supplies the '
                 'field offsets and widths the oracle uses']


# ---------------------------------------------------------------------------------------------------
# the property, evaluated on the implementation's own outputs
# ---------------------------------------------------------------------------------------------------
def same_value(a, b):
    """'exactly the value it has in the untruncated message': same type, same value."""
    if a is None or b is None:
        return a is None and b is None
    if type(a) is not type(b):
        return False
    if isinstance(a, float) and a != a and b != b:
        return True
    return a == b


def oracle(full, pre, layout, n, cls_name):
    """full / pre = cc.impl_decode results of the untruncated payload and of its first n bits.
    -> list of (component, kind, text)."""
    if pre[0] == 'Raise':
        return [('exception', f'exception:{pre[1]}', f'decoding the first {n} bits raised {pre[1]}: {pre[2]}')]
    if full[0] == 'Raise':
        return []          # nothing to compare with (a C01 matter); counted by the caller
    if pre[1] != full[1]:
        return [('variant', 'wrong-class', f'first {n} bits decoded as {pre[1]}, the whole payload as {full[1]}')]
    got, want = dict(pre[2]), dict(full[2])
    bad = []
    for name, off, w in layout:
        if name not in got:
            bad.append((name, 'missing-field', f'{cls_name}.{name} missing from the decoded prefix'))
        elif off + w <= n:
            if name in want and not same_value(got[name], want[name]):
                bad.append((name, 'wrong-value', f'{cls_name}.{name} (bits {off}..{off + w - 1}) lies within the first {n} bits but '
                                                 f'is {cc.show(got[name])}; untruncated: {cc.show(want[name])}'))
        elif n <= off:
            if got[name] is not None:
                bad.append((name, 'not-none', f'{cls_name}.{name} starts at bit {off}, beyond the {n} received bits, but is '
                                              f'{cc.show(got[name])} instead of None'))
    return bad


def cut_positions(rng, spec, n_mid):
    """boundary cuts (at, one before, one after every field boundary), the extremes, and random mid-field cuts."""
    lo = max(6, spec['disc_end'])
    hi = spec['nominal']
    cuts = {lo, lo + 1, hi, hi - 1}
    for _, off, w in spec['layout']:
        for b in (off, off + w):
            cuts.update((b - 1, b, b + 1))
    fields = [(off, w) for _, off, w in spec['layout'] if w > 2 and off + w > lo]
    for _ in range(n_mid):
        off, w = rng.choice(fields)
        cuts.add(rng.randrange(max(off + 1, lo), off + w))
    return sorted(c for c in cuts if lo <= c <= hi)


def impl_decode_reversed(bits, maxlen=17):
    import pyais
    ais = cc.ais
    try:
        msg = pyais.decode(*reversed(ais.bits_to_sentences(bits, maxlen=maxlen)))
    except Exception as e:   # noqa: BLE001
        return ('Raise', type(e).__name__, str(e)[:200])
    d = msg.asdict()
    names = [f.name for f in type(msg).fields()]
    return ('Ok', type(msg).__name__, [(n, d[n]) for n in names], msg)


def check_payload(ctx, variant, bits, spec, cuts, full=None, sample=False):
    """one payload, many cuts: correspondence on every prefix + the oracle against the untruncated decode."""
    rep = ctx.rep
    if full is None:
        full = cc.impl_decode(bits)
    if full[0] == 'Raise':
        rep.count('untruncated-decode-failed')
    replies = ctx.model.ask_many([f'decode {bits[:n]}' for n in cuts]) if ctx.model else None
    layout = spec['layout']
    bounds = {off for _, off, _ in layout} | {off + w for _, off, w in layout}
    for i, n in enumerate(cuts):
        kind = 'cut:at-boundary' if n in bounds else ('cut:boundary+-1' if (n - 1 in bounds or n + 1 in bounds) else 'cut:mid-field')
        rep.case((bits, n), kind=kind)
        pre = cc.impl_decode(bits[:n])
        if replies is not None:
            diff = cc.compare_model(pre, cc.parse_msg(replies[i]))
            if diff:
                rep.disagree('H-codec/decode-prefix', {'variant': variant[0], 'bits': bits, 'n': n}, replies[i][:300], diff)
        for comp, k, text in oracle(full, pre, layout, n, spec['class']):
            rep.violation({'entry': 'decode', 'class': spec['class'], 'component': comp, 'kind': k}, text,
                          {'bits': bits, 'n': n, 'cuts': cuts, 'upto': i})
        if i % 3 == 0 and n > 6 * 17:
            # the same prefix carried by several short sentences handed over in reverse order (decode() accepts any order):
            # the covered fields and the None fields must be the same -- pad bits of the closing fragment must not leak in
            pre2 = impl_decode_reversed(bits[:n])
            for comp, k, text in oracle(full, pre2, layout, n, spec['class']):
                rep.violation({'entry': 'decode(reversed parts)', 'class': spec['class'], 'component': comp, 'kind': k},
                              text + ' [parts passed in reverse order]', {'bits': bits, 'n': n, 'reversed': True, 'cuts': cuts, 'upto': i})
        if sample and pre[0] == 'Ok' and i == len(cuts) // 2:
            rep.sample({'variant': spec['class'], 'payload_bits': len(bits), 'cut': n,
                        'decoded_prefix': {k: cc.show(v) for k, v in pre[2]}})


def payloads_for(rng, variant, n_random):
    """random bodies plus all-ones / all-zero bodies (discriminators and type id kept)."""
    name, tid, nominal, fixed = variant
    out = [cc.make_payload(rng, variant) for _ in range(n_random)]
    for fillbit in '10':
        b = list(fillbit * nominal)
        b[0:6] = format(tid, '06b')
        for k, v in fixed.items():
            b[k] = str(v)
        out.append(''.join(b))
    return out


def variant_spec(ctx, variant):
    base = cc.make_payload(ctx.rng, variant)
    spec = cc.parse_spec(ctx.model.ask(f'spec {base}')) if ctx.model else None
    if spec is None:
        ctx.rep.internal(f'spec_variant gives no variant for a payload built as {variant[0]}')
        return None
    if spec['class'] != variant[0] or spec['nominal'] != variant[2]:
        ctx.rep.internal(f'harness variant table and Spec/Layout.v disagree on {variant[0]}: {spec["class"]}')
        return None
    return spec


def below_discriminator(ctx, variant, spec):
    """model-vs-code only: prefixes that lack the discriminator or part of the type id (outside the quantifier)."""
    rep = ctx.rep
    lo = max(6, spec['disc_end'])
    bits = cc.make_payload(ctx.rng, variant)
    cuts = sorted({1, 5, 6, 7, 37, 38, 39, lo - 1} & set(range(1, lo)))
    if not cuts or not ctx.model:
        return
    replies = ctx.model.ask_many([f'decode {bits[:n]}' for n in cuts])
    for n, r in zip(cuts, replies):
        rep.case((bits, n), kind='cut:below-discriminator')
        diff = cc.compare_model(cc.impl_decode(bits[:n]), cc.parse_msg(r))
        if diff:
            rep.disagree('H-codec/decode-prefix', {'variant': variant[0], 'bits': bits, 'n': n}, r[:300], diff)


def run(ctx):
    rng = ctx.rng
    for variant in cc.VARIANTS:
        spec = variant_spec(ctx, variant)
        if spec is None:
            continue
        for j, bits in enumerate(payloads_for(rng, variant, ctx.budget(3, 6))):
            check_payload(ctx, variant, bits, spec, cut_positions(rng, spec, 20), sample=(j == 0 and variant[1] in (1, 5, 21, 24)))
        below_discriminator(ctx, variant, spec)
    # every admissible length: one random payload per variant in the quick tier, twelve (+ all-ones, all-zero) in the thorough
    every_length(ctx, ctx.budget(1, 12), constant_bodies=not ctx.quick)


def every_length(ctx, n_random, constant_bodies=True):
    """every bit length from max(6, disc_end) to the full length, for several payloads of every variant."""
    import multiprocessing as mp
    jobs = []
    for vi, variant in enumerate(cc.VARIANTS):
        jobs.append((vi, n_random, ctx.seed, ctx.prop, constant_bodies))
    total = 0
    with mp.Pool(min(16, os.cpu_count() or 4)) as pool:
        for res in pool.imap_unordered(_sweep, jobs):
            total += res['n']
            ctx.rep.evaluations += res['n']
            for k, v in res['dist'].items():
                ctx.rep.count(k, v)
            for d in res['distinct']:
                ctx.rep.distinct.add(d)
            for e in res['internal']:
                ctx.rep.internal(e)
            for d in res['disagreements'][:5]:
                ctx.rep.disagree('H-codec/decode-prefix', *d)
            for v in res['violations'][:50]:
                ctx.rep.violation(*v)
            for s in res['samples']:
                ctx.rep.sample(s)
    ctx.rep.exhaustive.append(f'every prefix length from max(6, discriminator end) to the nominal length of '
                              f'{n_random + (2 if constant_bodies else 0)} payloads of each of the 35 layout variants '
                              f'({total} prefixes)')


def _sweep(job):
    vi, n_random, seed, prop, constant_bodies = job
    import random
    import vlib
    sys.path.insert(0, vlib.REPO)

    class C:
        pass
    c = C()
    c.rep = vlib.Report(prop, 'thorough', seed)
    c.rng = random.Random(f'{seed}/{prop}/{vi}')
    c.model = vlib.FastModel()
    variant = cc.VARIANTS[vi]
    spec = variant_spec(c, variant)
    if spec is not None:
        lo = max(6, spec['disc_end'])
        pls = payloads_for(c.rng, variant, n_random)
        for j, bits in enumerate(pls if constant_bodies else pls[:n_random]):
            check_payload(c, variant, bits, spec, list(range(lo, spec['nominal'] + 1)), sample=(j == 0 and vi % 9 == 0))
    c.model.close()
    rep = c.rep
    seen, viol = set(), []
    for v in rep.violations:          # one per signature is enough to report
        k = repr(sorted(v['signature'].items()))
        if k not in seen:
            seen.add(k)
            viol.append((v['signature'], v['what'], v['replay']))
    return {'n': rep.evaluations, 'dist': rep.dist, 'distinct': list(rep.distinct), 'internal': rep.internal_errors,
            'disagreements': [(d['case'], d['model'], d['impl']) for d in rep.disagreements],
            'violations': viol, 'samples': rep.samples[:1]}


def hunt(ctx):
    every_length(ctx, ctx.budget(1, 12))


def replay(ctx, data):
    import vlib
    m = ctx.model or vlib.FastModel()
    bits, n = data['bits'], data['n']
    spec = cc.parse_spec(m.ask(f'spec {bits}'))
    if spec is None:
        return None
    full = cc.impl_decode(bits)
    for i, c in enumerate((data.get('cuts') or [])[:data.get('upto', 0)]):
        # the prefixes decoded before this one in the recorded run, in the same order (a result that depends on an earlier
        # decode() -- a cache keyed too coarsely -- only reproduces after them)
        cc.impl_decode(bits[:c])
        if i % 3 == 0 and c > 6 * 17:
            impl_decode_reversed(bits[:c])
    if data.get('reversed'):
        cc.impl_decode(bits[:n])
    pre = impl_decode_reversed(bits[:n]) if data.get('reversed') else cc.impl_decode(bits[:n])
    bad = oracle(full, pre, spec['layout'], n, spec['class'])
    return '; '.join(t for _, _, t in bad) if bad else None
