"""Harness-side AIS helpers, written independently of pyais (armoring, framing, canonical forms)."""
from fractions import Fraction


def armor(bits):
    """bits: str of 0/1 -> (armored payload str, fill bits)."""
    fill = (6 - len(bits) % 6) % 6
    padded = bits + '0' * fill
    out = []
    for i in range(0, len(padded), 6):
        v = int(padded[i:i + 6], 2)
        out.append(chr(v + 48 if v < 40 else v + 56))
    return ''.join(out), fill


def dearmor(payload, fill=0):
    bits = ''
    for ch in payload:
        v = ord(ch) - 48
        if v > 40:
            v -= 8
        bits += format(v & 63, '06b')
    return bits[:len(bits) - fill] if fill else bits


def xor_checksum(body):
    c = 0
    for b in body:
        c ^= b
    return c


def sentence(talker, frag_cnt, frag_num, seq, channel, payload, fill, checksum=None, start=b'!'):
    body = b','.join([talker if isinstance(talker, bytes) else talker.encode(),
                      str(frag_cnt).encode(), str(frag_num).encode(),
                      b'' if seq is None else str(seq).encode(),
                      channel if isinstance(channel, bytes) else channel.encode(),
                      payload if isinstance(payload, bytes) else payload.encode(),
                      str(fill).encode()])
    if checksum is None:
        checksum = xor_checksum(body)
    return start + body + b'*' + format(checksum, '02X').encode()


def frame(payload, fill, talker='AIVDM', channel='A', seq=None, cuts=None, maxlen=60):
    """Split an armored payload into sentences.  cuts: list of cut positions (character indices) or None for
    maxlen-sized chunks."""
    if cuts is None:
        cuts = list(range(maxlen, len(payload), maxlen))
    parts = []
    prev = 0
    for c in list(cuts) + [len(payload)]:
        parts.append(payload[prev:c])
        prev = c
    n = len(parts)
    if n > 1 and seq is None:
        seq = 0
    out = []
    for i, p in enumerate(parts, 1):
        out.append(sentence(talker, n, i, seq, channel, p, fill if i == n else 0))
    return out


def bits_to_sentences(bits, **kw):
    payload, fill = armor(bits)
    return frame(payload, fill, **kw)


def canon_value(v):
    """Canonical JSON-able form of a decoded field value."""
    import enum
    if v is None:
        return None
    if isinstance(v, bool):
        return ['b', int(v)]
    if isinstance(v, enum.Enum):
        if isinstance(v, float):
            return ['fe', type(v).__name__, frac(float(v))]
        if isinstance(v, int):
            return ['e', type(v).__name__, int(v)]
        return ['se', type(v).__name__, str(v.value)]
    if isinstance(v, int):
        return ['i', int(v)]
    if isinstance(v, float):
        return ['f', frac(v)]
    if isinstance(v, str):
        return ['s', v]
    if isinstance(v, (bytes, bytearray)):
        return ['y', bytes(v).hex()]
    return ['?', repr(v)]


def frac(x):
    """Exact value of a float as 'num/den' text (nan/inf as text)."""
    if x != x:
        return 'nan'
    if x in (float('inf'), float('-inf')):
        return 'inf' if x > 0 else '-inf'
    f = Fraction(x)
    return f'{f.numerator}/{f.denominator}'


def float_is(x, num, den):
    """Does the Python float x equal the correctly rounded quotient num/den?  (int true division is correctly
    rounded, so this is the exact tie between a decimal-world rational and a binary64 value)."""
    try:
        return isinstance(x, float) and x == num / den
    except (OverflowError, ZeroDivisionError):
        return False
