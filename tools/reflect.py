"""Runtime reflection of the loaded pyais package, used to cross-check the translator (run with PYTHONPATH=<repo>)."""
import enum
import json
import sys

import attr
import pyais.messages as M
import pyais.constants as C


def conv_name(c):
    if c is None:
        return None
    if isinstance(c, type) and issubclass(c, enum.Enum):
        return c.__name__
    self_ = getattr(c, '__self__', None)
    if isinstance(self_, type) and issubclass(self_, enum.Enum):
        return f'{self_.__name__}.{c.__name__}'
    if getattr(c, '__module__', None) == 'pyais.messages':
        return c.__name__
    return repr(c)


def default(d):
    if d is None:
        return None
    if isinstance(d, enum.Enum):
        v = d.value
        return ['enum', type(d).__name__, int(v) if float(v) == int(v) else repr(v)]
    if isinstance(d, bool):
        return ['bool', d]
    if isinstance(d, int):
        return ['int', d]
    if isinstance(d, str):
        return ['str', d]
    if isinstance(d, bytes):
        return ['bytes', d.hex()]
    return ['?', repr(d)]


def main():
    fields = {}
    for name in dir(M):
        cls = getattr(M, name)
        if not (isinstance(cls, type) and issubclass(cls, M.Payload) and cls is not M.Payload):
            continue
        try:
            fs = attr.fields(cls)
        except Exception:
            continue
        if not fs:
            continue
        rows = []
        for f in fs:
            md = f.metadata
            rows.append({'name': f.name, 'width': md['width'], 'd_type': md['d_type'].__name__, 'signed': bool(md['signed']),
                         'from': conv_name(md['from_converter']), 'to': conv_name(md['to_converter']),
                         'attrs_conv': conv_name(f.converter), 'default': default(md['default']),
                         'varlen': bool(md['variable_length'])})
        fields[name] = rows
    msg_class = {str(k): v.__name__ for k, v in M.MSG_CLASS.items()}
    enums = {}
    for name in dir(C):
        e = getattr(C, name)
        if isinstance(e, type) and issubclass(e, enum.Enum) and e.__module__ == 'pyais.constants' and len(e):
            try:
                enums[name] = [[m.name, int(m.value)] for m in e if float(m.value) == int(m.value)]
            except (TypeError, ValueError):
                pass
    json.dump({'fields': fields, 'msg_class': msg_class, 'enums': enums}, sys.stdout)


main()
