#!/venv/bin/python
"""Confirm a change proposed by a sub-agent and keep it under /verif/seeded/<id>/.

usage: import_mutant.py <dir with patchK.diff demoK.py notes.md> <K> <seeded id> <property> "<what it needs to manifest>"
        [--checks C07,C18]
Confirmation happens in a scratch worktree of /repo's HEAD under /tmp (removed afterwards):
  apply patch -> full existing test-suite must pass -> demo must FAIL (exit != 0) -> revert -> demo must PASS (exit 0)."""
import json
import os
import shutil
import subprocess
import sys
import tempfile

VERIF = os.path.dirname(os.path.dirname(os.path.abspath(__file__)))
PY = '/venv/bin/python'


def sh(cmd, **kw):
    p = subprocess.run(cmd, stdout=subprocess.PIPE, stderr=subprocess.STDOUT, **kw)
    return p.returncode, p.stdout.decode('utf-8', 'replace')


def main(argv):
    src, k, sid, prop, needs = argv[:5]
    checks = None
    if '--checks' in argv:
        checks = argv[argv.index('--checks') + 1].split(',')
    patch = os.path.join(src, f'patch{k}.diff')
    demo = os.path.join(src, f'demo{k}.py')
    wt = tempfile.mkdtemp(prefix='confirm_', dir='/tmp')
    os.rmdir(wt)
    ran = []
    ok = False
    try:
        rc, out = sh(['git', '-C', '/repo', 'worktree', 'add', '-q', '--detach', wt, 'HEAD'])
        assert rc == 0, out
        env = dict(os.environ, PYTHONPATH=wt, PYTHONHASHSEED='0', PYTHONDONTWRITEBYTECODE='1')
        rc, out = sh([PY, demo], env=env, cwd='/tmp', timeout=600)
        ran.append({'cmd': 'demo on unchanged HEAD', 'rc': rc, 'tail': out[-200:]})
        pass_before = rc == 0
        rc, out = sh(['git', '-C', wt, 'apply', '--3way', patch])
        if rc != 0:
            rc, out = sh(['git', '-C', wt, 'apply', patch])
        ran.append({'cmd': 'git apply patch', 'rc': rc, 'tail': out[-200:]})
        applied = rc == 0
        rc, out = sh([PY, '-m', 'pytest', '-q', '-p', 'no:cacheprovider', '--timeout=900', '-x'], cwd=wt, env=env, timeout=1800)
        tail = out.strip().splitlines()[-1] if out.strip() else ''
        ran.append({'cmd': 'existing test-suite with the change', 'rc': rc, 'tail': tail})
        tests_pass = rc == 0
        rc, out = sh([PY, demo], env=env, cwd='/tmp', timeout=600)
        ran.append({'cmd': 'demo with the change', 'rc': rc, 'tail': out[-400:]})
        fail_after = rc != 0
        ok = pass_before and applied and tests_pass and fail_after
    finally:
        sh(['git', '-C', '/repo', 'worktree', 'remove', '--force', wt])
        shutil.rmtree(wt, ignore_errors=True)
    print(json.dumps(ran, indent=1))
    if not ok:
        print(f'NOT CONFIRMED: {sid}')
        return 1
    d = os.path.join(VERIF, 'seeded', sid)
    os.makedirs(d, exist_ok=True)
    shutil.copy(patch, os.path.join(d, 'patch.diff'))
    shutil.copy(demo, os.path.join(d, 'demo.py'))
    notes = os.path.join(src, 'notes.md')
    if os.path.exists(notes):
        shutil.copy(notes, os.path.join(d, 'agent_notes.md'))
    rc, head = sh(['git', '-C', '/repo', 'rev-parse', 'HEAD'])
    meta = {'id': sid, 'property': prop, 'needs_to_manifest': needs, 'base_commit': head.strip(),
            'origin': 'independent sub-agent given only the property text and a scratch worktree',
            'confirmed': ran}
    if checks:
        meta['checks'] = checks
    with open(os.path.join(d, 'meta.json'), 'w') as fh:
        json.dump(meta, fh, indent=1)
    print(f'CONFIRMED and kept: seeded/{sid}')
    return 0


if __name__ == '__main__':
    sys.exit(main(sys.argv[1:]))
