#!/venv/bin/python
"""Writes /verif/MANIFEST.json from the table below (one place to keep claims, levels and N/A reasons current).
usage: gen_manifest.py        (a property is claimed iff tools/props/Cxx.py and coq/Props/Cxx.v exist and it has an entry
in CLAIMS; everything else is listed under not_applicable with the reason in PENDING)"""
import json
import os

VERIF = os.path.dirname(os.path.dirname(os.path.abspath(__file__)))

TIE = ('Tie to the code: the tables/functions under coq/Gen are regenerated from /repo by tools/translate.py on every run '
       '(fail-closed, cross-checked against runtime reflection); the hand-written Gallina algorithms are tied (a) by the '
       'correspondence check, which runs the extracted model and the implementation (public API) on the same generated '
       'inputs and reports any difference, and (b) by the source tie (tools/source_tie.py, source_digests.json): the '
       'token-level text of every function of the modelled files is compared on every run with the text the model was '
       'written against, and a difference is reported like any other broken tie; the property oracle (extracted from coq/Spec or a few obviously-right lines) is '
       'evaluated on the implementation to find a concrete failing input whenever a proof or the correspondence breaks.')
BASE_NOTE = ('Trusted: Coq 8.16.1 kernel incl. vm_compute (no native_compute; coqchk -o in the thorough tier); theorems are '
             'closed under the global context (Print Assumptions is parsed on every run, any axiom fails the audit); '
             'tools/translate.py; tools/source_tie.py; extraction with ExtrOcamlBasic only + ocaml/*.ml I/O glue; the Python harness; CPython/'
             'bitarray/attrs primitives as modelled in coq/Prim. ')

CLAIMS = {
    'C20': dict(
        technique='Coq proof over the translated comm-state functions (all radio values, via N/Z bit-range lemmas) + '
                  'translator tie + differential check on decoded messages',
        text='Theorems C20_fields / C20_classification / C20_never_both / C20_raw / C20_reconstruct_* are proved in Coq for '
             'ALL radio values (unbounded Z, not only < 2^20) about the Gallina translation of get_sotdma_comm_state, '
             'get_itdma_comm_state and CommunicationStateMixin, against an independent ITU table (Spec/CommSpec.v). ' + TIE,
        note=BASE_NOTE + 'Spec/CommSpec.v is a hand transcription of ITU-R M.1371 Annex 2 3.3.7.2.2/3.3.7.3.2.',
        design='DESIGN.md section 7, C20'),
    'C06': dict(
        technique='Coq proof (splitlines as a byte automaton, induction over the recv() chunks) for all streams of '
                  'terminated lines and all segmentations + differential check against SocketStream with a scripted recv',
        text='Theorem C06 (forall ls cs, lines_ok ls -> chunking cs (concat ls) -> socket_read cs = ls) and the stronger '
             'C06_any_stream (the lines read depend on the byte stream only, for EVERY stream and segmentation) are proved in '
             'Coq about a Gallina model that follows SocketStream.read statement by statement over the literal model of '
             'bytes.splitlines(keepends=True); no bound on lines, chunks or sizes. ' + TIE +
             ' Partial with respect to real transports: kernels/sockets are represented by the sequence of recv() results; '
             'the theorem covers every segmentation they can produce, the loopback TCP/UDP run of the thorough tier is '
             'supporting evidence only.',
        note=BASE_NOTE + 'bytes.splitlines modelled by hand in Prim/Splitlines.v (validated exhaustively against CPython on '
             'all strings up to length 8 over {a, CR, LF}); preprocessors are not modelled; the line-filter literals are tied '
             'to the source by theorem C06_literals_tied over the regenerated Gen/GenConst.v.',
        design='DESIGN.md section 7, C06'),
    'C19': dict(
        technique='Coq proof of the filter-chain logic over a hand-written Gallina model of filter.py (generators as values, '
                  'distance function abstract) against an independent conjunction-filter specification + differential check on '
                  'really decoded messages + high-precision numeric test of haversine',
        text='C19_partial / C19_chain_is_filter / C19_chain_perm / C19_no_raise / C19_builtin_chain_total / C19_keep_sound / '
             'C19_geo_pass_without_position / C19_distance_strict / C19_grid_closed / C19_lazy_semantics / '
             'C19_unevaluable_attribute_not_passed / C19_none_short_circuit are proved for all message lists, all chains and every '
             'distance function (a Section variable, not an axiom): the chain yields exactly the order-preserving subsequence '
             'of messages satisfying every criterion, independent of filter order; the built-in filters never raise on any '
             'decoded message shape (coordinates None included; reading an attribute is an effect in the model: a computed '
             'attribute such as is_sotdma / is_itdma / communication_state_raw may raise TypeError or ValueError, as it does '
             'on a type 9/18/26 report cut before the radio field, and such a message is then simply not passed by a '
             'NoneFilter listing it); dist < d is strict, the grid is closed, messages without position pass. '
             'C19_none_other_exception_escapes states the limit (a getter raising anything else still escapes; no decoded '
             'message has one: hypothesis attr_reads_ok, evaluated by the harness on every decoded message); '
             'C19_unrepaired_raises / C19_nonefilter_unrepaired_raises record the behaviour before the fix: commits. PARTIAL: that haversine (libm sin/cos/asin/sqrt in binary64) is the great-circle distance and never '
             'raises is tested on every run against a 60-digit reference (1e-6 km; 1e-3 km within 1 km of the antipode or for '
             'latitudes outside [-90, 90]), not proved -- no bit-exact libm model exists here. ' + TIE,
        note=BASE_NOTE + 'is_in_grid and the filter predicates are modelled by hand (Model/Filter.v) and tied by the '
             'correspondence check at every grid edge and at distances exactly equal to the threshold; attribute names range '
             'over fields and over the computed attributes found by reflection (not methods, not underscore names); the '
             'hypotheses on a decoded message (coords_numeric, attr_reads_ok) are extracted and evaluated on every message the '
             'harness decodes; filter objects are '
             'assumed to belong to one chain (FilterChain links them by mutation); user predicates of AttributeFilter are '
             'arbitrary functions in the model.',
        design='DESIGN.md section 7, C19'),
    'C01': dict(
        technique='Coq proof: Gallina model of Payload.from_bitarray / get_int / decode_bin_as_ascii6 / converters over field '
                  'tables, dispatch trees, converters and enumerations REGENERATED from /repo, proved equal to an independent '
                  'ITU/gpsd layout for all bit strings of nominal length of all 35 variants + differential check + layout oracle',
        text='Theorem C01 (with C01_from_bitarray_char, C01_int_read_unsigned/_signed, C01_kind_sem, C01_tables_match_spec, '
             'C01_dispatch_matches_spec) is proved in full, unbounded in the payload: for every variant v and every bit string '
             'of nominal length selecting v (text padding zero) the model decodes to the class of v and every field value '
             'matches the value the hand-transcribed layout (Spec/Layout.v) assigns. Finite sub-domains (256 rate-of-turn '
             'codes, 256 codes of each enumeration, 64 six-bit characters) by vm_compute lifted with forallb_forall. The table '
             'and dispatch obligations are re-checked against the regenerated tables on every run and break by name '
             '(tables_match_spec_V<variant>, dispatch_table_V<variant>). Not covered by this theorem: the carrier (C04/C09). ' + TIE,
        note=BASE_NOTE + 'Spec/Layout.v is a hand transcription of ITU-R M.1371-5 / gpsd AIVDM (DESIGN.md Appendix A); binary64 '
             'arithmetic enters through the standard model (decoded reals are exact rationals num/den, compared with the '
             'Python float by x == num/den on Python integers).',
        design='DESIGN.md section 7, C01'),
    'C09': dict(
        technique='Coq proof over a Gallina model of encode.py (all armored payloads of 1..540 characters; all clauses but the '
                  'length limit for any length; armoring round trip for all bit strings) + differential check against '
                  'ais_to_nmea_0183 / encode_dict / encode_msg / encode_ascii_6 + extracted clause-list oracle and decoder '
                  'acceptance on the implementation output',
        text='C09 (every clause of the property for every armored payload of 1..540 characters, both talkers, both channels, '
             'fill 0..5), C09_any_length, C09_armor_roundtrip (decode_into_bit_array (encode_ascii_6 b) = b with fill = '
             '(6 - |b| mod 6) mod 6 for ALL bit strings), C09_frame_roundtrip (fragment payloads de-armor back to the bits), '
             'C09_encode_msg / C09_encode_dict and the type-key lemmas are proved in Coq, by induction along the chunk list; '
             'hex formatting over 256 cases by vm_compute. "Accepted by the decoder" is a theorem too: C09_frame_is_carrier (the '
             'encoder\'s sentences are members of the carrier family of C04) and C09_accepted_by_decoder (for every bit string '
             'of 1..1800 bits the decoder model, run on the sentences the encoder model emits, sees exactly the encoded bits: '
             'mmap snd (decode_api false ss) = decode_bits b), lifted to encode_msg / encode_dict. ' + TIE,
        note=BASE_NOTE + 'Prim/Fmt.v models str(int) / format(int, "02X"); Spec/FrameSpec.v is the hand-written clause list; '
             'ASCII-only strings; the fragment size and template literals are tied to pyais/encode.py by C09_literals_tied over '
             'the regenerated Gen/GenConst.v.',
        design='DESIGN.md section 7, C09'),
    'C11': dict(
        technique='Coq proof (characterisation of the from_bitarray loop by induction on the field list; prefix stability of the '
                  'dispatch) over the regenerated tables, for every cut position + differential check + oracle relative to '
                  'the untruncated decode',
        text='Theorem C11 is proved in full for every payload of every variant and EVERY cut position n with '
             'max(6, discriminator end) <= n <= nominal: the prefix decodes to the same class, every field lying completely '
             'within the received bits has the value of the untruncated decode, every field starting at or beyond the end is '
             'None; C11_dispatch_prefix_stable alongside. Independent of sign flags / scale constants (its cone excludes the '
             'C01 value lemmas), so a converter that is not None-safe or a changed end-of-data test breaks exactly this '
             'obligation or the correspondence. ' + TIE,
        note=BASE_NOTE + 'partially covered fields are unconstrained (as in the property); Spec/Layout.v gives offsets/widths.',
        design='DESIGN.md section 7, C11'),
    'C16': dict(
        technique='Coq proof over a Gallina model of TagBlock.create / TagBlock.init / _pre_process (create-parse round trip, '
                  'checksum iff, extras ignored, sentence unchanged) for all field combinations and values + differential '
                  'check against TagBlock / NMEASentenceFactory.produce',
        text='C16a (create then init gives back the textual form of every supported field value with a matching checksum, for '
             'any non-empty set of supported fields with separator-free values; group triples), C16a_hex (one- and two-digit '
             'hex checksums parse back), C16b (valid iff the two hex digits equal the XOR of the content), C16c (unknown or '
             'malformed fields anywhere leave every known accessor unchanged), C16d_pre_process / C16d (the sentence after a '
             'tag block is parsed exactly as without it, only tag_block differs) are proved in Coq, unbounded in the number and '
             'length of fields, for every oracle of int() on non-ASCII digit text. Out of scope as the property is read: '
             'TagBlock.create() with no field, checksum fields that are not two hex digits. ' + TIE,
        note=BASE_NOTE + 'Prim/PyText.v models str/bytes split, strip, int(str[, 16]) on ASCII by hand; int() of non-ASCII '
             'digit strings is a Section variable (every theorem holds for all such oracles); str values are their UTF-8 bytes.',
        design='DESIGN.md section 7, C16'),
    'C17': dict(
        technique='Coq proof (group independence + single-group invariant, induction over the arrival sequence) that the tag '
                  'block queue run equals an independent grouping specification for all well-formed interleavings + '
                  'differential check fed directly and through IterMessages / NMEAQueue with tbq=',
        text='C17 (forall ss, every tag block parses -> tbqs_wf ss -> tbq_run ss = tbqs_groups ss, per arrival), '
             'C17_passthrough, C17_group_independence, C17_single_group_correct, C17_unmixed, C17_complete are proved in Coq '
             'for any number of groups, any sizes and any interleaving, including group-id reuse after completion. ' + TIE,
        note=BASE_NOTE + 'queue.Queue is a FIFO list; well-formedness (duplicate-free, first sentence of a group before its '
             'others) is the proviso of the property itself.',
        design='DESIGN.md section 7, C17'),
    'C02': dict(
        technique='Coq proof of create -> to_bitarray -> from_bitarray = normalise for all in-range assignments of all 35 '
                  'layouts (per-kind round trips for every width, induction over the field list, dispatch consistency over '
                  'the regenerated tables), refutation witnesses for the open findings + differential check and oracle '
                  'through encode_dict / create+encode_msg / decode',
        text='C02_partial (forall v a, in_range v a -> c02_guard v a -> the message comes back with class of v and every '
             'supplied field equal to normalise) is proved in Coq, with building blocks int_roundtrip (every width, signed and '
             'unsigned), text/bytes/armor/fields round trips, kind_roundtrip for all 12 field kinds in exact arithmetic, '
             'create- and decode-side dispatch consistency, C02_tolerance (truncating converters: < one step; positions: '
             'half a step + half a unit of the sixth decimal), C02_position_code_nearest, C02_representable_unchanged. The FULL '
             'statement C02_statement is kept visible and REFUTED (C02_refuted with one witness theorem per finding family: '
             'inherited msg_type of types 2/3/11/13, short data of type 26, empty text, empty data, and the literal half-step '
             'tolerance C02_refuted_half_step); these are the open known findings (no small safe repair: the existing tests '
             'pin the behaviour) and are excluded from C02_partial by boolean guards. C02_end_to_end states the same through the '
             'REAL path create -> to_bitarray -> encode_ascii_6 -> ais_to_nmea_0183 -> produce -> assemble -> decode (encode_msg '
             'and encode_dict with either type key, both talkers and channels; the 1800-bit bound is proved from the tables). '
             + TIE,
        note=BASE_NOTE + 'Spec/RoundTripSpec.v (in_range, normalise, tolerance) is hand-written over Spec/Layout.v; binary64 '
             'arithmetic through the standard model (generators keep supplied reals away from quantisation ties for the '
             'model-vs-code comparison; the oracle applies the tolerance there).',
        design='DESIGN.md section 7, C02'),
    'C08': dict(
        technique='Coq proof that decode -> encode -> decode is stable and that unnormalised payloads re-encode bit for bit, '
                  'for all payloads ending on a field boundary (per-kind stability incl. vm_compute sweeps of the 256 '
                  'rate-of-turn and enumeration codes), refutation witnesses for the open findings + differential check',
        text='C08_partial (first clause under c08_guard, second clause under raw_unnormalised and no dropped padding) and '
             'C08_field_stable are proved in Coq for every variant, every payload whose own bits select the variant, every '
             'length ending on a field boundary (or a character/byte boundary inside a variable-length field) with zero text '
             'padding. C08_statement stays visible and is REFUTED (C08_refuted_empty_text: a present text decoding to the '
             'empty string re-encodes to nothing and comes back None; C08_refuted_padding: sub-character padding of text '
             'fields whose width is not a multiple of six is not re-emitted) -- open known findings pinned by existing tests. '
             + TIE,
        note=BASE_NOTE + 'same Spec as C02; enumeration fall-backs are the regenerated _missing_ functions.',
        design='DESIGN.md section 7, C08'),
    'C12': dict(
        technique='Coq refinement proof (tracker state machine vs an abstract per-MMSI map, induction over unbounded histories, '
                  'both modes, every TTL) + differential check of the extracted model against AISTracker under a controlled '
                  'clock + abstract-spec oracle',
        text='C12_refinement / C12_refinement_exact (the track table abstracts to the specification map after every history), '
             'C12_one_track_per_mmsi, C12_rejected_unchanged (an update raises iff it is older than its track or, in ordered '
             'mode, older than some track; then the whole state is unchanged and nothing is emitted), C12_spec_most_recent, '
             'C12_spec_never_reported are proved in Coq for all finite histories of update / pop_track / cleanup / clock '
             'advance / assignment of a new TTL / switch of an ordered tracker to unordered / the public insert_or_update() (ordered mode: with non-decreasing timestamps on that route, trk_run_ok) (the specification judges every '
             'update by the mode and every expiry by the TTL in force), polymorphic in the attribute value type. ' + TIE,
        note=BASE_NOTE + 'time is an explicit argument of the model (the harness patches time.time and uses dyadic '
             'timestamps); the AISTrack attribute list and the attributes each message class carries are read by reflection '
             'and passed to the model as data.',
        design='DESIGN.md section 7, C12'),
    'C13': dict(
        technique='Coq invariant proof over all histories with subscriber callbacks that may raise and with a configuration '
                  'that changes (TTL exactness after every update/cleanup that returns, cache lower bound, ordered mode '
                  'sortedness -- in every reachable state), refutation witnesses on the unrepaired bodies for the repaired '
                  'defect + differential check under a controlled clock with raising subscribers',
        text='Over the general model (callbacks return or raise; pop_track swallows KeyError after deleting the track; every '
             'other exception escapes through insert/update/cleanup as in the Python; histories may assign a new TTL to '
             'ttl_in_seconds, switch an ordered tracker to unordered and call the public insert_or_update() -- on an ordered tracker with timestamps that are not older than a track): C13_expiry_exact (after every cleanup() or update() at '
             'time now that RETURNS -- from every reachable state, for the TTL in force at that moment, both modes and every '
             'behaviour of the subscribers -- every remaining track is younger than the TTL and every track removed by expiry '
             'had reached it), C13_never_removes_fresh (every operation, also one left by an exception: only tracks that reached '
             'the TTL are removed; the invariants hold afterwards), C13_no_ttl_no_expiry, C13_invariants (in EVERY reachable '
             'state: unique keys, oldest_timestamp cache is a lower bound, ordered mode implies sorted), '
             'C13_configuration_constant / C13_configuration_operations (only the configuration operations change TTL and mode, '
             'and they change nothing else), C13_quiet_subscribers_give_trk_step, C13_oracle_is_spec are proved in Coq by '
             'induction over unbounded histories. The defect repaired by `fix: keep oldest_timestamp a lower bound of the tracks '
             'when a subscriber callback raises` is witnessed on the kept unrepaired bodies '
             '(C13_unrepaired_refuted_after_callback_exception, C13_unrepaired_refuted_after_aborted_cleanup). ' + TIE,
        note=BASE_NOTE + 'explicit clock as in C12; what the callbacks do is data of each operation (rules carried by the '
             'history); callbacks that call back into the tracker are outside the model; switching an unordered tracker to '
             'ordered is outside the model; the iteration order of the set of expired MMSIs is a parameter of the model (the '
             "theorems hold for every order, the check reads it off the implementation's DELETED deliveries).",
        design='DESIGN.md section 7, C13'),
    'C14': dict(
        technique='Coq proof over all reachable tracker states and all n (top-n predicate, newest-first order in unordered '
                  'mode, using the sortedness invariant in ordered mode) + differential check',
        text='C14_top_n (for every state reachable by any history -- whatever the subscriber callbacks did, also after '
             'operations left by their exceptions, also after an ordered tracker was switched to unordered by assigning '
             'stream_is_ordered = False -- and n >= 0 the result has min(n, |tracks|) distinct tracks of the table and nothing '
             'left out is newer; unordered mode: sorted newest first) and the oracle-equals-spec lemmas are proved in Coq. '
             'Switching an unordered tracker to ordered is outside the model (and outside C14). ' + TIE,
        note=BASE_NOTE + 'explicit clock as in C12; callbacks may raise (general model of Model/Tracker.v), callbacks that '
             'call back into the tracker are outside the model.',
        design='DESIGN.md section 7, C14'),
    'C15': dict(
        technique='Coq proof that the per-MMSI event trace of every history stays in (CREATED UPDATED* DELETED)* with alive = '
                  'tracked, for subscriber callbacks that may raise, and of who receives each event (induction over '
                  'histories) + differential check with callbacks on all three events and raising subscribers',
        text='Over the general model (callbacks return or raise): C15_lifecycle (sp_alive m (all propagate calls) = Some '
             '(tracked m) after every history, whatever the subscribers do), C15_events_of_a_step (the exact events of each '
             'step, per MMSI, in order, also for operations left by an exception), C15_rejected_emits_nothing, C15_deliveries '
             '(each propagate call goes to the subscribers of its event in registration order up to and including the first '
             'one that raises), C15_delivery_reaches / _truncated / _complete, C15_exception_origin (an operation raises the '
             'ValueError of a rejected update or what the last callback it invoked raised; a KeyError of a DELETED callback '
             'never leaves) are proved in Coq; configuration operations emit nothing. The check additionally demands that every '
             'event reaches every subscriber registered at that moment (also one registered, removed and registered again) and no '
             'removed one. ' + TIE,
        note=BASE_NOTE + 'subscriber list modelled as "always append" (attach never deduplicates, exercised in the '
             'correspondence only); the life cycle is judged on the propagate calls, i.e. on subscribers registered in front of '
             'any subscriber that raises (a subscriber behind a raising one does not receive the event -- C15_delivery_truncated; '
             'the correspondence compares every callback invocation in order).',
        design='DESIGN.md section 7, C15'),
    'C03': dict(
        technique='Coq proof (slot independence + per-slot invariant, induction over the schedule) that both reassembly loops '
                  'deliver exactly the specified assembled messages for every well-formed schedule + differential check through '
                  'six reader front-ends',
        text='C03_stream / C03_queue (forall s, WF s -> the loop consumes every line without raising and its deliveries, mapped '
             'to what the property observes, equal spec_deliveries s), C03_slot_independence_*, C03_single_slot_correct, '
             'C03_singles_immediate, C03_wf_check_sound are proved in Coq for any number of messages, any interleaving, '
             'per-message fragment permutations, slot reuse after completion, incomplete sets, any fragment count, with '
             'wrapper and skipped lines in between. The loops are modelled given the outcome of produce(line) (C05/C10 model '
             'the parser; Model/Reader.v composes them). Backpressure extension (bounded NMEAQueue(maxsize=n) whose final put '
             'may raise queue.Full; queue_step_b, per line the environment says whether the put is accepted, so the capacity '
             'and the consumer are arbitrary): C03_bounded_step, C03_bounded_all_accepted, C03_bounded_backpressure, '
             'C03_bounded_states, C03_bounded_nothing_new (for every line sequence and every pattern of accepted / refused puts '
             'the state after each line is that of the unbounded queue, the sentences put are its deliveries at the accepted '
             'lines, queue.Full is raised exactly where it delivers and the put is refused) and C03_bounded_queue (on '
             'well-formed schedules: spec_deliveries at the accepted lines, nothing mixed, nothing twice, nothing left in the '
             'slot table); C03_put_before_del_mixes_messages shows that exchanging the last two statements of put_line breaks it. '
             + TIE,
        note=BASE_NOTE + 'Prim/PyList.v models list indexing / slicing with Python semantics; dictionaries are insertion-'
             'ordered association lists; the buffer size, except tuples and line filter literals are tied to the source by '
             'C05_literals_tied over Gen/GenConst.v.',
        design='DESIGN.md section 7, C03'),
    'C04': dict(
        technique='Coq proof that every NMEA carrier of the same armored payload (text level: talker, VDM/VDO case, channel, '
                  'sequence id, cut points, permutation, checksum digits, tag block, trailing white space) decodes to the same '
                  'message, = decode_bits of the payload bits + differential check of the extracted decode_api + invariance '
                  'oracle',
        text='C04 (any two carriers of the same payload give the same decoded message or exception), C04_plain, C04_bits '
             '(= decode_bits of the de-armored bits), C04_swapped, C04_parse_carrier (the exception-precise parser model applied '
             'to the carrier TEXT yields the expected fragment record whatever the carrier details), C04_assemble_perm, '
             'C04_decider (the boolean carrier checker used by the harness is sound and complete), C04_limit_tied are proved '
             'in Coq, unbounded in payload length and content, 1..5 fragments of at most 200 characters each. ' + TIE,
        note=BASE_NOTE + 'Spec/CarrierSpec.v is the hand-written carrier family of the property text (chunk bound 200 from '
             'NMEA, tied to the regenerated MAX_PAYLOAD_LEN); str arguments are their UTF-8 bytes.',
        design='DESIGN.md section 7, C04'),
    'C05': dict(
        technique='Coq proof by exception-set composition: exception-precise Gallina models of the sentence parser, decode(), '
                  'the tag block queue and both reader loops; decode() raises only library exceptions and no line sequence '
                  'makes a reader raise, for ALL byte strings; skipped lines are no-ops; slot isolation + differential check '
                  '(field x token matrix, mutations, garbage, readers with and without tbq)',
        text='C05_decode / C05_decode_hierarchy (for every list of byte strings, lenient and strict, decode() returns or raises '
             'an AISBaseException), C05_produce, C05_produce_reader_set, C05_produce_ranges; the tag block queue part '
             '(Props/C05_tbq.v: put_sentence raises only InvalidNMEAMessageException, before touching its state); the reader '
             'level over the composed model Model/Reader.v: C05_readers_never_raise (every line sequence, both loops, with or '
             'without a tag block queue, is consumed completely and the loop ends normally), C05_skip_unparsable, '
             'C05_skip_bad_tag_block, C05_skipped_lines_are_noops, C05_slot_independence and C05_slot_isolation (what a reader '
             'delivers from a slot is exactly what it delivers when fed only that slot\'s lines), C05_literals_tied. All proved '
             'about the REPAIRED code (eight fix: commits; each defect was first reported with a concrete replay). ' + TIE,
        note=BASE_NOTE + 'Prim/PyBytes.v, Prim/PyInt.v, Prim/PyText.v model CPython bytes/str/int primitives by hand (micro-'
             'harness on every run); int() of non-ASCII digit strings in tag blocks is a Section-variable oracle (theorems hold '
             'for all oracles; such cases are skipped by the correspondence and counted); generators, queue.Queue and file '
             'iteration are modelled as lists.',
        design='DESIGN.md section 7, C05'),
    'C07': dict(
        technique='Coq proof composing parser, tag block queue, both reassembly loops, the socket splitter and decode(): the '
                  'two loops are equal on every line sequence, all six front-ends deliver identical records, and decode() of '
                  'a message\'s parts in any order agrees with the sentence the readers deliver + differential check running '
                  'every line sequence through six front-ends (socket also in small chunks) and decode()',
        text='Theorem C07 (: C07_statement) is proved in full: C07_readers_loops_equal (rd_run with queue_step = rd_run with '
             'stream_step for ALL line sequences), C07_six_frontends (IterMessages, ByteStream, BinaryIOStream, '
             'FileReaderStream, SocketStream under every segmentation, NMEAQueue return identical records, tag block groups and '
             'final states), C07_terminators and C07_raw (LF / CR LF do not change what is parsed; the raw text is the stripped '
             'line without its tag block), C07_wrappers, C07_decode_agrees and C07_decode_agrees_schedule (for a complete '
             'message whose parts parse, the reader -- whatever other lines are interleaved -- delivers exactly one sentence whose '
             'raw / payload / bits / validity / message id are those of decode_api of ANY permutation of the parts, and '
             'sentence_decode of it equals the decoded message), C07_decode_by_content; C07_partial remains as a corollary; '
             'C07_bounded_queue (a bounded NMEAQueue whose puts may raise queue.Full puts / refuses exactly the stream loop\'s '
             'deliveries, line by line, and ends in the same state, for every pattern of accepted / refused puts). '
             'Restrictions are on hypotheses only (the message\'s own slot holds exactly its parts, or the whole input is a '
             'well-formed schedule). ' + TIE,
        note=BASE_NOTE + 'preprocessors are not modelled; lines starting with white space or a non-standard delimiter are '
             'outside the property (generated for model-vs-code only); which fragment\'s header attributes (talker, checksum) '
             'the assembled record inherits is not characterised beyond equality among the readers.',
        design='DESIGN.md section 7, C07 and section 12'),
    'C10': dict(
        technique='Coq proof (XOR substitution lemma, checksum-field parsing, conjunction on assembly, strict mode) over the '
                  'exception-precise parser model for all sentences + exhaustive single-byte corruption sweeps on the '
                  'implementation',
        text='C10_xor_subst, C10_valid_iff (+ tag-block form), C10_assembled_valid, C10_decode_flag, C10_strict_iff, '
             'C10_substitution_detected, C10_substitution_rejected_strict are proved in Coq for all sentences with a two-hex-'
             'digit checksum field (other checksum forms are modelled exactly for C05 but nothing is claimed about them, as the '
             'property speaks of the two hex digits). ' + TIE,
        note=BASE_NOTE + 'same parser model as C05.',
        design='DESIGN.md section 7, C10'),
    'C18': dict(
        technique='Coq proof that the wrappers attached by both loops equal an independent pending-slot specification for all '
                  'line sequences (induction; freshness invariant of buffered fragments) + differential check through the '
                  'readers and NMEAQueue',
        text='C18_stream / C18_queue (for every input sequence the wrapper attached to each delivery is spec_wrapper: the '
             'latest wrapper since the previous delivery, taken and cleared by the next delivery, single or assembled), '
             'C18_schedules_*, C18_unwrapped_has_none, C18_at_most_one, C18_latest are proved in Coq; '
             'C18_unrepaired_queue_refuted shows the pre-fix queue loop violating the statement (the defect repaired by the '
             'fix: commit on queue.py). Backpressure extension: C18_bounded_queue / C18_bounded_schedules (bounded NMEAQueue whose '
             'put may raise queue.Full, every pattern of accepted / refused puts: a message on the queue carries the wrapper the '
             'unbounded reader attaches to it; a refused message takes its wrapper with it -- an attempted put is the delivery '
             'that consumes the pending wrapper). ' + TIE,
        note=BASE_NOTE + 'wrapper field parsing (timestamp, country, region, pss, online) is part of the parser model '
             '(Model/Nmea.v gatehouse_init) and compared by the correspondence.',
        design='DESIGN.md section 7, C18'),
}

PENDING = 'check not yet built in this snapshot (work in progress; see DESIGN.md section 12 for the status)'


def main():
    props = [json.loads(l)['id'] for l in open(os.path.join(VERIF, 'properties.jsonl')) if l.strip()]
    checks, na = [], []
    for p in props:
        have = (os.path.exists(os.path.join(VERIF, 'tools', 'props', f'{p}.py'))
                and os.path.exists(os.path.join(VERIF, 'coq', 'Props', f'{p}.v')) and p in CLAIMS)
        if not have:
            na.append({'property_id': p, 'reason': PENDING})
            continue
        c = CLAIMS[p]
        checks.append({
            'property_id': p,
            'quick_cmd': f'./check {p} --tier quick',
            'thorough_cmd': f'./check {p} --tier thorough',
            'evidence_file': f'evidence/{p}.json',
            'replay_cmd_template': f'./check {p} --replay {{path}}',
            'engine': 'coq-model',
            'level_claimed': {'category': 'proof', 'text': c['text'], 'design_ref': c['design']},
            'level_note': c['note'],
            'technique': c['technique'],
        })
    m = {
        'version': 1,
        'setup_cmd': './check setup',
        'hooks': {'guard': 'PYAIS_VERIF',
                  'enable': 'none needed: no source hooks; the tracker clock is controlled by patching time.time in the '
                            'harness process',
                  'baseline_off_cmd': 'cd /repo && /venv/bin/python -m pytest -ra -q -p no:cacheprovider --timeout=900 '
                                      '--continue-on-collection-errors',
                  'source_commits': [], 'add_only': True},
        'engines': [{'name': 'coq-model', 'path': 'coq/', 'serves_properties': [c['property_id'] for c in checks],
                     'kind_free_text': 'Coq 8.16.1 development (Prim/Gen/Spec/Model/Proofs/Props) + translator '
                                       '(tools/translate.py) + extracted OCaml model driver (ocaml/) + Python '
                                       'correspondence/oracle harnesses (tools/props)'}],
        'checks': checks,
        'not_applicable': na,
        'notes': 'One driver: ./check Cxx [--tier quick|thorough] [--replay FILE]; known findings in known_findings.json; '
                 'seeded mutants in seeded/.',
    }
    with open(os.path.join(VERIF, 'MANIFEST.json'), 'w') as fh:
        json.dump(m, fh, indent=1)
    print(f'MANIFEST.json: {len(checks)} checks, {len(na)} not_applicable')


if __name__ == '__main__':
    main()
