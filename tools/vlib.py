"""Shared machinery of the checks: paths, build, audit, model driver, evidence, findings."""
import fcntl
import glob
import hashlib
import json
import os
import random
import re
import subprocess
import sys
import time

VERIF = os.path.dirname(os.path.dirname(os.path.abspath(__file__)))
REPO = os.environ.get('VERIF_REPO', '/repo')
COQ = os.path.join(VERIF, 'coq')
OCAML = os.path.join(VERIF, 'ocaml')
STATE = os.path.join(VERIF, '.state')
PY = '/venv/bin/python'
COQ_DIRS = ['Prim', 'Gen', 'Spec', 'Model', 'Proofs', 'Props', 'Extract']
FORBIDDEN = re.compile(r'\b(Admitted|admit|Axiom|Axioms|Parameter|Parameters|Conjecture|Conjectures|Hypothesis|Hypotheses|Variable|Variables)\b'
                       r'|Unset\s+Guard|bypass_check|type-in-type|impredicative-set|Admit\s+Obligations|Unset\s+Universe\s+Checking|Unset\s+Positivity')


def sh(cmd, cwd=None, timeout=600, env=None):
    """Run a command; returns (rc, output).  rc 124 on timeout."""
    e = dict(os.environ)
    if env:
        e.update(env)
    try:
        p = subprocess.run(cmd, cwd=cwd, shell=isinstance(cmd, str), stdout=subprocess.PIPE, stderr=subprocess.STDOUT,
                           timeout=timeout, env=e)
        return p.returncode, p.stdout.decode('utf-8', 'replace')
    except subprocess.TimeoutExpired as ex:
        out = ex.stdout.decode('utf-8', 'replace') if ex.stdout else ''
        return 124, out + f'\n[timeout after {timeout}s]'


class BuildLock:
    def __enter__(self):
        os.makedirs(STATE, exist_ok=True)
        self.f = open(os.path.join(VERIF, '.build.lock'), 'w')
        fcntl.flock(self.f, fcntl.LOCK_EX)
        return self

    def __exit__(self, *a):
        fcntl.flock(self.f, fcntl.LOCK_UN)
        self.f.close()


def coq_files():
    fs = []
    for d in COQ_DIRS:
        fs.extend(sorted(glob.glob(os.path.join(COQ, d, '*.v'))))
    return [os.path.relpath(f, COQ) for f in fs]


def translate():
    """Regenerate coq/Gen from REPO.  Returns dict(changed=[..], failures=[..])."""
    rc, out = sh([PY, os.path.join(VERIF, 'tools', 'translate.py'), '--repo', REPO], timeout=120,
                 env={'PYTHONPATH': REPO, 'PYTHONHASHSEED': '0'})
    for line in out.splitlines():
        if line.startswith('TRANSLATE '):
            return json.loads(line[len('TRANSLATE '):])
    return {'changed': [], 'failures': [{'file': '*', 'error': 'translator crashed: ' + out[-2000:]}]}


def ensure_makefile():
    files = coq_files()
    stamp = os.path.join(STATE, 'files.txt')
    os.makedirs(STATE, exist_ok=True)
    cur = '\n'.join(files)
    old = open(stamp).read() if os.path.exists(stamp) else None
    if old != cur or not os.path.exists(os.path.join(COQ, 'Makefile')):
        rc, out = sh(['coq_makefile', '-f', '_CoqProject'] + files + ['-o', 'Makefile'], cwd=COQ)
        if rc != 0:
            raise RuntimeError('coq_makefile failed: ' + out)
        open(stamp, 'w').write(cur)


def make(targets, timeout=900, jobs=16):
    """make the given .vo targets (relative to coq/).  Returns (ok, log)."""
    rc, out = sh(['make', '-f', 'Makefile', f'-j{jobs}', '-k'] + list(targets), cwd=COQ, timeout=timeout)
    return rc == 0, out


def first_error(log):
    """Extract (file, message) of the first Coq error in a make log."""
    m = re.search(r'File "\./([^"]+)", line (\d+), characters [^\n]*\nError:(.*?)(?:\n\n|\nmake|\Z)', log, re.S)
    if m:
        return m.group(1), int(m.group(2)), ' '.join(m.group(3).split())[:600]
    if 'timeout' in log:
        return '?', 0, 'build timed out'
    return '?', 0, log[-600:]


def failed_targets(log):
    return sorted(set(re.findall(r"\*\*\* \[[^\]]*?: ([^\]\s]+\.vo)\] Error", log)))


def build_driver():
    """Extract (Extract/Extract.vo is built by make, writing coq/extracted.ml) and compile ocaml/driver."""
    ok, log = make(['Extract/Extract.vo'], timeout=600)
    if not ok:
        return False, log
    src = os.path.join(COQ, 'extracted.ml')
    drv = os.path.join(OCAML, 'driver')
    deps = [src, os.path.join(COQ, 'extracted.mli'), os.path.join(OCAML, 'driver.ml')]
    if os.path.exists(drv) and all(os.path.getmtime(d) <= os.path.getmtime(drv) for d in deps):
        return True, ''
    gen = os.path.join(OCAML, 'gen')
    os.makedirs(gen, exist_ok=True)
    for f in ('extracted.ml', 'extracted.mli'):
        with open(os.path.join(COQ, f), 'rb') as a, open(os.path.join(gen, f), 'wb') as b:
            b.write(a.read())
    tmp = drv + f'.tmp{os.getpid()}'
    rc, out = sh(['ocamlfind', 'ocamlopt', '-O2', '-w', '-a', '-I', 'gen', 'gen/extracted.mli', 'gen/extracted.ml',
                  'driver.ml', '-o', tmp], cwd=OCAML, timeout=600)
    if rc != 0:
        return False, out
    os.replace(tmp, drv)
    return True, out


def dep_graph():
    """file.v -> list of our .v files it depends on directly (via coqdep)."""
    args = ['coqdep', '-f', '_CoqProject'] + coq_files()
    rc, out = sh(args, cwd=COQ, timeout=120)
    deps = {}
    for line in out.splitlines():
        if ':' not in line:
            continue
        lhs, rhs = line.split(':', 1)
        tg = [t for t in lhs.split() if t.endswith('.vo')]
        if not tg:
            continue
        ds = [d[:-1] for d in rhs.split() if d.endswith('.vo') and not d.startswith('/')]
        deps[tg[0][:-1]] = [d for d in ds if d != tg[0][:-1]]
    return deps


def cone(prop_file, deps=None):
    """Transitive dependencies (our .v files) of a Props file."""
    deps = deps if deps is not None else dep_graph()
    seen, todo = [], [prop_file]
    while todo:
        f = todo.pop()
        if f in seen:
            continue
        seen.append(f)
        todo.extend(deps.get(f, []))
    return sorted(seen)


STMT = re.compile(r'^\s*(?:Local\s+|Global\s+|Time\s+)?(Theorem|Lemma|Example|Corollary|Fact|Remark|Proposition)\s+([A-Za-z0-9_\']+)', re.M)


def count_obligations(files, deps=None, failed=()):
    """-> (total statements, statements in files that compiled in this build: a file does not count if it or one
    of its dependencies failed to build)."""
    total = done = 0
    failed_v = {t[:-1] if t.endswith('.vo') else t for t in failed}
    for f in files:
        p = os.path.join(COQ, f)
        try:
            txt = open(p, encoding='utf-8').read()
        except FileNotFoundError:
            continue
        n = len(STMT.findall(txt))
        total += n
        vo = p + 'o'
        bad = bool(failed_v & set(cone(f, deps))) if (failed_v and deps is not None) else False
        if not bad and os.path.exists(vo) and os.path.getmtime(vo) >= os.path.getmtime(p):
            done += n
    return total, done


def audit_props(prop_file):
    """Compile the property file once more by itself (its dependencies are built) to capture the output of
    Print Assumptions.  Returns (ok, details)."""
    rc, out = sh(['coqc', '-Q', 'Prim', 'Prim', '-Q', 'Gen', 'Gen', '-Q', 'Spec', 'Spec', '-Q', 'Model', 'Model',
                  '-Q', 'Proofs', 'Proofs', '-Q', 'Props', 'Props', '-w', '-all', prop_file], cwd=COQ, timeout=600)
    txt = open(os.path.join(COQ, prop_file), encoding='utf-8').read()
    n_print = len(re.findall(r'^\s*Print Assumptions', txt, re.M))
    n_closed = out.count('Closed under the global context')
    axioms = re.findall(r'^Axioms:\n((?:.+\n?)+)', out, re.M)
    theorems = [m[1] for m in STMT.findall(txt) if m[0] == 'Theorem']
    ok = rc == 0 and n_print >= 1 and n_closed == n_print and not axioms and n_print >= len(theorems)
    return ok, {'rc': rc, 'print_assumptions': n_print, 'closed': n_closed, 'axioms': axioms[:3],
                'theorems': theorems, 'output_tail': out[-800:] if not ok else ''}


def audit_forbidden(files):
    bad = []
    for f in files:
        p = os.path.join(COQ, f)
        try:
            txt = open(p, encoding='utf-8').read()
        except FileNotFoundError:
            continue
        txt = re.sub(r'\(\*.*?\*\)', '', txt, flags=re.S)   # comments may mention the words
        # Section-local Variable/Hypothesis/Context are allowed; find them only outside sections
        depth = 0
        for i, line in enumerate(txt.splitlines(), 1):
            if re.match(r'\s*Section\b', line):
                depth += 1
            elif re.match(r'\s*End\b', line) and depth > 0:
                depth -= 1
            m = FORBIDDEN.search(line)
            if m:
                if depth > 0 and m.group(1) in ('Variable', 'Variables', 'Hypothesis', 'Hypotheses'):
                    continue
                bad.append(f'{f}:{i}: {m.group(0)}')
    return bad


class Model:
    """The extracted model/spec driver (ocaml/driver), spoken to over a pipe in batches."""

    def __init__(self):
        self.p = subprocess.Popen([os.path.join(OCAML, 'driver')], stdin=subprocess.PIPE, stdout=subprocess.PIPE,
                                  bufsize=0)
        self.n = 0

    def ask_many(self, lines, batch=64):
        out = []
        for i in range(0, len(lines), batch):
            chunk = lines[i:i + batch]
            data = ''.join(l + '\n' for l in chunk).encode('latin-1')
            # replies are short relative to pipe buffers; write then read line by line
            self.p.stdin.write(data)
            self.p.stdin.flush()
            for _ in chunk:
                out.append(self._readline())
        self.n += len(lines)
        return out

    def ask(self, line):
        return self.ask_many([line])[0]

    def _readline(self):
        buf = bytearray()
        while True:
            c = self.p.stdout.read(1)
            if not c:
                raise RuntimeError('model driver died')
            if c == b'\n':
                return buf.decode('latin-1')
            buf += c

    def close(self):
        try:
            self.p.stdin.close()
            self.p.wait(timeout=5)
        except Exception:
            self.p.kill()


class FastModel(Model):
    """Same, with buffered reads (default)."""

    def __init__(self):
        self.p = subprocess.Popen([os.path.join(OCAML, 'driver')], stdin=subprocess.PIPE, stdout=subprocess.PIPE)
        self.n = 0

    def _readline(self):
        line = self.p.stdout.readline()
        if not line:
            raise RuntimeError('model driver died')
        return line[:-1].decode('latin-1')


class Report:
    """Collects what a run covered and found."""

    def __init__(self, prop, tier, seed):
        self.prop, self.tier, self.seed = prop, tier, seed
        self.evaluations = 0
        self.distinct = set()
        self.dist = {}
        self.samples = []
        self.disagreements = []     # model vs implementation
        self.violations = []        # property oracle on the implementation
        self.notes = []
        self.exhaustive = []
        self.internal_errors = []

    def count(self, kind, n=1):
        self.dist[kind] = self.dist.get(kind, 0) + n

    def case(self, key, nontrivial=True, kind=None):
        self.evaluations += 1
        if nontrivial:
            self.distinct.add(hashlib.blake2b(repr(key).encode(), digest_size=8).digest())
        if kind:
            self.count(kind)

    def sample(self, x, limit=6):
        if len(self.samples) < limit:
            self.samples.append(x)

    def disagree(self, layer, case, model, impl):
        self.disagreements.append({'layer': layer, 'case': case, 'model': model, 'impl': impl})

    def violation(self, signature, what, replay):
        self.violations.append({'signature': signature, 'what': what, 'replay': replay})

    def internal(self, msg):
        self.internal_errors.append(msg)


def load_findings():
    p = os.path.join(VERIF, 'known_findings.json')
    if not os.path.exists(p):
        return []
    return json.load(open(p))


def sig_match(a, b):
    return all(a.get(k) == b.get(k) for k in set(a) | set(b))


def rng_for(seed, prop):
    return random.Random(f'{seed}/{prop}')
