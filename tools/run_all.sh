#!/bin/bash
# development helper: every registered check once on the current /repo tree (quick tier unless $1 = thorough)
cd "$(dirname "$0")/.." || exit 2
tier=${1:-quick}
rc=0
for p in C01 C02 C03 C04 C05 C06 C07 C08 C09 C10 C11 C12 C13 C14 C15 C16 C17 C18 C19 C20; do
  out=$(./check $p --tier $tier 2>&1); r=$?
  echo "$out" | grep -v "^KNOWN-FINDING" | tail -1
  n=$(echo "$out" | grep -c "^KNOWN-FINDING")
  [ "$n" -gt 0 ] && echo "   ($n KNOWN-FINDING lines)"
  [ $r -ne 0 ] && { rc=1; echo "$out" | grep "VIOLATION\|INTERNAL" | head -5; }
done
exit $rc
