#!/venv/bin/python
"""./check Cxx [--tier quick|thorough] [--replay FILE]

One run = regenerate Gen/ from /repo, rebuild the cone of Props/Cxx.vo, audit it, run the correspondence
check (extracted model vs implementation through its public API) and the property oracle on the
implementation, decide, print VIOLATION / KNOWN-FINDING lines, write evidence/Cxx.json.
Exit 0 = held on everything explored; 1 = violation; 2 = internal error of the check (no VIOLATION line).
"""
import importlib
import json
import os
import sys
import time
import traceback

sys.path.insert(0, os.path.dirname(os.path.abspath(__file__)))
import vlib  # noqa: E402

TRUSTED_BASE = [
    'Coq 8.16.1 kernel incl. vm_compute (no native_compute); coqchk -o in the thorough tier',
    'tools/translate.py (Python ast -> Gallina, fail-closed, cross-checked against runtime reflection)',
    'extraction: ExtrOcamlBasic only (bool, option, unit, list, prod, sumbool, sumor, andb, orb); Z/N/positive/nat/string stay inductive; OCaml 4.13.1; ocaml/driver.ml I/O glue',
    'correspondence check and oracle glue (tools/props/*.py, tools/vlib.py); CPython 3.12, bitarray 3.x, attrs as modelled in coq/Prim',
]


def main(argv):
    t0 = time.time()
    if not argv or argv[0].startswith('-'):
        print(__doc__)
        return 2
    if argv[0] == 'setup':
        return do_setup()
    prop = argv[0]
    tier = os.environ.get('VERIF_TIER', 'quick')
    replay = None
    i = 1
    while i < len(argv):
        if argv[i] == '--tier':
            tier = argv[i + 1]
            i += 2
        elif argv[i] == '--replay':
            replay = argv[i + 1]
            i += 2
        else:
            i += 1
    if tier not in ('quick', 'thorough'):
        tier = 'quick'
    seed = int(os.environ.get('VERIF_SEED', '0') or 0)
    sys.path.insert(0, vlib.REPO)
    mod = importlib.import_module(f'props.{prop}')

    if replay:
        return do_replay(mod, prop, replay)

    rep = vlib.Report(prop, tier, seed)
    broken = []          # obligations / ties that no longer check: dicts(kind, name, detail)

    # 1-3: regenerate, build, audit (serialised on the build directory)
    with vlib.BuildLock():
        tr = vlib.translate()
        for f in tr['failures']:
            if f['file'] == '*' or f['file'] in mod.GEN or not mod.GEN:
                broken.append({'kind': 'translator', 'name': f['file'], 'detail': f['error']})
        vlib.ensure_makefile()
        prop_file = f'Props/{prop}.v'
        deps = vlib.dep_graph()
        cone = vlib.cone(prop_file, deps)
        if tier == 'thorough':
            for f in cone:
                vo = os.path.join(vlib.COQ, f + 'o')
                if os.path.exists(vo):
                    os.remove(vo)
        ok, log = vlib.make([prop_file + 'o'])
        failed = []
        if not ok:
            ffile, line, msg = vlib.first_error(log)
            failed = vlib.failed_targets(log) or [ffile]
            for tgt in failed:
                broken.append({'kind': 'proof', 'name': tgt, 'detail': f'{ffile}:{line}: {msg}'})
        okd, dlog = vlib.build_driver()
        if not okd:
            ffile, line, msg = vlib.first_error(dlog)
            broken.append({'kind': 'extraction', 'name': 'ocaml/driver', 'detail': f'{ffile}:{line}: {msg}'[:800]})
        audit_ok, audit = (False, {'skipped': 'cone did not build'})
        if ok:
            audit_ok, audit = vlib.audit_props(prop_file)
            if not audit_ok:
                broken.append({'kind': 'audit', 'name': prop_file, 'detail': json.dumps(audit)[:800]})
        forb = vlib.audit_forbidden(cone)
        if forb:
            broken.append({'kind': 'audit', 'name': 'forbidden tokens', 'detail': '; '.join(forb[:10])})
        obligations, discharged = vlib.count_obligations(cone, deps, failed)
        coqchk = None
        if tier == 'thorough' and ok:
            rc, out = vlib.sh(['coqchk', '-silent', '-o', '-Q', 'Prim', 'Prim', '-Q', 'Gen', 'Gen', '-Q', 'Spec', 'Spec',
                               '-Q', 'Model', 'Model', '-Q', 'Proofs', 'Proofs', '-Q', 'Props', 'Props',
                               f'Props.{prop}'], cwd=vlib.COQ, timeout=1800)
            coqchk = {'rc': rc, 'tail': out[-1500:]}
            if rc != 0:
                broken.append({'kind': 'coqchk', 'name': prop_file, 'detail': out[-600:]})

    # 3b: the static half of the tie: the text of the hand-modelled source files (tools/source_tie.py)
    import source_tie
    for f, name, how in source_tie.changed(prop):
        broken.append({'kind': 'source-tie', 'name': f'{f}: {name}',
                       'detail': f'{how}: the text of {name} in {f} is not the text the model of {prop} was written and validated '
                                 f'against (source_digests.json); the property is no longer shown to hold for this code'})

    # 4: correspondence + oracle
    model = None
    try:
        if okd:
            model = vlib.FastModel()
        ctx = Ctx(prop, tier, seed, rep, model, broken)
        mod.run(ctx)
        if broken or rep.disagreements:
            # something no longer checks: look harder for a concrete failing input
            if not rep.violations and hasattr(mod, 'hunt'):
                ctx.escalated = True
                mod.hunt(ctx)
    except Exception as e:
        tb = traceback.format_exc()
        frames = traceback.extract_tb(e.__traceback__)
        repo_pkg = os.path.join(os.path.realpath(os.environ.get('VERIF_REPO', '/repo')), 'pyais') + os.sep
        if frames and os.path.realpath(frames[-1].filename).startswith(repo_pkg):
            # the implementation raised at a point where the harness only observes (an accessor, a constructor, a state
            # read-out): on the modelled code that never happens, so the tie between model and code no longer checks
            broken.append({'kind': 'correspondence', 'name': 'observation of the implementation',
                           'detail': f'{type(e).__name__} raised inside pyais while the harness was observing it: ' + tb[-700:]})
        else:
            rep.internal(tb)
    finally:
        if model:
            model.close()

    # 5-6: decision with known findings
    findings = [f for f in vlib.load_findings() if f.get('property') == prop]
    open_f = [f for f in findings if f.get('status') == 'open']
    new_viol, known_hit = [], {}
    for v in rep.violations:
        hit = None
        for f in open_f:
            if vlib.sig_match(f['signature'], v['signature']):
                hit = f
                break
        if hit is not None:
            known_hit.setdefault(json.dumps(hit['signature'], sort_keys=True), (hit, v))
        else:
            new_viol.append(v)
    # open findings are re-run from their recorded input
    for f in open_f:
        key = json.dumps(f['signature'], sort_keys=True)
        still = None
        try:
            still = mod.replay(Ctx(prop, tier, seed, vlib.Report(prop, tier, seed), None, []), f['replay'])
        except Exception:
            still = None
        if still or key in known_hit:
            print(f"KNOWN-FINDING: property={prop} {f['what']}")

    exit_code = 0
    os.makedirs(os.path.join(vlib.VERIF, 'replays'), exist_ok=True)
    n_reported = 0
    if rep.internal_errors:
        print('INTERNAL-ERROR in check machinery:\n' + rep.internal_errors[0], file=sys.stderr)
        exit_code = 2
    seen_sigs = set()
    for v in new_viol:
        key = json.dumps(v['signature'], sort_keys=True)
        if key in seen_sigs:
            continue
        seen_sigs.add(key)
        if n_reported >= 5:
            break
        path = os.path.join('replays', f'{prop}-{n_reported}.json')
        with open(os.path.join(vlib.VERIF, path), 'w') as fh:
            json.dump({'property': prop, 'signature': v['signature'], 'what': v['what'], 'replay': v['replay'],
                       'broken': broken[:5]}, fh, indent=1, default=str)
        print(f"VIOLATION property={prop} replay={path}")
        print(f"  {v['what']}")
        n_reported += 1
        exit_code = 1
    if not new_viol and (broken or rep.disagreements) and exit_code != 2:
        path = os.path.join('replays', f'{prop}-unproved.json')
        with open(os.path.join(vlib.VERIF, path), 'w') as fh:
            json.dump({'property': prop, 'no_failing_input_found': True,
                       'no_longer_checks': broken[:10],
                       'first_disagreements': rep.disagreements[:5]}, fh, indent=1, default=str)
        what = broken[0]['kind'] + ' ' + broken[0]['name'] if broken else 'correspondence ' + rep.disagreements[0]['layer']
        print(f"VIOLATION property={prop} replay={path} ({what} no longer checks) no-failing-input-found")
        exit_code = 1

    # 7: evidence
    wall = time.time() - t0
    cov = {
        'obligations': obligations, 'discharged': discharged,
        'checker_cmd': f'make -C coq Props/{prop}.vo  (coqc 8.16.1, full .vo build) + coqc Props/{prop}.v for Print Assumptions'
                       + ('; coqchk -o' if tier == 'thorough' else ''),
        'trusted_base': TRUSTED_BASE + getattr(mod, 'TRUSTED_EXTRA', []),
        'evaluations': rep.evaluations, 'distinct_nontrivial': len(rep.distinct),
        'rule': getattr(mod, 'RULE', ''), 'samples': rep.samples or [{'note': 'no case executed'}],
        'distribution': rep.dist, 'exhaustive': bool(rep.exhaustive), 'exhaustive_spaces': rep.exhaustive,
        'theorems': audit.get('theorems', []) if isinstance(audit, dict) else [],
        'print_assumptions': {k: audit.get(k) for k in ('print_assumptions', 'closed', 'axioms')} if isinstance(audit, dict) else {},
        'cone_files': cone, 'translator': tr, 'broken': broken, 'model_vs_impl_disagreements': len(rep.disagreements),
        'oracle_violations': len(rep.violations), 'known_findings_hit': len(known_hit), 'notes': rep.notes,
    }
    if coqchk:
        cov['coqchk'] = coqchk
    ev = {'property_id': prop, 'tier': tier, 'seed': seed, 'level': 'proof', 'coverage': cov,
          'assumptions': getattr(mod, 'ASSUMPTIONS', []), 'wall_s': round(wall, 2),
          'violations': len(new_viol) + (1 if (not new_viol and (broken or rep.disagreements)) else 0)}
    # VERIF_EVIDENCE_DIR: development only (tools/run_seeded.py keeps runs against seeded changes out of evidence/)
    evdir = os.environ.get('VERIF_EVIDENCE_DIR') or os.path.join(vlib.VERIF, 'evidence')
    os.makedirs(evdir, exist_ok=True)
    with open(os.path.join(evdir, f'{prop}.json'), 'w') as fh:
        json.dump(ev, fh, indent=1, default=str)
    print(f"{prop} tier={tier} seed={seed}: obligations {discharged}/{obligations}, cases {rep.evaluations} "
          f"({len(rep.distinct)} distinct), disagreements {len(rep.disagreements)}, oracle violations {len(rep.violations)} "
          f"(known {len(rep.violations) - len(new_viol)}), broken {len(broken)}, {wall:.1f}s -> exit {exit_code}")
    return exit_code


class Ctx:
    def __init__(self, prop, tier, seed, rep, model, broken):
        self.prop, self.tier, self.seed, self.rep, self.model, self.broken = prop, tier, seed, rep, model, broken
        self.rng = vlib.rng_for(seed, prop)
        self.escalated = False
        self.quick = tier == 'quick'

    def budget(self, quick, thorough):
        n = quick if self.quick else thorough
        return n * 10 if self.escalated and self.quick else n


def do_setup():
    """MANIFEST.setup_cmd: regenerate Gen/, build every .vo (full build, never -vos) and the extracted driver."""
    t0 = time.time()
    with vlib.BuildLock():
        tr = vlib.translate()
        vlib.ensure_makefile()
        ok, log = vlib.make([f + 'o' for f in vlib.coq_files()], timeout=3000)
        okd, dlog = vlib.build_driver()
    print(f'setup: translator failures {len(tr["failures"])}, coq build {"ok" if ok else "FAILED"}, '
          f'driver {"ok" if okd else "FAILED"}, {time.time() - t0:.0f}s')
    if not ok:
        print(log[-3000:])
    if not okd:
        print(dlog[-3000:])
    return 0 if (ok and okd and not tr['failures']) else 1


def do_replay(mod, prop, path):
    data = json.load(open(path if os.path.isabs(path) else os.path.join(vlib.VERIF, path)))
    ctx = Ctx(prop, 'quick', 0, vlib.Report(prop, 'quick', 0), None, [])
    if data.get('no_failing_input_found'):
        print(f'replay {path}: no failing input was recorded; no longer checking: '
              + json.dumps(data.get('no_longer_checks'))[:500])
        return 1
    r = mod.replay(ctx, data['replay'])
    if r:
        print(f"VIOLATION property={prop} replay={path}")
        print(f'  {r}')
        return 1
    print(f'replay {path}: the recorded input no longer violates {prop}')
    return 0


if __name__ == '__main__':
    sys.exit(main(sys.argv[1:]))
