#!/venv/bin/python
"""Development helper: known_findings.json := concatenation of the per-layer findings_<layer>.json files (sorted by
property).  The checks only READ known_findings.json; it is never written at run time."""
import glob
import json
import os
V = os.path.dirname(os.path.dirname(os.path.abspath(__file__)))
out = []
for f in sorted(glob.glob(os.path.join(V, 'findings_*.json'))):
    out.extend(json.load(open(f)))
out.sort(key=lambda r: (r['property'], r.get('status', ''), json.dumps(r.get('signature', {}), sort_keys=True)))
json.dump(out, open(os.path.join(V, 'known_findings.json'), 'w'), indent=1)
print(len(out), 'records:', ', '.join(f"{r['property']}:{r['status']}" for r in out))
