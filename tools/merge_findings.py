#!/venv/bin/python
"""Development helper: known_findings.json := concatenation of the per-layer findings_<layer>.json files (sorted by
property).  The checks only READ known_findings.json; it is never written at run time."""
import glob
import json
import os
V = os.path.dirname(os.path.dirname(os.path.abspath(__file__)))
out = []
for f in sorted(glob.glob(os.path.join(V, 'findings_*.json'))):
    out.extend(json.load(open(f)))
# commit ids recorded by a layer builder refer to its own branch: map them to the cherry-picked commit on /repo's main
import subprocess
def _git(*a):
    return subprocess.run(['git', '-C', '/repo'] + list(a), stdout=subprocess.PIPE, stderr=subprocess.DEVNULL).stdout.decode()
main = {}
for line in _git('log', '--format=%H %s', 'main').splitlines():
    h, subj = line.split(' ', 1)
    main.setdefault(subj, h)
for r in out:
    c = (r.get('commit') or '').split()[0] if r.get('commit') else None
    if c:
        subj = _git('log', '-1', '--format=%s', c).strip()
        if subj in main:
            r['commit'] = main[subj]
        elif c not in main.values():
            print('WARNING: commit', c, 'of', r['property'], 'is not on main:', subj)
out.sort(key=lambda r: (r['property'], r.get('status', ''), json.dumps(r.get('signature', {}), sort_keys=True)))
json.dump(out, open(os.path.join(V, 'known_findings.json'), 'w'), indent=1)
print(len(out), 'records:', ', '.join(f"{r['property']}:{r['status']}" for r in out))
