"""A deliberately small, fail-closed translator from a whitelisted subset of Python (ast) to Gallina text.

Used by translate.py for the straight-line integer functions of pyais (communication state, enum
fall-backs, small predicates).  Anything outside the whitelist raises Unsupported with file/line/node,
which the driver treats as a broken obligation (never silently skipped).

Typing discipline (all inferred structurally, no annotations needed):
  int expressions  -> Z          bool expressions -> bool
  None             -> (@None Z)  dict variables   -> dict  (Prim.Dict: insertion ordered assoc list)
Functions are emitted in the exception monad M (Prim.Exn).
"""
import ast


class Unsupported(Exception):
    def __init__(self, node, why, filename='?'):
        self.node = node
        self.why = why
        self.filename = filename
        line = getattr(node, 'lineno', '?')
        super().__init__(f"{filename}:{line}: unsupported construct ({type(node).__name__}): {why}")


def coq_string(s):
    return '"' + s.replace('"', '""') + '"%string'


def coq_z(n):
    return f"({n})" if n < 0 else f"{n}"


class ExprTr:
    """Translate expressions.  `env` maps python names to (coq_name, type) with type in {'Z','bool','dict','optZ'}.
    `consts` maps module/class constant names to (coq_name, type).  `self_attrs` maps attribute names on
    `self` to (coq_text, type)."""

    def __init__(self, filename, env=None, consts=None, self_attrs=None, enums=None):
        self.filename = filename
        self.env = dict(env or {})
        self.consts = dict(consts or {})
        self.self_attrs = dict(self_attrs or {})
        self.enums = dict(enums or {})   # enum class name -> {member name -> int}

    def fail(self, node, why):
        raise Unsupported(node, why, self.filename)

    # ---- expressions: returns (text, type)
    def expr(self, e):
        if isinstance(e, ast.Constant):
            v = e.value
            if v is True:
                return 'true', 'bool'
            if v is False:
                return 'false', 'bool'
            if v is None:
                return '(@None Z)', 'optZ'
            if isinstance(v, int):
                return coq_z(v), 'Z'
            if isinstance(v, str):
                return coq_string(v), 'string'
            self.fail(e, f'constant {v!r}')
        if isinstance(e, ast.Name):
            if e.id in self.env:
                return self.env[e.id]
            if e.id in self.consts:
                return self.consts[e.id]
            self.fail(e, f'unknown name {e.id}')
        if isinstance(e, ast.Attribute):
            if isinstance(e.value, ast.Name) and e.value.id in ('self', 'cls'):
                if e.attr in self.self_attrs:
                    return self.self_attrs[e.attr]
                if e.attr in self.consts:
                    return self.consts[e.attr]
                self.fail(e, f'unknown attribute self.{e.attr}')
            if isinstance(e.value, ast.Name) and e.value.id in self.enums:
                members = self.enums[e.value.id]
                if e.attr in members:
                    return coq_z(members[e.attr]), 'Z'
                self.fail(e, f'unknown enum member {e.value.id}.{e.attr}')
            self.fail(e, 'attribute access')
        if isinstance(e, ast.UnaryOp):
            if isinstance(e.op, ast.Not):
                t, ty = self.expr(e.operand)
                return f'(negb {self.truth(t, ty, e)})', 'bool'
            if isinstance(e.op, ast.USub):
                t, ty = self.expr(e.operand)
                if ty != 'Z':
                    self.fail(e, 'unary minus on non-int')
                return f'(Z.opp {t})', 'Z'
            self.fail(e, 'unary operator')
        if isinstance(e, ast.BinOp):
            a, ta = self.expr(e.left)
            b, tb = self.expr(e.right)
            if ta != 'Z' or tb != 'Z':
                self.fail(e, 'binary operator on non-int')
            ops = {ast.RShift: 'Z.shiftr', ast.LShift: 'Z.shiftl', ast.BitAnd: 'Z.land', ast.BitOr: 'Z.lor',
                   ast.BitXor: 'Z.lxor', ast.Add: 'Z.add', ast.Sub: 'Z.sub', ast.Mult: 'Z.mul'}
            for k, v in ops.items():
                if isinstance(e.op, k):
                    return f'({v} {a} {b})', 'Z'
            self.fail(e, f'binary operator {type(e.op).__name__}')
        if isinstance(e, ast.BoolOp):
            parts = [self.truth(*self.expr(v), v) for v in e.values]
            op = 'andb' if isinstance(e.op, ast.And) else 'orb'
            out = parts[-1]
            for p in reversed(parts[:-1]):
                out = f'({op} {p} {out})'
            return out, 'bool'
        if isinstance(e, ast.Compare):
            operands = [e.left] + list(e.comparators)
            texts = [self.expr(o) if not isinstance(o, (ast.Tuple, ast.List)) else (o, 'tuple') for o in operands]
            parts = []
            for i, op in enumerate(e.ops):
                (a, ta), (b, tb) = texts[i], texts[i + 1]
                if isinstance(op, (ast.In, ast.NotIn)):
                    if tb == 'tuple':
                        elems = []
                        for el in b.elts:
                            t, ty = self.expr(el)
                            if ty != 'Z':
                                self.fail(el, 'non-int tuple element')
                            elems.append(t)
                        lst = '[' + '; '.join(elems) + ']'
                    elif tb == 'Zlist':
                        lst = b
                    else:
                        self.fail(e, '`in` on non-tuple')
                    if ta != 'Z':
                        self.fail(e, '`in` with non-int needle')
                    t = f'(zmem {a} {lst})'
                    if isinstance(op, ast.NotIn):
                        t = f'(negb {t})'
                    parts.append(t)
                    continue
                if ta == 'tuple' or tb == 'tuple':
                    self.fail(e, 'tuple comparison')
                if ta == 'bool' and tb == 'bool' and isinstance(op, ast.Eq):
                    parts.append(f'(Bool.eqb {a} {b})')
                    continue
                if ta != 'Z' or tb != 'Z':
                    self.fail(e, f'comparison of {ta} and {tb}')
                ops = {ast.Eq: 'Z.eqb', ast.Lt: 'Z.ltb', ast.LtE: 'Z.leb', ast.Gt: 'Z.gtb', ast.GtE: 'Z.geb'}
                for k, v in ops.items():
                    if isinstance(op, k):
                        parts.append(f'({v} {a} {b})')
                        break
                else:
                    if isinstance(op, ast.NotEq):
                        parts.append(f'(negb (Z.eqb {a} {b}))')
                    else:
                        self.fail(e, f'comparison operator {type(op).__name__}')
            out = parts[-1]
            for p in reversed(parts[:-1]):
                out = f'(andb {p} {out})'
            return out, 'bool'
        if isinstance(e, ast.IfExp):
            c = self.truth(*self.expr(e.test), e.test)
            a, ta = self.expr(e.body)
            b, tb = self.expr(e.orelse)
            if ta != tb:
                self.fail(e, 'conditional branches of different type')
            return f'(if {c} then {a} else {b})', ta
        self.fail(e, 'expression')

    def truth(self, text, ty, node):
        """Python truthiness of a value of the given type."""
        if ty == 'bool':
            return text
        if ty == 'Z':
            return f'(negb (Z.eqb {text} 0))'
        if ty == 'optZ':
            return f'(match {text} with Some z_tmp => negb (Z.eqb z_tmp 0) | None => false end)'
        self.fail(node, f'truthiness of {ty}')


def strip_docstring(body):
    if body and isinstance(body[0], ast.Expr) and isinstance(body[0].value, ast.Constant) \
            and isinstance(body[0].value.value, str):
        return body[1:]
    return body
