#!/venv/bin/python
"""The static half of the tie between the hand-written models and /repo's source.

The dynamic half is the correspondence check (extracted model vs implementation on generated inputs).  It cannot see a
change whose effect no generated input reaches -- a branch on the wall clock, on a size of 65 535, on one DAC/FI pair, on a
30-bit pattern.  But the hand-written Gallina models were written against a definite source TEXT, statement by statement, so
the text itself can be checked: `source_digests.json` (committed; regenerate with `tools/source_tie.py --write` after /repo
legitimately changes, i.e. after a `fix:` commit whose repaired code the model follows) records a digest of every top-level
function, class attribute block and method of the files a property's model is written against.  On every run `changed(prop)`
recomputes them from /repo's working tree.  A difference means: the code is no longer the text that the model of this property
was validated against -- the property is no longer SHOWN to hold -- so the check treats it like a broken correspondence: it
escalates the search for a concrete failing input and, if none is found, still reports
`VIOLATION ... (source-tie <file>: <def> no longer checks) no-failing-input-found`, as the interface prescribes for a broken tie.
A harmless rewrite is reported the same way (the brief: "a harmless rewrite of the code can break them too"); the unchanged tree
never is.

Digests are taken over the token stream (comments, blank lines and pure re-indentation do not count; docstrings do)."""
import ast
import hashlib
import io
import json
import os
import sys
import tokenize

VERIF = os.path.dirname(os.path.dirname(os.path.abspath(__file__)))
REPO = os.environ.get('VERIF_REPO', '/repo')
DIGESTS = os.path.join(VERIF, 'source_digests.json')

CODEC = ['pyais/messages.py', 'pyais/util.py', 'pyais/constants.py', 'pyais/decode.py', 'pyais/exceptions.py']
READERS = ['pyais/stream.py', 'pyais/queue.py', 'pyais/messages.py', 'pyais/util.py', 'pyais/decode.py', 'pyais/exceptions.py']
# the source files each property's model (regenerated tables + hand-written algorithms) is written against
PROP_FILES = {
    'C01': CODEC, 'C11': CODEC, 'C20': CODEC,
    'C02': CODEC + ['pyais/encode.py'], 'C08': CODEC + ['pyais/encode.py'], 'C09': CODEC + ['pyais/encode.py'],
    'C03': READERS, 'C05': READERS, 'C07': READERS, 'C18': READERS,
    'C04': ['pyais/decode.py', 'pyais/messages.py', 'pyais/util.py', 'pyais/exceptions.py'],
    'C06': ['pyais/stream.py'],
    'C10': ['pyais/messages.py', 'pyais/util.py', 'pyais/decode.py', 'pyais/exceptions.py', 'pyais/stream.py', 'pyais/queue.py'],
    'C12': ['pyais/tracker.py'], 'C13': ['pyais/tracker.py'], 'C14': ['pyais/tracker.py'], 'C15': ['pyais/tracker.py'],
    'C16': ['pyais/messages.py', 'pyais/util.py', 'pyais/exceptions.py'],
    'C17': ['pyais/stream.py', 'pyais/queue.py', 'pyais/messages.py', 'pyais/util.py', 'pyais/exceptions.py'],
    'C19': ['pyais/filter.py', 'pyais/messages.py'],
}


def _digest_of_text(text):
    toks = []
    try:
        for t in tokenize.generate_tokens(io.StringIO(text).readline):
            if t.type in (tokenize.COMMENT, tokenize.NL, tokenize.NEWLINE, tokenize.INDENT, tokenize.DEDENT, tokenize.ENDMARKER):
                continue
            toks.append(t.string)
    except (tokenize.TokenError, IndentationError, SyntaxError):
        toks = text.split()
    return hashlib.sha256('\x00'.join(toks).encode('utf-8', 'surrogateescape')).hexdigest()[:20]


def digests_of_file(path):
    """-> {'<module>': digest of the whole file, 'f': ..., 'Class.method': ..., 'Class.<body>': class-level statements}"""
    text = open(path, encoding='utf-8', errors='surrogateescape').read()
    out = {'<module>': _digest_of_text(text)}
    try:
        tree = ast.parse(text)
    except SyntaxError:
        return out
    lines = text.splitlines(keepends=True)

    def seg(node):
        first = min([node.lineno] + [d.lineno for d in getattr(node, 'decorator_list', [])])
        return ''.join(lines[first - 1:node.end_lineno])
    rest = []
    for node in tree.body:
        if isinstance(node, (ast.FunctionDef, ast.AsyncFunctionDef)):
            out[node.name] = _digest_of_text(seg(node))
        elif isinstance(node, ast.ClassDef):
            body_rest = [''.join(lines[node.lineno - 1:node.body[0].lineno - 1])]
            for sub in node.body:
                if isinstance(sub, (ast.FunctionDef, ast.AsyncFunctionDef)):
                    out[f'{node.name}.{sub.name}'] = _digest_of_text(seg(sub))
                else:
                    body_rest.append(seg(sub))
            out[f'{node.name}.<body>'] = _digest_of_text(''.join(body_rest))
        else:
            rest.append(seg(node))
    out['<module-level statements>'] = _digest_of_text(''.join(rest))
    return out


def current(files):
    return {f: digests_of_file(os.path.join(REPO, f)) for f in files if os.path.exists(os.path.join(REPO, f))}


def changed(prop):
    """-> list of (file, definition, 'changed' | 'added' | 'removed') for the files behind `prop`; [] on the recorded text."""
    if not os.path.exists(DIGESTS):
        return [('source_digests.json', '-', 'missing')]
    rec = json.load(open(DIGESTS))['files']
    out = []
    for f in PROP_FILES.get(prop, []):
        want = rec.get(f)
        path = os.path.join(REPO, f)
        if want is None:
            continue
        if not os.path.exists(path):
            out.append((f, '<module>', 'removed'))
            continue
        got = digests_of_file(path)
        if got.get('<module>') == want.get('<module>'):
            continue
        names = [n for n in sorted(set(got) | set(want)) if n != '<module>' and got.get(n) != want.get(n)]
        for n in names or ['<module>']:
            out.append((f, n, 'added' if n not in want else 'removed' if n not in got else 'changed'))
    return out


def main(argv):
    files = sorted({f for fs in PROP_FILES.values() for f in fs})
    if '--write' in argv:
        import subprocess
        head = subprocess.run(['git', '-C', REPO, 'rev-parse', 'HEAD'], stdout=subprocess.PIPE).stdout.decode().strip()
        dirty = subprocess.run(['git', '-C', REPO, 'status', '--porcelain', '--untracked-files=no'],
                               stdout=subprocess.PIPE).stdout.decode().strip()
        if dirty:
            print('refusing: /repo has uncommitted changes')
            return 2
        json.dump({'repo_commit': head, 'files': current(files)}, open(DIGESTS, 'w'), indent=1, sort_keys=True)
        print(f'source_digests.json written for {len(files)} files at {head[:7]}')
        return 0
    bad = {p: changed(p) for p in sorted(PROP_FILES)}
    for p, ch in bad.items():
        print(p, 'ok' if not ch else ch[:5])
    return 1 if any(bad.values()) else 0


if __name__ == '__main__':
    sys.exit(main(sys.argv[1:]))
