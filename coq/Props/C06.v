(* C06 -- stage 1: the model of the UNCHANGED SocketStream.read violates the property. *)
From Coq Require Import List ZArith Bool.
Require Import Prim.Splitlines Model.Socket Spec.SocketSpec Proofs.SocketProofs.
Import ListNotations.
Open Scope Z_scope.

Theorem C06_refuted : ~ (forall ls cs, lines_ok ls -> chunking cs (concat ls) -> socket_read cs = ls).
Proof. exact C06_refuted_unchanged. Qed.
Print Assumptions C06_refuted.
