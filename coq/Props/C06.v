(* C06 -- socket readers yield the same lines however the transport chunks the bytes.
   Statements only; proofs live in Proofs/SocketProofs.v.  [socket_read] (Model/Socket.v) is the model of
   list(SocketStream.read()) over the sequence of recv() results, [lines_ok] / [chunking] (Spec/SocketSpec.v) say
   "stream made of LF/CRLF-terminated lines without CR or LF inside a line" and "a way of splitting the stream into
   successive non-empty receive chunks".  No bound on the number or length of lines or chunks. *)
From Coq Require Import List ZArith Bool.
Require Import Prim.Dict Prim.Splitlines Gen.GenConst Model.Socket Spec.SocketSpec Proofs.SocketProofs.
Import ListNotations.
Open Scope Z_scope.

(* The property: for every stream of terminated lines and every one of its segmentations the reader hands on exactly
   the original lines, each once, complete and in order. *)
Theorem C06 : forall ls cs, lines_ok ls -> chunking cs (concat ls) -> socket_read cs = ls.
Proof. exact socket_read_lines. Qed.
Print Assumptions C06.

(* "Consequently the delivered AIS messages are independent of packet boundaries": the lines that
   Stream._iter_messages passes on to the parser are the original lines that pass its filter ... *)
Theorem C06_lines_to_parser : forall ls cs, lines_ok ls -> chunking cs (concat ls) ->
  sock_iter_messages cs = filter sock_line_filter ls.
Proof. exact sock_iter_messages_lines. Qed.
Print Assumptions C06_lines_to_parser.

(* ... and anything computed from the lines read (parsing, multipart assembly, decoding are functions of the line
   sequence) is the same for any two segmentations, and the same as on the original lines. *)
Theorem C06_delivered_independent : forall (A : Type) (deliver : list sock_bytes -> A) ls cs1 cs2,
  lines_ok ls -> chunking cs1 (concat ls) -> chunking cs2 (concat ls) ->
  deliver (socket_read cs1) = deliver (socket_read cs2) /\ deliver (socket_read cs1) = deliver ls.
Proof. exact delivered_independent. Qed.
Print Assumptions C06_delivered_independent.

(* Stronger than the property asks: for EVERY byte stream (bare CRs, unterminated tail, any bytes) the lines read
   depend on the stream only, never on the segmentation. *)
Theorem C06_any_stream : forall cs1 cs2,
  Forall (fun c => c <> []) cs1 -> Forall (fun c => c <> []) cs2 -> concat cs1 = concat cs2 ->
  socket_read cs1 = socket_read cs2.
Proof. exact socket_read_chunking_independent. Qed.
Print Assumptions C06_any_stream.

(* A stream that ends in an unterminated line: the terminated lines are delivered, the tail never is. *)
Theorem C06_unterminated_tail : forall ls tail cs,
  lines_ok ls -> Forall spec_plain tail -> chunking cs (concat ls ++ tail) -> socket_read cs = ls.
Proof. exact socket_read_unterminated_tail. Qed.
Print Assumptions C06_unterminated_tail.

(* The deciders the harness extracts from the specification decide the specification's predicates. *)
Theorem C06_deciders : forall ls cs,
  (lines_okb ls = true <-> lines_ok ls) /\ (chunks_okb cs = true <-> Forall (fun c => c <> []) cs).
Proof. exact deciders_spec. Qed.
Print Assumptions C06_deciders.

(* non-vacuity: "ab\n" "c\r\n" received as "a", "b\nc\r", "\n" (a newline-free chunk, a split between CR and LF,
   a chunk that is one terminator byte) satisfies the hypotheses, and the model computes the two lines *)
Example C06_nonvacuous :
  let ls := [[97; 98; 10]; [99; 13; 10]] in
  let cs := [[97]; [98; 10; 99; 13]; [10]] in
  lines_ok ls /\ chunking cs (concat ls) /\ socket_read cs = ls.
Proof.
  split; [|split].
  - apply lines_okb_spec. reflexivity.
  - split; [reflexivity|]. apply chunks_okb_spec. reflexivity.
  - reflexivity.
Qed.

(* The literals of Stream._iter_messages / should_parse written by hand in Model/Socket.v are the ones the translator
   reads from pyais/stream.py on every run (Gen/GenConst.v): a changed literal in the source breaks this obligation. *)
Theorem C06_literals_tied : forall line,
  sock_line_filter line =
  negb (Z.of_nat (length line) <=? STREAM_SKIP_LEN) &&
  match line with [] => false | c :: _ => zmem c SHOULD_PARSE_FIRST end.
Proof. intros [|c r]; [reflexivity|]. unfold sock_line_filter, sock_should_parse, zmem, SHOULD_PARSE_FIRST, STREAM_SKIP_LEN.
       cbn [existsb]. rewrite Bool.orb_false_r, Bool.orb_assoc. reflexivity. Qed.
Print Assumptions C06_literals_tied.
