(* C12 -- a track holds the most recent known value of every attribute of its vessel.
   Statements only; proofs live in Proofs/TrackerProofs.v.  Model: Model/Tracker.v (pyais/tracker.py statement by
   statement, after the two `fix:` commits); specification: Spec/TrackerSpec.v (the log of accepted updates).

   Reading guide
     trk_run nattrs (trk_init ttl ordered) h   runs the history h (updates of any message, any MMSI, explicit or
                                               default timestamp; cleanup; pop_track; the clock value is an argument
                                               of every operation that reads it, so clock advances are part of h)
     abs_get st m                              the track of MMSI m as (last_updated, attribute values), None if absent
     sp_track_of nattrs m log                  the track the property demands: exists iff m was updated since its last
                                               removal; attribute i = value of the most recent accepted message in
                                               which it was present, None if never reported; last_updated = timestamp
                                               of the last accepted update
     sp_run / sp_step                          builds that log: an update is logged unless it is rejected (older than
                                               the track of its MMSI, or in ordered mode older than any track), a
                                               pop_track and every expiry are logged as removals
     V                                         the type of attribute values (the code never looks inside a value)
     A history may also assign a new TTL (`OpSetTtl`, `tracker.ttl_in_seconds = ...`) and switch an ordered tracker to
     unordered (`OpUnordered`, `tracker.stream_is_ordered = False`); the specification is told (`SpSetTtl`, `SpUnordered`)
     and judges every update by the mode, every expiry by the TTL, in force when it happens (`sp_mode`, `sp_ttl_after`).
     The model `trk_step` is the tracker with subscriber callbacks that return normally (Props/C13.v
     C13_quiet_subscribers_give_trk_step ties it to the general model in which they may raise). *)
From Coq Require Import ZArith List Bool.
Require Import Prim.Exn Prim.IntDict Model.Tracker Spec.TrackerSpec Proofs.TrackerProofs.
Import ListNotations.
Open Scope Z_scope.

(* The refinement, for all histories, both modes, every TTL.  Which MMSIs expiry removes is taken from the DELETED
   events of each step here (that they are the right ones is C13); C12_refinement_exact below closes the loop.
   `trk_run_ok`: a history may feed the table through the public `insert_or_update()` (OpInsertOrUpdate), which does not
   check the order of the timestamps; in ORDERED mode the caller must then not hand it a timestamp older than a track
   (`op_ok`) -- otherwise the unchanged code itself leaves the table unsorted and its ordered-stream check compares with the
   wrong track.  For histories without that operation `trk_run_ok` is just True (C12_ok_without_insert_or_update). *)
Theorem C12_refinement : forall (V : Type) (nattrs : nat) (ttl : option Z) (ordered : bool) (h : list (trk_op V)) (m : Z),
  trk_run_ok nattrs (trk_init ttl ordered) h ->
  let run := trk_run nattrs (trk_init ttl ordered) h in
  abs_get (fst run) m = sp_track_of nattrs m (sp_run ordered [] (spec_history h (snd run))).
Proof. exact (fun V nattrs ttl ordered h m OK => @refinement V nattrs ttl ordered h OK m). Qed.
Print Assumptions C12_refinement.

(* The same against the specification that computes expiry itself (every track whose age has reached the TTL, and
   no other, is removed by update()/cleanup()): no information flows from the implementation into the specification. *)
Theorem C12_refinement_exact : forall (V : Type) (nattrs : nat) (ttl : option Z) (ordered : bool) (h : list (trk_op V)) (m : Z),
  trk_run_ok nattrs (trk_init ttl ordered) h ->
  abs_get (fst (trk_run nattrs (trk_init ttl ordered) h)) m
  = sp_track_of nattrs m (sp_run_exact ttl ordered (map abs_op h)).
Proof. exact (fun V nattrs ttl ordered h m OK => @refinement_exact V nattrs ttl ordered h OK m). Qed.
Print Assumptions C12_refinement_exact.

Theorem C12_ok_without_insert_or_update : forall (V : Type) (nattrs : nat) (h : list (trk_op V)) (st : trk_tracker V),
  (forall now msg ts, ~ In (OpInsertOrUpdate now msg ts) h) -> trk_run_ok nattrs st h.
Proof. exact (fun V => @run_ok_without_insert V). Qed.
Print Assumptions C12_ok_without_insert_or_update.

(* Exactly one track per MMSI: the MMSIs of the tracks are pairwise different, every track is found under its own
   MMSI, and what get_track(m) returns is a track of the table with mmsi = m and the full attribute list. *)
Theorem C12_one_track_per_mmsi : forall (V : Type) (nattrs : nat) (st : trk_tracker V), reachable nattrs st ->
  NoDup (map (@tr_mmsi V) (trk_tracks st)) /\
  (forall tr, In tr (trk_tracks st) -> trk_get_track st (tr_mmsi tr) = Some tr) /\
  (forall m tr, trk_get_track st m = Some tr ->
     In tr (trk_tracks st) /\ tr_mmsi tr = m /\ length (tr_attrs tr) = nattrs).
Proof. exact (fun V => @one_track_per_mmsi V). Qed.
Print Assumptions C12_one_track_per_mmsi.

(* A rejected update leaves ALL state unchanged (order, cache, subscribers included) and emits nothing; an update
   raises exactly when it is older than the track of its MMSI or, in ordered mode, older than some track, and what it
   raises is ValueError. *)
Theorem C12_rejected_unchanged : forall (V : Type) (nattrs : nat) (st : trk_tracker V) now (msg : trk_msg V) ts,
  reachable nattrs st ->
  let res := trk_step nattrs st (OpUpdate now msg ts) in
  (r_exn res <> None <-> upd_rejected st (m_mmsi msg) (msg_ts ts now)) /\
  (r_exn res <> None -> r_state res = st /\ r_calls res = [] /\ r_exn res = Some (Py ValueError)).
Proof. exact (fun V => @rejected_unchanged V). Qed.
Print Assumptions C12_rejected_unchanged.

(* The specification means what the property says: a value it reports was carried by a message, and by the most
   recent one carrying that attribute; an attribute no message carried is None. *)
Theorem C12_spec_most_recent : forall (V : Type) i (msgs : list (list (option V) * Z)) v,
  sp_most_recent i msgs = Some v ->
  exists pre a t post, msgs = pre ++ (a, t) :: post /\ nth_error a i = Some (Some v) /\
    forall a' t', In (a', t') pre -> forall v', nth_error a' i <> Some (Some v').
Proof. exact (fun V => @most_recent_reported V). Qed.
Print Assumptions C12_spec_most_recent.

Theorem C12_spec_never_reported : forall (V : Type) i (msgs : list (list (option V) * Z)),
  (forall a t, In (a, t) msgs -> forall v, nth_error a i <> Some (Some v)) -> sp_most_recent i msgs = None.
Proof. exact (fun V => @never_reported_none V). Qed.
Print Assumptions C12_spec_never_reported.

(* non-vacuity: a concrete history with two vessels, three message shapes, a merge, a falsy-looking value (0), an
   attribute that is present but None, a rejected update and an expiry *)
Example C12_nonvacuous :
  let h := [OpUpdate 10 (mkMsg 111 [MPresent (Some 5); MAbsent; MPresent None]) None;
            OpUpdate 12 (mkMsg 222 [MAbsent; MPresent (Some 6); MPresent (Some 7)]) (Some 8);
            OpUpdate 13 (mkMsg 111 [MPresent None; MPresent (Some 0); MAbsent]) None;
            OpUpdate 12 (mkMsg 111 [MPresent (Some 1); MPresent (Some 1); MPresent (Some 1)]) None;
            OpCleanup 30] in
  let run := trk_run 3 (trk_init (Some 20) false) h in
  trk_tracks (fst run) = [mkTrack 111 [Some 5; Some 0; None] 13] /\
  map (@r_exn Z) (snd run) = [None; None; None; Some (Py ValueError); None] /\
  sp_track_of 3 111 (sp_run_exact (Some 20) false (map abs_op h)) = Some (mkSpTrack 13 [Some 5; Some 0; None]) /\
  sp_track_of 3 222 (sp_run_exact (Some 20) false (map abs_op h)) = None.
Proof. vm_compute. repeat split. Qed.

(* non-vacuity with a changing configuration: an ordered tracker rejects the older timestamp of 222, is switched to
   unordered and accepts it; the TTL is shortened from 100 to 6 and the cleanup() at the same instant removes 111 *)
Example C12_nonvacuous_reconfigured :
  let h := [OpUpdate 10 (mkMsg 111 [MPresent (Some 5)]) (Some 4);
            OpUpdate 10 (mkMsg 222 [MPresent (Some 6)]) (Some 2);
            OpUnordered;
            OpUpdate 10 (mkMsg 222 [MPresent (Some 6)]) (Some 5);
            OpCleanup 10;
            OpSetTtl (Some 6);
            OpCleanup 10] in
  let run := trk_run 1 (trk_init (Some 100) true) h in
  map (@tr_mmsi Z) (trk_tracks (fst run)) = [222] /\
  map (@r_exn Z) (snd run) = [None; Some (Py ValueError); None; None; None; None; None] /\
  sp_track_of 1 111 (sp_run_exact (Some 100) true (map abs_op h)) = None /\
  sp_track_of 1 222 (sp_run_exact (Some 100) true (map abs_op h)) = Some (mkSpTrack 5 [Some 6]).
Proof. vm_compute. repeat split. Qed.

(* non-vacuity with the public insert_or_update(): an unordered tracker fed through it (no ordering rule, no expiry: the
   stale 111 stays until the next cleanup()); the history satisfies trk_run_ok (unordered mode: nothing to respect) *)
Example C12_nonvacuous_insert_or_update :
  let h := [OpInsertOrUpdate 50 (mkMsg 111 [MPresent (Some 5)]) (Some 4);
            OpInsertOrUpdate 50 (mkMsg 222 [MPresent (Some 6)]) (Some 2);
            OpInsertOrUpdate 50 (mkMsg 111 [MPresent (Some 7)]) (Some 3);
            OpInsertOrUpdate 50 (mkMsg 111 [MPresent None]) None;
            OpCleanup 60] in
  let run := trk_run 1 (trk_init (Some 20) false) h in
  trk_run_ok 1 (trk_init (Some 20) false) h /\
  map (@r_exn Z) (snd run) = [None; None; Some (Py ValueError); None; None] /\
  trk_tracks (fst run) = [mkTrack 111 [Some 5] 50] /\
  sp_track_of 1 111 (sp_run_exact (Some 20) false (map abs_op h)) = Some (mkSpTrack 50 [Some 5]) /\
  sp_track_of 1 222 (sp_run_exact (Some 20) false (map abs_op h)) = None.
Proof.
  split; [|vm_compute; repeat split].
  simpl. repeat split; intros [X _]; discriminate.
Qed.
