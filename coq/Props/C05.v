(* C05 (decode()/produce half) -- STAGE 1: the model of the UNCHANGED code.  The statement is false of it; the witnesses
   below are the defects the check reports against the implementation.  Replaced by the proved theorem once the
   fix: commits are in. *)
From Coq Require Import ZArith List Bool.
Require Import Prim.Exn Model.Sentence Model.Nmea Model.DecodeApi.
Import ListNotations.
Open Scope Z_scope.

Definition C05_produce_statement : Prop := forall raw, no_escape (produce raw).

(* b" " : IndexError from raw[0] in _pre_process *)
Theorem C05_refuted : ~ C05_produce_statement.
Proof. intro H. specialize (H [32]). vm_compute in H. exact H. Qed.
Print Assumptions C05_refuted.
