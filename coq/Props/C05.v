(* C05 -- malformed input never escapes the documented error contract: the decode() / produce half.
   Statements only; proofs live in Proofs/NmeaProofs.v (parser, API) and Proofs/CodecNoEscape.v (payload decoder).
   The model is Model/Nmea.v + Model/DecodeApi.v of the REPAIRED code (fix: commits for the whitespace-only line, the
   fill-bit range, fragment numbers below 1, a non-ASCII talker id, '*' directly after the start delimiter and the text
   of two exception messages).
   The reader-loop half of the property (C05b: no exception escapes IterMessages / ByteStream / NMEAQueue.put_line,
   with and without a tag block queue; C05c: skipped lines are no-ops; C05d: slot non-interference) is added to this
   file by the composition layer, on top of C05_produce_reader_set and C05_produce_ranges below. *)
From Coq Require Import ZArith List Bool.
Require Import Prim.Exn Gen.GenConst Model.Sentence Model.Nmea Model.DecodeApi Proofs.ExnLemmas Proofs.NmeaProofs.
Require Import Model.Tbq Model.Assemble Model.Reader Spec.AssembleSpec Proofs.AssembleProofs Proofs.ReaderProofs Proofs.ReaderIsolation.
Import ListNotations.
Open Scope Z_scope.

(* C05a: for EVERY list of byte strings, in lenient and in strict mode, decode() returns a message or raises a library
   exception -- never ValueError, IndexError, TypeError, UnicodeDecodeError, OverflowError, KeyError ... *)
Theorem C05_decode : forall strict parts, no_escape (decode_api strict parts).
Proof. exact decode_api_no_escape. Qed.
Print Assumptions C05_decode.

(* ... and the library exception is one of the documented hierarchy (a subclass of AISBaseException) *)
Theorem C05_decode_hierarchy : forall strict parts e, decode_api strict parts = Raise e -> is_ais_base e = true.
Proof. exact decode_api_ais_base. Qed.
Print Assumptions C05_decode_hierarchy.

(* the parser alone (decode_nmea_line, and the first statement of both reader loops) *)
Theorem C05_produce : forall raw, no_escape (produce raw).
Proof. exact produce_no_escape. Qed.
Print Assumptions C05_produce.

(* stronger: produce raises only the three classes that both reader loops catch *)
Theorem C05_produce_reader_set : forall raw e, produce raw = Raise e ->
  e = Lib InvalidNMEAMessageException \/ e = Lib NonPrintableCharacterException \/ e = Lib UnknownMessageException.
Proof. exact produce_raises_only_reader_set. Qed.
Print Assumptions C05_produce_reader_set.

(* and a parsed AIS sentence carries fragment numbers the reassembly buffers can index *)
Theorem C05_produce_ranges : forall raw a, produce raw = Ok (SAis a) ->
  1 <= a_frag_cnt a <= MAX_FRAG_CNT /\ 1 <= a_frag_num a <= MAX_FRAG_CNT.
Proof. exact produce_ais_ranges. Qed.
Print Assumptions C05_produce_ranges.

(* non-vacuity: the model really parses, really rejects, and the former escapes are library exceptions now *)
Example C05_nonvacuous :
  is_ok (decode_api true [[33; 65; 73; 86; 68; 77; 44; 49; 44; 49; 44; 44; 66; 44; 49; 53; 77; 54; 55; 70; 67; 48; 48; 48; 71; 63; 117; 102; 98; 69; 96; 70; 101; 112; 84; 64; 51; 110; 48; 48; 83; 97; 44; 48; 42; 53; 67]]) = true /\
  produce [32] = Raise (Lib InvalidNMEAMessageException) /\
  produce [33; 65; 255; 86; 68; 77; 44; 49; 44; 49; 44; 44; 65; 44; 49; 53; 77; 44; 48; 42; 48; 48] = Raise (Lib InvalidNMEAMessageException) /\
  produce [33; 65; 73; 86; 68; 77; 44; 49; 44; 49; 44; 44; 65; 44; 49; 53; 77; 44; 45; 49; 42; 48; 48] = Raise (Lib InvalidNMEAMessageException) /\
  produce [33; 65; 73; 86; 68; 77; 44; 48; 44; 49; 44; 44; 65; 44; 49; 53; 77; 44; 48; 42; 48; 48] = Raise (Lib InvalidNMEAMessageException) /\
  is_ok (produce [33; 42; 120; 86; 68; 77; 44; 49; 44; 49; 44; 44; 65; 44; 49; 53; 77; 44; 48; 42; 53; 66]) = true /\
  decode_api false [[33; 65; 73; 86; 68; 77; 44; 49; 44; 49; 44; 44; 65; 44; 44; 48; 42; 48; 48]] = Raise (Lib MissingPayloadException).
Proof. vm_compute. repeat split; reflexivity. Qed.

(* ================================================================================================================
   The reader-loop half (composition of the parser, the tag block queue and the two reassembly loops: Model/Reader.v).
   [uni] is the oracle for int() of non-ASCII digit text of the tag block model: every statement holds for all oracles.
   [step] ranges over the two loops: stream_step (iterating IterMessages / ByteStream / BinaryIOStream / FileReaderStream /
   SocketStream) and queue_step (NMEAQueue.put_line). *)

Theorem C05_stream_is_reader_loop : is_reader_loop stream_step.
Proof. exact stream_is_reader_loop. Qed.
Print Assumptions C05_stream_is_reader_loop.

Theorem C05_queue_is_reader_loop : is_reader_loop queue_step.
Proof. exact queue_is_reader_loop. Qed.
Print Assumptions C05_queue_is_reader_loop.

(* C05b: for EVERY sequence of lines (arbitrary byte strings), with or without a tag block queue, the reader consumes every
   line and ends normally -- no exception of any kind leaves the loop. *)
Theorem C05_readers_never_raise : forall uni step use_tbq lines, is_reader_loop step ->
  exists outs st', rd_run uni step use_tbq rd_init lines = (outs, Ok st') /\ length outs = length lines.
Proof.
  intros uni step use_tbq lines H.
  destruct (rd_run_total uni step use_tbq lines rd_init H (rd_inv_init)) as [outs [st' [E [L _]]]].
  exists outs, st'. split; assumption.
Qed.
Print Assumptions C05_readers_never_raise.

(* C05c: a line that does not parse, and a sentence whose tag block the queue rejects, change nothing and deliver
   nothing; any block of unparsable lines can be deleted from the input without changing what the other lines yield. *)
Theorem C05_skip_unparsable : forall uni step use_tbq st line e, is_reader_loop step ->
  produce line = Raise e -> rd_step uni step use_tbq st line = Ok (st, [], []).
Proof. exact rd_skip_unparsable. Qed.
Print Assumptions C05_skip_unparsable.

Theorem C05_skip_bad_tag_block : forall uni step st line s e, is_reader_loop step ->
  produce line = Ok s -> tbq_put uni (snd st) s = Raise e -> rd_step uni step true st line = Ok (st, [], []).
Proof. exact rd_skip_bad_tag_block. Qed.
Print Assumptions C05_skip_bad_tag_block.

Theorem C05_skipped_lines_are_noops : forall uni step use_tbq l1 bad l2 st, is_reader_loop step ->
  Forall (fun l => exists e, produce l = Raise e) bad ->
  rd_run uni step use_tbq st (l1 ++ bad ++ l2) =
  match rd_run uni step use_tbq st l1 with
  | (o1, Ok st1) => let '(o2, fin) := rd_run uni step use_tbq st1 l2 in
                    (o1 ++ map (fun _ => ([], [])) bad ++ o2, fin)
  | (o1, Raise e) => (o1, Raise e)
  end.
Proof. exact rd_skipped_lines_are_noops. Qed.
Print Assumptions C05_skipped_lines_are_noops.

(* C05d: a line only touches the reassembly slot of the sentence it parses to (state level) ... *)
Theorem C05_slot_independence : forall uni step use_tbq b w tq line b' w' tq' outs touts s, is_reader_loop step ->
  rd_step uni step use_tbq ((b, w), tq) line = Ok (((b', w'), tq'), outs, touts) ->
  (forall a, produce line = Ok (SAis a) -> s <> slot_of a) ->
  buf_get b' s = buf_get b s.
Proof. exact rd_slot_independence. Qed.
Print Assumptions C05_slot_independence.

(* ... and (trace level) what a reader delivers from slot s -- raw text, payload, bits, validity, sequence id, channel of
   every message, in order -- is exactly what the same loop delivers when it is fed ONLY the lines that store a fragment
   into s: no other line, malformed or not, can change, delay, duplicate or suppress a message of s. *)
Theorem C05_slot_isolation : forall uni hs step use_tbq lines s, catches_reader_set hs ->
  (forall st p t, step st p t = generic_step hs st p t) ->
  let ins := rd_inputs uni use_tbq [] lines in
  slot_outs s ins (map fst (fst (rd_run uni step use_tbq rd_init lines))) =
  slot_outs s (filter (touches s) ins) (fst (asm_run step asm_init (filter (touches s) ins))).
Proof. exact rd_slot_isolation. Qed.
Print Assumptions C05_slot_isolation.

(* non-vacuity of the reader level: a two-fragment message with a whitespace-only line, a sentence with a fragment count
   of 0 and a sentence with a non-ASCII talker in between is delivered, by both loops, with a tag block queue attached *)
Example C05_readers_nonvacuous :
  let f1 := [33; 65; 73; 86; 68; 77; 44; 50; 44; 49; 44; 51; 44; 65; 44; 49; 53; 77; 44; 48; 42; 48; 48] in
  let f2 := [33; 65; 73; 86; 68; 77; 44; 50; 44; 50; 44; 51; 44; 65; 44; 54; 55; 70; 44; 48; 42; 48; 48] in
  let bad1 := [32; 32] in
  let bad2 := [33; 65; 73; 86; 68; 77; 44; 48; 44; 49; 44; 51; 44; 65; 44; 49; 53; 77; 44; 48; 42; 48; 48] in
  let bad3 := [33; 65; 255; 86; 68; 77; 44; 50; 44; 49; 44; 51; 44; 65; 44; 49; 53; 77; 44; 48; 42; 48; 48] in
  let uni := fun (_ : Z) (_ : list Z) => @None Z in
  map (fun o => length (fst o)) (fst (rd_run uni stream_step true rd_init [f1; bad1; bad2; bad3; f2])) = [0; 0; 0; 0; 1]%nat /\
  map (fun o => length (fst o)) (fst (rd_run uni queue_step true rd_init [f1; bad1; bad2; bad3; f2])) = [0; 0; 0; 0; 1]%nat.
Proof. vm_compute. split; reflexivity. Qed.

(* The except tuples, the minimum buffer size and the line filter written by hand in Model/Assemble.v are the ones the
   translator reads from pyais/stream.py and pyais/queue.py on every run (Gen/GenConst.v): a changed literal or a changed
   exception tuple in the source breaks this obligation by name. *)
Theorem C05_literals_tied :
  stream_except = STREAM_EXCEPT /\ queue_except = QUEUE_EXCEPT /\
  STREAM_MIN_SLOTS = 255 /\ QUEUE_MIN_SLOTS = 255 /\ MAX_FRAG_CNT <= STREAM_MIN_SLOTS /\
  (forall l, should_parse l = match l with [] => false | c :: _ => existsb (Z.eqb c) SHOULD_PARSE_FIRST end) /\
  STREAM_SKIP_LEN = 10.
Proof.
  repeat split; try reflexivity.
  - unfold MAX_FRAG_CNT, STREAM_MIN_SLOTS. intro H; discriminate H.
  - intros [|c r]; [reflexivity|]. unfold should_parse, SHOULD_PARSE_FIRST. cbn [existsb].
    rewrite Bool.orb_false_r, Bool.orb_assoc. reflexivity.
Qed.
Print Assumptions C05_literals_tied.
