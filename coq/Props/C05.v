(* C05 -- malformed input never escapes the documented error contract: the decode() / produce half.
   Statements only; proofs live in Proofs/NmeaProofs.v (parser, API) and Proofs/CodecNoEscape.v (payload decoder).
   The model is Model/Nmea.v + Model/DecodeApi.v of the REPAIRED code (fix: commits for the whitespace-only line, the
   fill-bit range, fragment numbers below 1, a non-ASCII talker id, '*' directly after the start delimiter and the text
   of two exception messages).
   The reader-loop half of the property (C05b: no exception escapes IterMessages / ByteStream / NMEAQueue.put_line,
   with and without a tag block queue; C05c: skipped lines are no-ops; C05d: slot non-interference) is added to this
   file by the composition layer, on top of C05_produce_reader_set and C05_produce_ranges below. *)
From Coq Require Import ZArith List Bool.
Require Import Prim.Exn Gen.GenConst Model.Sentence Model.Nmea Model.DecodeApi Proofs.ExnLemmas Proofs.NmeaProofs.
Import ListNotations.
Open Scope Z_scope.

(* C05a: for EVERY list of byte strings, in lenient and in strict mode, decode() returns a message or raises a library
   exception -- never ValueError, IndexError, TypeError, UnicodeDecodeError, OverflowError, KeyError ... *)
Theorem C05_decode : forall strict parts, no_escape (decode_api strict parts).
Proof. exact decode_api_no_escape. Qed.
Print Assumptions C05_decode.

(* ... and the library exception is one of the documented hierarchy (a subclass of AISBaseException) *)
Theorem C05_decode_hierarchy : forall strict parts e, decode_api strict parts = Raise e -> is_ais_base e = true.
Proof. exact decode_api_ais_base. Qed.
Print Assumptions C05_decode_hierarchy.

(* the parser alone (decode_nmea_line, and the first statement of both reader loops) *)
Theorem C05_produce : forall raw, no_escape (produce raw).
Proof. exact produce_no_escape. Qed.
Print Assumptions C05_produce.

(* stronger: produce raises only the three classes that both reader loops catch *)
Theorem C05_produce_reader_set : forall raw e, produce raw = Raise e ->
  e = Lib InvalidNMEAMessageException \/ e = Lib NonPrintableCharacterException \/ e = Lib UnknownMessageException.
Proof. exact produce_raises_only_reader_set. Qed.
Print Assumptions C05_produce_reader_set.

(* and a parsed AIS sentence carries fragment numbers the reassembly buffers can index *)
Theorem C05_produce_ranges : forall raw a, produce raw = Ok (SAis a) ->
  1 <= a_frag_cnt a <= MAX_FRAG_CNT /\ 1 <= a_frag_num a <= MAX_FRAG_CNT.
Proof. exact produce_ais_ranges. Qed.
Print Assumptions C05_produce_ranges.

(* non-vacuity: the model really parses, really rejects, and the former escapes are library exceptions now *)
Example C05_nonvacuous :
  is_ok (decode_api true [[33; 65; 73; 86; 68; 77; 44; 49; 44; 49; 44; 44; 66; 44; 49; 53; 77; 54; 55; 70; 67; 48; 48; 48; 71; 63; 117; 102; 98; 69; 96; 70; 101; 112; 84; 64; 51; 110; 48; 48; 83; 97; 44; 48; 42; 53; 67]]) = true /\
  produce [32] = Raise (Lib InvalidNMEAMessageException) /\
  produce [33; 65; 255; 86; 68; 77; 44; 49; 44; 49; 44; 44; 65; 44; 49; 53; 77; 44; 48; 42; 48; 48] = Raise (Lib InvalidNMEAMessageException) /\
  produce [33; 65; 73; 86; 68; 77; 44; 49; 44; 49; 44; 44; 65; 44; 49; 53; 77; 44; 45; 49; 42; 48; 48] = Raise (Lib InvalidNMEAMessageException) /\
  produce [33; 65; 73; 86; 68; 77; 44; 48; 44; 49; 44; 44; 65; 44; 49; 53; 77; 44; 48; 42; 48; 48] = Raise (Lib InvalidNMEAMessageException) /\
  is_ok (produce [33; 42; 120; 86; 68; 77; 44; 49; 44; 49; 44; 44; 65; 44; 49; 53; 77; 44; 48; 42; 53; 66]) = true /\
  decode_api false [[33; 65; 73; 86; 68; 77; 44; 49; 44; 49; 44; 44; 65; 44; 44; 48; 42; 48; 48]] = Raise (Lib MissingPayloadException).
Proof. vm_compute. repeat split; reflexivity. Qed.
