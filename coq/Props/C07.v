(* C07 -- every ingestion path delivers the same messages for the same lines.
   Statements only; proofs in Proofs/AssembleProofs.v.

   Proved here (C07_partial = their conjunction):
     - the two copies of the reassembly loop compute the same thing (C07_queue_step_eq and its run forms);
     - IterMessages, ByteStream, BinaryIOStream / FileReaderStream hand the same line list to that loop
       (C07_frontends_agree);
     - assemble_from_iterable, which decode() shares with the readers, yields the same raw/payload/bits/validity/message id
       for every arrival order of the parts (C07_assemble_perm).
   Composed elsewhere, not in this file:
     - "decode() of a message's parts agrees with decoding the sentence the readers deliver" needs Model/DecodeApi.v
       (decode.py _assemble_messages + AISSentence.decode); with it the clause follows from C03 + C07_assemble_perm.
       Until then this clause is checked on the implementation by the harness oracle (tools/props/stream_common.py
       oracle_decode) on every run.
     - SocketStream feeds the same lines by C06 (Model/Socket.v); NMEASentenceFactory.produce strips the line terminator
       (Model/Nmea.v), which makes `l` and `terminated l` parse alike. *)
From Coq Require Import ZArith List Bool Permutation.
Require Import Prim.Exn Prim.Bits Prim.PyList Model.Sentence Model.AssembleIter Model.Assemble Spec.AssembleSpec
               Proofs.AssembleProofs.
Import ListNotations.
Open Scope Z_scope.

(* NMEAQueue.put_line = one iteration of the stream loop on every state and every input, except that an IndexError raised
   inside the try block (by produce or by the tag block queue) is swallowed by the queue (its except tuple names
   IndexError) and leaves the stream loop *)
Theorem C07_queue_step_eq : forall st p t,
  queue_step st p t = if try_index_error p t then Ok (st, []) else stream_step st p t.
Proof. exact queue_step_eq. Qed.
Print Assumptions C07_queue_step_eq.

(* whenever the stream loop gets through a sequence of lines, the queue delivers the same messages at the same lines and
   ends in the same state (buffer and pending wrapper) *)
Theorem C07_runs_agree : forall ins st outs fin,
  asm_run stream_step st ins = (outs, Ok fin) -> asm_run queue_step st ins = (outs, Ok fin).
Proof. exact runs_agree. Qed.
Print Assumptions C07_runs_agree.

Theorem C07_runs_equal : forall ins st,
  Forall (fun l => try_index_error (fst l) (snd l) = false) ins ->
  asm_run queue_step st ins = asm_run stream_step st ins.
Proof. exact runs_equal_without_index_error. Qed.
Print Assumptions C07_runs_equal.

(* lines longer than 10 bytes that start with '!', '$' or backslash and contain no LF reach the loop unchanged and in order
   from every front-end, with or without their terminator *)
Theorem C07_frontends_agree : forall ls, Forall passes_filter ls -> Forall (fun l => ~ In 10 l) ls ->
  let lines := map terminated ls in
  iter_source lines = lines /\ bytestream_source lines = lines /\ binaryio_source (concat lines) = lines /\
  iter_source ls = ls /\ bytestream_source ls = ls.
Proof. exact frontends_agree. Qed.
Print Assumptions C07_frontends_agree.

Theorem C07_assemble_perm : forall l l', Permutation l l' -> NoDup (map a_frag_num l) ->
  assembled_view (assemble_from_iterable l) = assembled_view (assemble_from_iterable l').
Proof. exact assemble_perm. Qed.
Print Assumptions C07_assemble_perm.

Theorem C07_partial :
  (forall st p t, queue_step st p t = if try_index_error p t then Ok (st, []) else stream_step st p t) /\
  (forall ins st outs fin, asm_run stream_step st ins = (outs, Ok fin) -> asm_run queue_step st ins = (outs, Ok fin)) /\
  (forall ls, Forall passes_filter ls -> Forall (fun l => ~ In 10 l) ls ->
     let lines := map terminated ls in
     iter_source lines = lines /\ bytestream_source lines = lines /\ binaryio_source (concat lines) = lines /\
     iter_source ls = ls /\ bytestream_source ls = ls) /\
  (forall l l', Permutation l l' -> NoDup (map a_frag_num l) ->
     assembled_view (assemble_from_iterable l) = assembled_view (assemble_from_iterable l')).
Proof. exact (conj queue_step_eq (conj runs_agree (conj frontends_agree assemble_perm))). Qed.
Print Assumptions C07_partial.

(* ---------------------------------------------------------------- non-vacuity *)

Definition ex_line : byte_line := [33; 65; 73; 86; 68; 77; 44; 49; 44; 49; 44; 44; 65; 44; 49; 53; 44; 48; 42; 48; 48].   (* !AIVDM,1,1,,A,15,0*00 *)
Definition ex_line2 : byte_line := [36; 80; 71; 72; 80; 44; 49; 44; 50; 48; 50; 48; 44; 49; 13].                      (* $PGHP,1,2020,1\r *)

Definition ex_common (raw : Z) (valid : bool) : nmea_common := mkCommon [raw] [33] [65; 73] [86; 68; 77] 0 0 valid [] None.
Definition ex_ais (cnt num : Z) (raw : Z) (valid : bool) : ais_sentence :=
  mkAis (ex_common raw valid) cnt num (Some 3) [65] [raw] [true; false; false; false; false; true] 1 None.

Example C07_nonvacuous :
  Forall passes_filter [ex_line; ex_line2] /\ Forall (fun l => ~ In 10 l) [ex_line; ex_line2] /\
  binaryio_source (concat (map terminated [ex_line; ex_line2])) = [ex_line ++ [10]; ex_line2 ++ [10]] /\
  (* the queue swallows an IndexError of the parser, the stream loop does not *)
  queue_step asm_init (Raise (Py IndexError)) None = Ok (asm_init, []) /\
  stream_step asm_init (Raise (Py IndexError)) None = Raise (Py IndexError) /\
  (* three parts in two different orders *)
  assembled_view (assemble_from_iterable [ex_ais 3 3 103 true; ex_ais 3 1 101 false; ex_ais 3 2 102 true]) =
    Some ([101; 10; 102; 10; 103], [101; 102; 103],
          [true; false; false; false; false; true; true; false; false; false; false; true; true; false; false; false; false; true],
          false, 33) /\
  assembled_view (assemble_from_iterable [ex_ais 3 2 102 true; ex_ais 3 3 103 true; ex_ais 3 1 101 false]) =
  assembled_view (assemble_from_iterable [ex_ais 3 3 103 true; ex_ais 3 1 101 false; ex_ais 3 2 102 true]).
Proof.
  split; [repeat constructor; vm_compute; reflexivity|].
  split; [repeat constructor; vm_compute; intuition discriminate|].
  repeat split; vm_compute; reflexivity.
Qed.
