(* C07 -- every ingestion path delivers the same messages for the same lines.
   Statements only; proofs in Proofs/AssembleProofs.v (the loops, the line sources), Proofs/IngestSocket.v (the socket
   front-end, line terminators, the two loops and the wrappers at reader level) and Proofs/IngestProofs.v (decode() against
   the readers).

   Part 1 (loop level, C07_partial = their conjunction; kept as a corollary of C07):
     - the two copies of the reassembly loop compute the same thing (C07_queue_step_eq and its run forms);
     - IterMessages, ByteStream, BinaryIOStream / FileReaderStream hand the same line list to that loop
       (C07_frontends_agree);
     - assemble_from_iterable, which decode() shares with the readers, yields the same raw/payload/bits/validity/message id
       for every arrival order of the parts (C07_assemble_perm).
   Part 2 (the composition over LINES: Model/Nmea.v produce -> Model/Tbq.v -> Model/Assemble.v, as composed in
   Model/Reader.v; Model/Socket.v; Model/DecodeApi.v):
     - C07_readers_loops_equal: NMEAQueue.put_line = the generator of AssembleMessages on EVERY line sequence;
     - C07_socket_filter / C07_socket_lines / C07_socket: SocketStream feeds and delivers the same as the byte stream and file
       readers for every segmentation of a stream of terminated lines;
     - C07_terminators / C07_raw: line terminators change nothing, raw text included; which raw text is delivered;
     - C07_six_frontends / C07_six_frontends_bare: all six front-ends deliver the same sentence records at the same lines;
     - C07_wrappers: the wrapper every delivered sentence carries (C18 at reader level), both loops;
     - C07_decode_agrees: decode( *parts ) in any order agrees with .decode() of the one sentence either reader delivers
       for the message, wherever its lines arrive between other lines (arbitrary lines outside the message's slot);
     - C07_decode_agrees_schedule: the same for every complete message of every line sequence that parses to a C03
       well-formed schedule (slots reused: other messages of the same slot before and after);
     - C07_decode_by_content: every delivery of every line sequence decodes by its own payload and bits.
   C07 = the conjunction (C07_statement); C07_partial = its first four clauses (C07_implies_partial). *)
From Coq Require Import ZArith List Bool Permutation.
Require Import Prim.Exn Prim.Bits Prim.PyList Model.Sentence Model.AssembleIter Model.Assemble Spec.AssembleSpec
               Proofs.AssembleProofs Proofs.AssembleBounded.
Require Import Model.Nmea Model.Tbq Model.Reader Model.Socket Model.DecodeApi Spec.SocketSpec Proofs.ReaderIsolation
               Proofs.IngestSocket Proofs.IngestProofs.
Import ListNotations.
Open Scope Z_scope.

(* NMEAQueue.put_line = one iteration of the stream loop on every state and every input, except that an IndexError raised
   inside the try block (by produce or by the tag block queue) is swallowed by the queue (its except tuple names
   IndexError) and leaves the stream loop *)
Theorem C07_queue_step_eq : forall st p t,
  queue_step st p t = if try_index_error p t then Ok (st, []) else stream_step st p t.
Proof. exact queue_step_eq. Qed.
Print Assumptions C07_queue_step_eq.

(* whenever the stream loop gets through a sequence of lines, the queue delivers the same messages at the same lines and
   ends in the same state (buffer and pending wrapper) *)
Theorem C07_runs_agree : forall ins st outs fin,
  asm_run stream_step st ins = (outs, Ok fin) -> asm_run queue_step st ins = (outs, Ok fin).
Proof. exact runs_agree. Qed.
Print Assumptions C07_runs_agree.

Theorem C07_runs_equal : forall ins st,
  Forall (fun l => try_index_error (fst l) (snd l) = false) ins ->
  asm_run queue_step st ins = asm_run stream_step st ins.
Proof. exact runs_equal_without_index_error. Qed.
Print Assumptions C07_runs_equal.

(* lines longer than 10 bytes that start with '!', '$' or backslash and contain no LF reach the loop unchanged and in order
   from every front-end, with or without their terminator *)
Theorem C07_frontends_agree : forall ls, Forall passes_filter ls -> Forall (fun l => ~ In 10 l) ls ->
  let lines := map terminated ls in
  iter_source lines = lines /\ bytestream_source lines = lines /\ binaryio_source (concat lines) = lines /\
  iter_source ls = ls /\ bytestream_source ls = ls.
Proof. exact frontends_agree. Qed.
Print Assumptions C07_frontends_agree.

Theorem C07_assemble_perm : forall l l', Permutation l l' -> NoDup (map a_frag_num l) ->
  assembled_view (assemble_from_iterable l) = assembled_view (assemble_from_iterable l').
Proof. exact assemble_perm. Qed.
Print Assumptions C07_assemble_perm.

Theorem C07_partial :
  (forall st p t, queue_step st p t = if try_index_error p t then Ok (st, []) else stream_step st p t) /\
  (forall ins st outs fin, asm_run stream_step st ins = (outs, Ok fin) -> asm_run queue_step st ins = (outs, Ok fin)) /\
  (forall ls, Forall passes_filter ls -> Forall (fun l => ~ In 10 l) ls ->
     let lines := map terminated ls in
     iter_source lines = lines /\ bytestream_source lines = lines /\ binaryio_source (concat lines) = lines /\
     iter_source ls = ls /\ bytestream_source ls = ls) /\
  (forall l l', Permutation l l' -> NoDup (map a_frag_num l) ->
     assembled_view (assemble_from_iterable l) = assembled_view (assemble_from_iterable l')).
Proof. exact (conj queue_step_eq (conj runs_agree (conj frontends_agree assemble_perm))). Qed.
Print Assumptions C07_partial.

(* ---------------------------------------------------------------- non-vacuity *)

Definition ex_line : byte_line := [33; 65; 73; 86; 68; 77; 44; 49; 44; 49; 44; 44; 65; 44; 49; 53; 44; 48; 42; 48; 48].   (* !AIVDM,1,1,,A,15,0*00 *)
Definition ex_line2 : byte_line := [36; 80; 71; 72; 80; 44; 49; 44; 50; 48; 50; 48; 44; 49; 13].                      (* $PGHP,1,2020,1\r *)

Definition ex_common (raw : Z) (valid : bool) : nmea_common := mkCommon [raw] [33] [65; 73] [86; 68; 77] 0 0 valid [] None.
Definition ex_ais (cnt num : Z) (raw : Z) (valid : bool) : ais_sentence :=
  mkAis (ex_common raw valid) cnt num (Some 3) [65] [raw] [true; false; false; false; false; true] 1 None.

Example C07_nonvacuous :
  Forall passes_filter [ex_line; ex_line2] /\ Forall (fun l => ~ In 10 l) [ex_line; ex_line2] /\
  binaryio_source (concat (map terminated [ex_line; ex_line2])) = [ex_line ++ [10]; ex_line2 ++ [10]] /\
  (* the queue swallows an IndexError of the parser, the stream loop does not *)
  queue_step asm_init (Raise (Py IndexError)) None = Ok (asm_init, []) /\
  stream_step asm_init (Raise (Py IndexError)) None = Raise (Py IndexError) /\
  (* three parts in two different orders *)
  assembled_view (assemble_from_iterable [ex_ais 3 3 103 true; ex_ais 3 1 101 false; ex_ais 3 2 102 true]) =
    Some ([101; 10; 102; 10; 103], [101; 102; 103],
          [true; false; false; false; false; true; true; false; false; false; false; true; true; false; false; false; false; true],
          false, 33) /\
  assembled_view (assemble_from_iterable [ex_ais 3 2 102 true; ex_ais 3 3 103 true; ex_ais 3 1 101 false]) =
  assembled_view (assemble_from_iterable [ex_ais 3 3 103 true; ex_ais 3 1 101 false; ex_ais 3 2 102 true]).
Proof.
  split; [repeat constructor; vm_compute; reflexivity|].
  split; [repeat constructor; vm_compute; intuition discriminate|].
  repeat split; vm_compute; reflexivity.
Qed.

(* ================================================================================================================== *)
(* Part 2: the composition over lines                                                                                  *)

(* NMEAQueue.put_line and the generator of AssembleMessages: same deliveries (AIS sentences and tag block groups), same
   final state, for every sequence of byte lines, from every state, with and without a tag block queue.  (produce and
   TagBlockQueue.put_sentence never raise IndexError, the one exception the loops treat differently.) *)
Theorem C07_readers_loops_equal : forall uni use_tbq lines st,
  rd_run uni queue_step use_tbq st lines = rd_run uni stream_step use_tbq st lines.
Proof. exact rd_loops_equal. Qed.
Print Assumptions C07_readers_loops_equal.

(* the line filter of Stream._iter_messages, transcribed in Model/Socket.v and in Model/Assemble.v: one predicate *)
Theorem C07_socket_filter : forall l, sock_line_filter l = negb (pyl_len l <=? 10) && should_parse l.
Proof. exact sock_filter_is_stream_filter. Qed.
Print Assumptions C07_socket_filter.

(* a byte stream made of terminated lines, every segmentation into non-empty receive chunks: the socket reader hands its
   loop the same lines as BinaryIOStream / FileReaderStream (the stream as file content) and ByteStream (the lines) *)
Theorem C07_socket_lines : forall ls cs, lines_ok ls -> chunking cs (concat ls) ->
  sock_iter_messages cs = stream_source ls /\
  binaryio_source (concat ls) = stream_source ls /\
  bytestream_source ls = stream_source ls.
Proof. exact socket_frontend. Qed.
Print Assumptions C07_socket_lines.

(* ... hence delivers the same, either loop, with or without a tag block queue *)
Theorem C07_socket : forall uni step use_tbq ls cs, lines_ok ls -> chunking cs (concat ls) ->
  rd_run uni step use_tbq rd_init (sock_iter_messages cs) = rd_run uni step use_tbq rd_init (stream_source ls) /\
  rd_run uni step use_tbq rd_init (binaryio_source (concat ls)) = rd_run uni step use_tbq rd_init (stream_source ls) /\
  rd_run uni step use_tbq rd_init (bytestream_source ls) = rd_run uni step use_tbq rd_init (stream_source ls).
Proof. exact socket_reader_deliveries. Qed.
Print Assumptions C07_socket.

(* lines with their LF / CR LF terminator and the bare lines: same deliveries (whole records, raw text included) at the
   same lines, same final state *)
Theorem C07_terminators : forall uni step use_tbq ls ls0, Forall2 unterminated ls ls0 ->
  rd_run uni step use_tbq rd_init ls = rd_run uni step use_tbq rd_init ls0.
Proof. exact terminators_irrelevant. Qed.
Print Assumptions C07_terminators.

(* which raw text: whatever a line parses to has raw = the line without surrounding white space and without its tag block
   (line_sentence_text); for a terminated line  c ++ LF | c ++ CR LF  whose content c starts with '!' or '$' and has no
   surrounding white space that is c itself.  (The raw text of an assembled message is the LF-join of its fragments' raw
   texts in fragment order: msg_view in C07_decode_agrees.) *)
Theorem C07_raw :
  (forall l s, produce l = Ok s -> c_raw (sentence_common s) = line_sentence_text l) /\
  (forall l c, unterminated l c -> produce l = produce c /\ line_sentence_text l = line_sentence_text c) /\
  (forall l x r s, unterminated l (x :: r) -> Prim.PyBytes.strip (x :: r) = x :: r -> x <> 92 ->
     produce l = Ok s -> c_raw (sentence_common s) = x :: r).
Proof.
  exact (conj produce_raw
        (conj (fun l c H => conj (produce_unterminated l c H) (sentence_text_unterminated l c H)) terminated_line_raw)).
Qed.
Print Assumptions C07_raw.

(* The six front-ends (fe_* : Proofs/IngestSocket.v; what each delivers per consumed line and its final state) on lines
   as the property builds them -- longer than 10 bytes, first byte '!', '$' or backslash, terminated by LF or CR LF --,
   the file readers on the concatenated stream, the socket reader on any segmentation of it: identical results, i.e. the
   same sequence of sentence records (raw text, payload, bits, validity flag, attached wrapper, tag block, ...) and the
   same tag block groups at the same lines. *)
Theorem C07_six_frontends : forall uni use_tbq ls cs, lines_ok ls -> Forall passes_filter ls -> chunking cs (concat ls) ->
  fe_bytestream uni use_tbq ls = fe_iter uni use_tbq ls /\
  fe_binaryio uni use_tbq (concat ls) = fe_iter uni use_tbq ls /\
  fe_file uni use_tbq (concat ls) = fe_iter uni use_tbq ls /\
  fe_socket uni use_tbq cs = fe_iter uni use_tbq ls /\
  fe_queue uni use_tbq ls = fe_iter uni use_tbq ls.
Proof. exact six_frontends_agree. Qed.
Print Assumptions C07_six_frontends.

(* the in-memory iterator and the queue given the bare lines ls0 (what a caller typically passes), the others the
   terminated ones *)
Theorem C07_six_frontends_bare : forall uni use_tbq ls ls0 cs,
  lines_ok ls -> Forall passes_filter ls -> chunking cs (concat ls) -> Forall2 unterminated ls ls0 ->
  fe_iter uni use_tbq ls0 = fe_iter uni use_tbq ls /\ fe_queue uni use_tbq ls0 = fe_iter uni use_tbq ls /\
  fe_socket uni use_tbq cs = fe_iter uni use_tbq ls0.
Proof. exact six_frontends_agree_bare. Qed.
Print Assumptions C07_six_frontends_bare.

(* the wrapper carried by every delivered sentence is the one the C18 specification prescribes, for every line sequence,
   in the stream readers and (second conjunct) identically in the queue *)
Theorem C07_wrappers : forall uni use_tbq lines,
  let ins := rd_inputs uni use_tbq [] lines in
  let outs := map fst (fst (rd_run uni stream_step use_tbq rd_init lines)) in
  map (map a_wrapper) outs = spec_wrapper (asm_events ins (map has_delivery outs)) /\
  map fst (fst (rd_run uni queue_step use_tbq rd_init lines)) = outs.
Proof. exact rd_wrappers_correct. Qed.
Print Assumptions C07_wrappers.

(* decode() against the readers.  line_ais l a: produce l = Ok (SAis a).  complete_message sq ch fs: common sequence id
   and channel, fragment count = |fs| >= 1, fragment numbers a permutation of 1..|fs|.  msg_single: one fragment and no
   (or zero) sequence id.  line_touches s l: l parses to a fragment that is stored into slot s.  tbq_accepts: the tag
   block queue does not reject the sentence (no tag block, or tb.init() succeeds).  pick mask outs: the sentences
   delivered at the selected lines.  view: (raw, payload, bits, validity flag, message id).  msg_view fs: raw texts joined by
   LF, payloads / bits concatenated, validity conjoined, in fragment-number order; message id = first six bits.
   (1) ls is ANY line sequence whose lines that store into the message's slot are exactly the parts, in any order
       (between them: anything else -- other slots, singles, wrappers, foreign and malformed lines).  The reader consumes
       every line, delivers exactly one sentence d at the message's lines, d carries the message, and for every order parts'
       decode( *parts' ) assembles a sentence with the same view and returns exactly what d.decode() returns.
   (2) the same for a single-sentence message at any position of any line sequence. *)
Theorem C07_decode_agrees : forall uni step use_tbq, step = stream_step \/ step = queue_step ->
  (forall parts fs sq ch ls,
     Forall2 line_ais parts fs -> complete_message sq ch fs -> msg_single sq fs = false ->
     (use_tbq = true -> Forall (tbq_accepts uni) fs) ->
     Permutation parts (filter (line_touches (msg_slot sq ch)) ls) ->
     exists outs st d,
       rd_run uni step use_tbq rd_init ls = (outs, Ok st) /\ length outs = length ls /\
       pick (map (line_touches (msg_slot sq ch)) ls) (map fst outs) = [d] /\
       view d = msg_view fs /\ a_seq_id d = sq /\ a_channel d = ch /\
       forall parts', Permutation parts parts' ->
         exists nmea, assemble_messages false parts' = Ok nmea /\ view nmea = view d /\
                      sentence_decode d = mmap snd (decode_api false parts')) /\
  (forall p f pre post,
     line_ais p f -> is_single f = true -> (use_tbq = true -> tbq_accepts uni f) ->
     exists outs1 outs2 st touts d,
       rd_run uni step use_tbq rd_init (pre ++ p :: post) = (outs1 ++ ([d], touts) :: outs2, Ok st) /\
       length outs1 = length pre /\ length outs2 = length post /\
       view d = view f /\ a_seq_id d = a_seq_id f /\ a_channel d = a_channel f /\
       exists nmea, assemble_messages false [p] = Ok nmea /\ view nmea = view d /\
                    sentence_decode d = mmap snd (decode_api false [p])).
Proof. exact decode_agrees. Qed.
Print Assumptions C07_decode_agrees.

(* The same agreement by content, for arbitrary traffic (including other messages before and after in the same slot):
   (a) whatever either reader delivers from ANY line sequence decodes to decode_content of its own payload and bits;
   (b) decode( *parts ) of the lines of a complete message, in any order, is decode_content of the payloads and bits
       concatenated in fragment-number order;
   (c) for lines that parse to a C03 well-formed schedule the reader delivers what the C03 specification prescribes
       (payload / bits of each delivery = those concatenations) and each delivery decodes by that content. *)
Theorem C07_decode_by_content : forall uni step use_tbq, step = stream_step \/ step = queue_step ->
  (forall lines st o d, In o (fst (rd_run uni step use_tbq st lines)) -> In d (fst o) ->
     sentence_decode d = decode_content (a_payload d) (a_bits d)) /\
  (forall parts fs sq ch, Forall2 line_ais parts fs -> complete_message sq ch fs ->
     mmap snd (decode_api false parts) =
     decode_content (flat_map a_payload (sort_by_frag fs)) (flat_map a_bits (sort_by_frag fs))) /\
  (forall ls sch, WF sch -> rd_inputs uni use_tbq [] ls = schedule_lines sch ->
     exists outs st,
       rd_run uni step use_tbq rd_init ls = (outs, Ok st) /\
       map (map delivery_of) (map fst outs) = spec_deliveries sch /\
       Forall (Forall (fun d => sentence_decode d = decode_content (a_payload d) (a_bits d))) (map fst outs)).
Proof.
  exact (fun uni step use_tbq H =>
    conj (delivered_decode_content uni step use_tbq (reader_loop_is_reader_loop step H))
   (conj decode_api_content
         (fun ls sch => wf_schedule_decode uni step use_tbq ls sch (reader_loop_is_reader_loop step H)))).
Qed.
Print Assumptions C07_decode_by_content.

(* (3) The general form: ls parses, line by line (line_item), to ANY C03 well-formed schedule sch -- any number of
   messages, any interleaving and per-message arrival order, slots reused after completion (other messages of the same slot
   before and after), incomplete sets, single-sentence messages, wrappers, skipped lines --, m is a message of sch whose
   fragments are those the lines `parts` parse to, complete.  Either reader delivers exactly one sentence d at the lines of m
   (item_of_msg m), d carries the message, and decode( *parts' ) agrees with d.decode() for every order parts' of the parts. *)
Theorem C07_decode_agrees_schedule : forall uni step use_tbq, step = stream_step \/ step = queue_step ->
  forall ls sch m parts fs sq ch,
    WF sch -> Forall2 (line_item uni use_tbq) ls sch ->
    Forall2 line_ais parts fs -> complete_message sq ch fs ->
    Permutation fs (map sf_sent (frags_of m (asm_frags sch))) ->
    exists outs st d,
      rd_run uni step use_tbq rd_init ls = (outs, Ok st) /\ length outs = length ls /\
      pick (map (item_of_msg m) sch) (map fst outs) = [d] /\
      view d = msg_view fs /\ a_seq_id d = sq /\ a_channel d = ch /\
      forall parts', Permutation parts parts' ->
        exists nmea, assemble_messages false parts' = Ok nmea /\ view nmea = view d /\
                     sentence_decode d = mmap snd (decode_api false parts').
Proof. exact decode_agrees_schedule. Qed.
Print Assumptions C07_decode_agrees_schedule.

(* ---------------------------------------------------------------- the property *)

Definition C07_statement : Prop :=
  (* the two loops, the line sources and assemble_from_iterable (the four clauses of C07_partial) *)
  (forall st p t, queue_step st p t = if try_index_error p t then Ok (st, []) else stream_step st p t) /\
  (forall ins st outs fin, asm_run stream_step st ins = (outs, Ok fin) -> asm_run queue_step st ins = (outs, Ok fin)) /\
  (forall ls, Forall passes_filter ls -> Forall (fun l => ~ In 10 l) ls ->
     let lines := map terminated ls in
     iter_source lines = lines /\ bytestream_source lines = lines /\ binaryio_source (concat lines) = lines /\
     iter_source ls = ls /\ bytestream_source ls = ls) /\
  (forall l l', Permutation l l' -> NoDup (map a_frag_num l) ->
     assembled_view (assemble_from_iterable l) = assembled_view (assemble_from_iterable l')) /\
  (* the two loops on byte lines *)
  (forall uni use_tbq lines st, rd_run uni queue_step use_tbq st lines = rd_run uni stream_step use_tbq st lines) /\
  (* the six front-ends, wrappers and tag blocks included (equality of the whole delivery records) *)
  (forall uni use_tbq ls cs, lines_ok ls -> Forall passes_filter ls -> chunking cs (concat ls) ->
     fe_bytestream uni use_tbq ls = fe_iter uni use_tbq ls /\
     fe_binaryio uni use_tbq (concat ls) = fe_iter uni use_tbq ls /\
     fe_file uni use_tbq (concat ls) = fe_iter uni use_tbq ls /\
     fe_socket uni use_tbq cs = fe_iter uni use_tbq ls /\
     fe_queue uni use_tbq ls = fe_iter uni use_tbq ls) /\
  (forall uni step use_tbq ls ls0, Forall2 unterminated ls ls0 ->
     rd_run uni step use_tbq rd_init ls = rd_run uni step use_tbq rd_init ls0) /\
  (forall uni use_tbq lines,
     let ins := rd_inputs uni use_tbq [] lines in
     let outs := map fst (fst (rd_run uni stream_step use_tbq rd_init lines)) in
     map (map a_wrapper) outs = spec_wrapper (asm_events ins (map has_delivery outs)) /\
     map fst (fst (rd_run uni queue_step use_tbq rd_init lines)) = outs) /\
  (* decode() agrees with the readers *)
  (forall uni step use_tbq, step = stream_step \/ step = queue_step ->
     (forall parts fs sq ch ls,
        Forall2 line_ais parts fs -> complete_message sq ch fs -> msg_single sq fs = false ->
        (use_tbq = true -> Forall (tbq_accepts uni) fs) ->
        Permutation parts (filter (line_touches (msg_slot sq ch)) ls) ->
        exists outs st d,
          rd_run uni step use_tbq rd_init ls = (outs, Ok st) /\ length outs = length ls /\
          pick (map (line_touches (msg_slot sq ch)) ls) (map fst outs) = [d] /\
          view d = msg_view fs /\ a_seq_id d = sq /\ a_channel d = ch /\
          forall parts', Permutation parts parts' ->
            exists nmea, assemble_messages false parts' = Ok nmea /\ view nmea = view d /\
                         sentence_decode d = mmap snd (decode_api false parts')) /\
     (forall p f pre post,
        line_ais p f -> is_single f = true -> (use_tbq = true -> tbq_accepts uni f) ->
        exists outs1 outs2 st touts d,
          rd_run uni step use_tbq rd_init (pre ++ p :: post) = (outs1 ++ ([d], touts) :: outs2, Ok st) /\
          length outs1 = length pre /\ length outs2 = length post /\
          view d = view f /\ a_seq_id d = a_seq_id f /\ a_channel d = a_channel f /\
          exists nmea, assemble_messages false [p] = Ok nmea /\ view nmea = view d /\
                       sentence_decode d = mmap snd (decode_api false [p]))) /\
  (* ... and for every complete message of every well-formed line schedule *)
  (forall uni step use_tbq, step = stream_step \/ step = queue_step ->
     forall ls sch m parts fs sq ch,
       WF sch -> Forall2 (line_item uni use_tbq) ls sch ->
       Forall2 line_ais parts fs -> complete_message sq ch fs ->
       Permutation fs (map sf_sent (frags_of m (asm_frags sch))) ->
       exists outs st d,
         rd_run uni step use_tbq rd_init ls = (outs, Ok st) /\ length outs = length ls /\
         pick (map (item_of_msg m) sch) (map fst outs) = [d] /\
         view d = msg_view fs /\ a_seq_id d = sq /\ a_channel d = ch /\
         forall parts', Permutation parts parts' ->
           exists nmea, assemble_messages false parts' = Ok nmea /\ view nmea = view d /\
                        sentence_decode d = mmap snd (decode_api false parts')).

Theorem C07 : C07_statement.
Proof.
  exact (conj queue_step_eq (conj runs_agree (conj frontends_agree (conj assemble_perm
        (conj rd_loops_equal (conj six_frontends_agree (conj terminators_irrelevant
        (conj rd_wrappers_correct (conj decode_agrees decode_agrees_schedule))))))))).
Qed.
Print Assumptions C07.

(* C07_partial (above) is the conjunction of the first four clauses of C07 *)
Theorem C07_implies_partial : C07_statement ->
  (forall st p t, queue_step st p t = if try_index_error p t then Ok (st, []) else stream_step st p t) /\
  (forall ins st outs fin, asm_run stream_step st ins = (outs, Ok fin) -> asm_run queue_step st ins = (outs, Ok fin)) /\
  (forall ls, Forall passes_filter ls -> Forall (fun l => ~ In 10 l) ls ->
     let lines := map terminated ls in
     iter_source lines = lines /\ bytestream_source lines = lines /\ binaryio_source (concat lines) = lines /\
     iter_source ls = ls /\ bytestream_source ls = ls) /\
  (forall l l', Permutation l l' -> NoDup (map a_frag_num l) ->
     assembled_view (assemble_from_iterable l) = assembled_view (assemble_from_iterable l')).
Proof.
  exact (fun H => conj (proj1 H) (conj (proj1 (proj2 H)) (conj (proj1 (proj2 (proj2 H))) (proj1 (proj2 (proj2 (proj2 H))))))).
Qed.
Print Assumptions C07_implies_partial.

(* ---------------------------------------------------------------- non-vacuity of part 2 *)

(* !AIVDM,2,1,3,B,55P5TL01VIaAL@7WKO@mBplU@<PDhh000000001S;AJ::4A80?4i@E53,0*3E   and
   !AIVDM,2,2,3,B,1@0000000000000,2*55                     -- a real two-fragment type 5 message (ship MT.MITCHELL) *)
Definition ex_p1 : bytes :=
  [33; 65; 73; 86; 68; 77; 44; 50; 44; 49; 44; 51; 44; 66; 44; 53; 53; 80; 53; 84; 76; 48; 49; 86; 73; 97; 65; 76; 64; 55; 87; 75;
   79; 64; 109; 66; 112; 108; 85; 64; 60; 80; 68; 104; 104; 48; 48; 48; 48; 48; 48; 48; 48; 49; 83; 59; 65; 74; 58; 58; 52; 65; 56;
   48; 63; 52; 105; 64; 69; 53; 51; 44; 48; 42; 51; 69].
Definition ex_p2 : bytes :=
  [33; 65; 73; 86; 68; 77; 44; 50; 44; 50; 44; 51; 44; 66; 44; 49; 64; 48; 48; 48; 48; 48; 48; 48; 48; 48; 48; 48; 48; 48; 44; 50;
   42; 53; 53].
(* !AIVDM,1,1,,A,15M67FC000G?ufbE`FepT@3n00Sa,0*5C  (a single-sentence type 1 message) *)
Definition ex_single : bytes :=
  [33; 65; 73; 86; 68; 77; 44; 49; 44; 49; 44; 44; 65; 44; 49; 53; 77; 54; 55; 70; 67; 48; 48; 48; 71; 63; 117; 102; 98; 69; 96; 70;
   101; 112; 84; 64; 51; 110; 48; 48; 83; 97; 44; 48; 42; 53; 67].
(* !AIVDM,2,1,4,A,55O0W7`00001L@gCWGA2uItLth@DqtL5@F22220j1h742t0Ht0000000,0*08  (first fragment of another slot, never completed) *)
Definition ex_other : bytes :=
  [33; 65; 73; 86; 68; 77; 44; 50; 44; 49; 44; 52; 44; 65; 44; 53; 53; 79; 48; 87; 55; 96; 48; 48; 48; 48; 49; 76; 64; 103; 67; 87;
   71; 65; 50; 117; 73; 116; 76; 116; 104; 64; 68; 113; 116; 76; 53; 64; 70; 50; 50; 50; 50; 48; 106; 49; 104; 55; 52; 50; 116; 48;
   72; 116; 48; 48; 48; 48; 48; 48; 48; 44; 48; 42; 48; 56].
(* $PGHP,1,2020,12,31,23,59,58,239,0,0,0,1,2C*5B  (a Gatehouse wrapper) *)
Definition ex_gh : bytes :=
  [36; 80; 71; 72; 80; 44; 49; 44; 50; 48; 50; 48; 44; 49; 50; 44; 51; 49; 44; 50; 51; 44; 53; 57; 44; 53; 56; 44; 50; 51; 57; 44;
   48; 44; 48; 44; 48; 44; 49; 44; 50; 67; 42; 53; 66].
(* $GPGGA,123519,4807.038,N,01131.000,E,1,08,0.9,545.4,M,46.9,M,,*47  (a foreign NMEA sentence: skipped) *)
Definition ex_junk : bytes :=
  [36; 71; 80; 71; 71; 65; 44; 49; 50; 51; 53; 49; 57; 44; 52; 56; 48; 55; 46; 48; 51; 56; 44; 78; 44; 48; 49; 49; 51; 49; 46; 48;
   48; 48; 44; 69; 44; 49; 44; 48; 56; 44; 48; 46; 57; 44; 53; 52; 53; 46; 52; 44; 77; 44; 52; 54; 46; 57; 44; 77; 44; 44; 42; 52;
   55].

Definition ex_uni : Z -> list Z -> option Z := fun _ _ => None.
Definition ex_parse (l : bytes) : ais_sentence := match produce l with Ok (SAis a) => a | _ => ex_ais 0 0 0 false end.

(* the second fragment arrives first; a single, a wrapper, a fragment of another slot and a foreign sentence in between *)
Definition ex_lines : list bytes := [ex_p2; ex_single; ex_gh; ex_other; ex_junk; ex_p1].
Definition ex_slot : asm_slot := msg_slot (Some 3) [66].
Definition ex_delivered (step : asm_stepfn) : list ais_sentence :=
  pick (map (line_touches ex_slot) ex_lines) (map fst (fst (rd_run ex_uni step true rd_init ex_lines))).

(* the hypotheses of C07_decode_agrees (1) hold for this message and this line sequence ... *)
Example C07_decode_nonvacuous_hyps :
  Forall2 line_ais [ex_p1; ex_p2] [ex_parse ex_p1; ex_parse ex_p2] /\
  complete_message (Some 3) [66] [ex_parse ex_p1; ex_parse ex_p2] /\
  msg_single (Some 3) [ex_parse ex_p1; ex_parse ex_p2] = false /\
  Forall (tbq_accepts ex_uni) [ex_parse ex_p1; ex_parse ex_p2] /\
  Permutation [ex_p1; ex_p2] (filter (line_touches ex_slot) ex_lines) /\
  line_ais ex_single (ex_parse ex_single) /\ is_single (ex_parse ex_single) = true /\ tbq_accepts ex_uni (ex_parse ex_single).
Proof.
  split; [repeat constructor; unfold line_ais; vm_compute; reflexivity|].
  split.
  { constructor.
    - repeat constructor; vm_compute; reflexivity.
    - repeat constructor; vm_compute; reflexivity.
    - repeat constructor; vm_compute; reflexivity.
    - vm_compute. apply Permutation_refl.
    - discriminate. }
  split; [vm_compute; reflexivity|]. split; [repeat constructor; vm_compute; exact I|].
  split; [vm_compute; apply perm_swap|].
  split; [unfold line_ais; vm_compute; reflexivity|]. split; [vm_compute; reflexivity|vm_compute; exact I].
Qed.

(* ... and, computed: both loops (with a tag block queue) deliver the single at line 2 and the assembled message at the
   last line, nothing else; the assembled message carries the wrapper read in between, the single does not; its decode()
   is what decode(p1, p2) and decode(p2, p1) return, a successfully decoded message *)
Example C07_decode_nonvacuous :
  map (fun o => length (fst o)) (fst (rd_run ex_uni stream_step true rd_init ex_lines)) = [0; 1; 0; 0; 0; 1]%nat /\
  map (fun o => length (fst o)) (fst (rd_run ex_uni queue_step true rd_init ex_lines)) = [0; 1; 0; 0; 0; 1]%nat /\
  map (fun d => match a_wrapper d with Some _ => true | None => false end) (ex_delivered stream_step) = [true] /\
  map view (ex_delivered stream_step) = [msg_view [ex_parse ex_p2; ex_parse ex_p1]] /\
  ex_delivered queue_step = ex_delivered stream_step /\
  map sentence_decode (ex_delivered stream_step) = [mmap snd (decode_api false [ex_p1; ex_p2])] /\
  mmap snd (decode_api false [ex_p2; ex_p1]) = mmap snd (decode_api false [ex_p1; ex_p2]) /\
  is_ok (decode_api false [ex_p1; ex_p2]) = true.
Proof. vm_compute. repeat split; reflexivity. Qed.

(* the same lines with terminators (CR LF on two of them), as a byte stream cut into three receive chunks (the first cut
   inside the first line, the second inside the third): the hypotheses of C07_six_frontends hold, and, computed, the socket
   reader delivers what the in-memory iterator delivers on the bare lines *)
Definition ex_tlines : list bytes :=
  [ex_p2 ++ [13; 10]; ex_single ++ [10]; ex_gh ++ [10]; ex_other ++ [10]; ex_junk ++ [13; 10]; ex_p1 ++ [10]].
Definition ex_chunks : list bytes :=
  [firstn 5 (concat ex_tlines); firstn 100 (skipn 5 (concat ex_tlines)); skipn 105 (concat ex_tlines)].

Example C07_frontends_nonvacuous :
  lines_ok ex_tlines /\ Forall passes_filter ex_tlines /\ chunking ex_chunks (concat ex_tlines) /\
  Forall2 unterminated ex_tlines ex_lines /\
  fe_socket ex_uni true ex_chunks = fe_iter ex_uni true ex_lines /\
  fe_queue ex_uni true ex_lines = fe_iter ex_uni true ex_lines.
Proof.
  split; [apply Proofs.SocketProofs.lines_okb_spec; vm_compute; reflexivity|].
  split; [repeat constructor; vm_compute; reflexivity|].
  split; [split; [vm_compute; reflexivity|apply Proofs.SocketProofs.chunks_okb_spec; vm_compute; reflexivity]|].
  split; [repeat constructor; unfold unterminated; solve [left; reflexivity|right; reflexivity]|].
  split; vm_compute; reflexivity.
Qed.

(* the line sequence above followed by the same two-fragment message once more (a verbatim retransmission in the same
   slot, fragments in order this time), as a C03 schedule: message 0 = the first transmission, 1 = the single, 2 = the
   other slot's fragment, 3 = the retransmission.  It is well-formed, every line is the item it stands for, message 3 is made
   of the fragments of [p1; p2]: the hypotheses of C07_decode_agrees_schedule hold; and, computed, at the lines of message 3
   exactly one sentence is delivered, with the view of the message, decoding as decode(p2, p1) does. *)
Definition ex_gatehouse_of (l : bytes) : gatehouse :=
  match produce l with Ok (SGatehouse g) => g | _ => mkGh (ex_common 0 false) (mkTs 0 0 0 0 0 0 0) [] [] [] 0 end.
Definition ex_lines2 : list bytes := ex_lines ++ [ex_p1; ex_p2].
Definition ex_sched2 : asm_schedule :=
  [ IFrag (mkSF 0 (ex_parse ex_p2)); IFrag (mkSF 1 (ex_parse ex_single)); IWrapper (ex_gatehouse_of ex_gh);
    IFrag (mkSF 2 (ex_parse ex_other)); ISkipped UnknownMessageException; IFrag (mkSF 0 (ex_parse ex_p1));
    IFrag (mkSF 3 (ex_parse ex_p1)); IFrag (mkSF 3 (ex_parse ex_p2)) ].

Example C07_schedule_nonvacuous :
  WF ex_sched2 /\ Forall2 (line_item ex_uni true) ex_lines2 ex_sched2 /\
  Permutation [ex_parse ex_p1; ex_parse ex_p2] (map sf_sent (frags_of 3 (asm_frags ex_sched2))) /\
  map (fun o => length (fst o)) (fst (rd_run ex_uni queue_step true rd_init ex_lines2)) = [0; 1; 0; 0; 0; 1; 0; 1]%nat /\
  map view (pick (map (item_of_msg 3) ex_sched2) (map fst (fst (rd_run ex_uni queue_step true rd_init ex_lines2)))) =
    [msg_view [ex_parse ex_p1; ex_parse ex_p2]] /\
  map sentence_decode (pick (map (item_of_msg 3) ex_sched2) (map fst (fst (rd_run ex_uni stream_step true rd_init ex_lines2)))) =
    [mmap snd (decode_api false [ex_p2; ex_p1])].
Proof.
  split; [apply wf_check_sound; vm_compute; reflexivity|].
  split; [repeat constructor; vm_compute; solve [reflexivity | exact I | intros _; exact I]|].
  split; [vm_compute; apply Permutation_refl|].
  vm_compute. repeat split; reflexivity.
Qed.

(* ================================================================ BACKPRESSURE EXTENSION OF THE NMEAQueue CLAUSE

   A bounded NMEAQueue whose final put may raise queue.Full (queue_step_b, Model/Assemble.v; Props/C03.v has the theorems
   against the unbounded queue).  Against the STREAM readers: whenever the stream loop gets through the lines, the bounded
   queue -- for every pattern of accepted / refused puts -- ends in the same state (buffer, pending wrapper), has put
   exactly the stream reader's deliveries at the accepted lines (the same records: raw text, payload, validity, wrapper,
   tag block) and has raised queue.Full exactly for its deliveries at the refused lines (bq_gate / bq_gates:
   Proofs/AssembleBounded.v). *)
Theorem C07_bounded_queue : forall (ios : list bq_input) st outs fin,
  asm_run stream_step st (map fst ios) = (outs, Ok fin) ->
  bq_run queue_step_b st ios = (bq_gates (map snd ios) outs, Ok fin).
Proof. exact bq_stream_agree. Qed.
Print Assumptions C07_bounded_queue.

Example C07_bounded_nonvacuous :
  let ins := [(Ok (SAis (ex_ais 2 2 102 true)), None); (Ok (SAis (ex_ais 2 1 101 false)), None);
              (Ok (SAis (ex_ais 2 1 103 true)), None)] in
  let ios := combine ins [BqPutOk; BqPutFull; BqPutOk] in
  exists outs fin, asm_run stream_step asm_init (map fst ios) = (outs, Ok fin) /\ map (@length _) outs = [0; 1; 0]%nat /\
    map bq_is_full (fst (bq_run queue_step_b asm_init ios)) = [false; true; false] /\
    map (fun o => length (bq_outs o)) (fst (bq_run queue_step_b asm_init ios)) = [0; 0; 0]%nat.
Proof. cbv zeta. eexists. eexists. split; [vm_compute; reflexivity|]. vm_compute. repeat split; reflexivity. Qed.
