(* C11 -- truncated payloads decode their covered fields and set the rest to None.
   Statement only; the proof is in Proofs/CodecDecode.v (from from_bitarray_char and the prefix stability of the
   variant dispatch).  Same model and specification objects as Props/C01.v; the field positions (s_off, s_width) are
   those of the independent layout tables of Spec/Layout.v. *)
From Coq Require Import ZArith List Bool String.
Require Import Prim.Exn Prim.Bits Gen.GenEnums Model.FieldTypes Gen.GenTables Model.Codec Spec.Layout Spec.LayoutRel
               Proofs.BitsLemmas Proofs.CodecCommon Proofs.CodecPrefix.
Import ListNotations.
Open Scope Z_scope.

(* For every layout variant, EVERY payload of its nominal length that selects the variant, and EVERY prefix length n
   that still contains the 6-bit message id and the variant discriminator: decoding the prefix does not fail and gives
   the same class; every field that lies completely within the n received bits has exactly the value it has in the
   untruncated message; every field that starts at or beyond bit n is None.  (No assumption on text padding.) *)
Theorem C11 : forall v bits n,
  List.length bits = nominal v -> spec_variant bits = Some v ->
  (Nat.max 6 (disc_end v) <= n <= List.length bits)%nat ->
  exists vals vals',
    decode_bits bits = Ok (cls_of v, vals) /\
    decode_bits (firstn n bits) = Ok (cls_of v, vals') /\
    List.length vals = List.length (spec_layout v) /\ List.length vals' = List.length (spec_layout v) /\
    forall i f, nth_error (spec_layout v) i = Some f ->
      ((s_off f + s_width f <= n)%nat -> nth_error vals' i = nth_error vals i) /\
      ((n <= s_off f)%nat -> nth_error vals' i = Some VNone).
Proof. exact C11_truncated. Qed.
Print Assumptions C11.

(* the discriminator bits are inside every prefix the property quantifies over: the prefix selects the same variant *)
Theorem C11_dispatch_prefix_stable : forall b v n, selects b v -> (Nat.max 6 (disc_end v) <= n)%nat ->
  selects (firstn n b) v.
Proof. exact selects_prefix. Qed.
Print Assumptions C11_dispatch_prefix_stable.

(* non-vacuity: a real type 1 payload cut after 100 bits, in the middle of the latitude (bits 89..115): the hypotheses
   hold, the prefix decodes, the fields from `course` (bit 116) on are None.  (Only sign- and scale-independent values
   are written out: C11 does not depend on them.) *)
Example C11_nonvacuous : exists bits,
  decode_into_bit_array sample_type1 0 = Ok bits /\
  List.length bits = nominal V1 /\ spec_variant bits = Some V1 /\
  (Nat.max 6 (disc_end V1) <= 100 <= List.length bits)%nat /\
  exists vals', decode_bits (firstn 100 bits) = Ok (MessageType1, vals') /\
                firstn 3 vals' = [VInt 1; VInt 0; VInt 366053209] /\
                skipn 9 vals' = [VNone; VNone; VNone; VNone; VNone; VNone; VNone].
Proof.
  eexists. split; [vm_compute; reflexivity|]. split; [vm_compute; reflexivity|]. split; [vm_compute; reflexivity|].
  split; [split; apply Nat.leb_le; vm_compute; reflexivity|].
  eexists. split; [vm_compute; reflexivity|]. split; vm_compute; reflexivity.
Qed.
