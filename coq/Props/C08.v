(* C08 -- re-encoding a decoded message is stable.
   Statements only; proofs live in Proofs/RoundTripStable.v and Proofs/RoundTripC08.v.  The functions are the
   hand-written model of Payload.from_bitarray / to_bitarray and their helpers (Model/Codec.v) over the tables
   regenerated from pyais on every run (Gen/); the quantifier and "no field was normalised" are
   Spec/RoundTripSpec.v (c08_length_ok, raw_unnormalised) over the hand-transcribed ITU layouts of Spec/Layout.v. *)
From Coq Require Import ZArith List Bool String.
Require Import Prim.Exn Prim.Bits Model.FieldTypes Gen.GenTables Model.Codec Spec.Layout Spec.RoundTripSpec.
Require Import Proofs.RoundTripBits Proofs.RoundTripLoops Proofs.RoundTripKinds Proofs.RoundTripField
               Proofs.RoundTripDispatch Proofs.RoundTrip Proofs.RoundTripTol Proofs.RoundTripStable Proofs.RoundTripC08.
Import ListNotations.
Open Scope Z_scope.

(* The full statement.  For every layout variant v and every payload whose own bits select v (spec_variant), whose
   length is one the property quantifies over (c08_length_ok: the variant is determined and the payload ends on a field
   boundary or, inside a variable-length field, on a character / byte boundary) and whose sub-character text padding is
   zero:  decoding, re-encoding and decoding again gives the same class and the same attribute values, and if no field
   was normalised (raw_unnormalised) the re-encoded payload is the received one
   ([c08_holds_for v bits bfb], Proofs/RoundTripC08.v: exists vs b2, decode_bits bits = Ok (cls_of v, vs) /\
   to_bitarray (cls_of v) vs = Ok b2 /\ decode_bits b2 = Ok (cls_of v, vs) /\ (bfb = true -> b2 = bits)). *)
Definition C08_statement : Prop :=
  forall v bits, spec_variant bits = Some v -> c08_length_ok v (List.length bits) = true ->
                 text_pad_zero v bits = true -> c08_holds_for v bits (raw_unnormalised v bits).

(* The unchanged code violates it (known findings, see known_findings.json). *)
Theorem C08_refuted : ~ C08_statement.
Proof.
  intros H. destruct c08_witness_empty_text as (A & B & C & _ & N). exact (N _ (H _ _ A B C)).
Qed.
Print Assumptions C08_refuted.

(* first clause: a type 12 payload whose text is present but decodes to '' is not stable *)
Theorem C08_refuted_empty_text :
  spec_variant witness_c08_empty_text = Some V12 /\ c08_length_ok V12 (List.length witness_c08_empty_text) = true /\
  text_pad_zero V12 witness_c08_empty_text = true /\ c08_empty_text V12 witness_c08_empty_text = true /\
  forall bfb, ~ c08_holds_for V12 witness_c08_empty_text bfb.
Proof. exact c08_witness_empty_text. Qed.
Print Assumptions C08_refuted_empty_text.

(* second clause only: a full-length type 21 payload in which every field re-encodes to itself comes back 4 bits
   shorter (sub-character padding after a text field whose width is not a multiple of six) *)
Theorem C08_refuted_padding :
  spec_variant witness_c08_padding = Some V21 /\ c08_length_ok V21 (List.length witness_c08_padding) = true /\
  text_pad_zero V21 witness_c08_padding = true /\ raw_unnormalised V21 witness_c08_padding = true /\
  c08_empty_text V21 witness_c08_padding = false /\ c08_pad_dropped V21 witness_c08_padding = true /\
  ~ c08_holds_for V21 witness_c08_padding true.
Proof. exact c08_witness_padding. Qed.
Print Assumptions C08_refuted_padding.

(* The statement with exactly those inputs excluded: the first clause for every payload without a present-but-empty
   text of type 12/14 (c08_guard), the second clause additionally for payloads that contain no sub-character padding
   bits of a text field (c08_pad_dropped).  Unbounded: all 35 variants, all admissible lengths, all payloads. *)
Theorem C08_partial : forall v bits,
  spec_variant bits = Some v -> c08_length_ok v (List.length bits) = true -> text_pad_zero v bits = true ->
  c08_guard v bits = true ->
  c08_holds_for v bits (raw_unnormalised v bits && negb (c08_pad_dropped v bits)).
Proof. exact c08_partial. Qed.
Print Assumptions C08_partial.

(* per field kind: what decode -> encode -> decode does to the received bits of one field.  For integers, booleans,
   scaled quantities and binary data the re-encoded bits are the received ones; rate of turn (all 256 codes),
   enumerations (all codes of the field) and text are stable after one normalisation. *)
Theorem C08_field_stable : forall v il sf f b,
  pair_ok v il sf f = true -> stable_pair_ok v sf f = true -> b <> [] -> (List.length b <= f_width f)%nat ->
  (List.length b = f_width f \/ (var_len v sf = true /\ (List.length b mod fix_unit (s_kind sf) = 0)%nat)) ->
  (s_kind sf = KT -> pad_ok b = true) ->
  exists r b', field_stable f b r b' /\
    (List.length b = f_width f -> il = false -> List.length b' = f_width f /\ b' <> []) /\
    (identity_kind (s_kind sf) = true -> b' = b) /\
    (b' = [] -> s_kind sf = KT /\ exact_text v = true /\ decode_bin_as_ascii6 b = []) /\
    (raw_fix_kind (s_kind sf) (List.length b =? f_width f)%nat (exact_text v) b = true ->
     (s_kind sf = KT -> (List.length b mod 6 = 0)%nat) -> b' = b).
Proof. exact kind_stable. Qed.
Print Assumptions C08_field_stable.

(* trailing absent fields are skipped by to_bitarray (encode_skips_trailing_none) *)
Theorem C08_encode_skips_none : forall f, bits_of_field f VNone = Ok [].
Proof. intros f. reflexivity. Qed.
Print Assumptions C08_encode_skips_none.

(* the tables the proofs are about, re-checked against the regenerated Gen/ on every build *)
Theorem C08_tables : forallb stable_variant_ok all_variants = true /\ forallb variant_ok all_variants = true.
Proof. exact (conj stable_variants_checked variants_checked). Qed.
Print Assumptions C08_tables.

(* the text the model decodes is the text of the layout specification *)
Theorem C08_text_is_spec_text : forall b, pad_ok b = true -> decode_bin_as_ascii6 b = spec_text b.
Proof. exact decode_text_is_spec_text. Qed.
Print Assumptions C08_text_is_spec_text.

(* non-vacuity: a concrete class A position report of 168 bits (rate-of-turn code -4, which is normalised to -5) and its
   149-bit form without the communication state satisfy the hypotheses; the first is not bit-for-bit (a field was
   normalised), a payload with code -5 is *)
Example C08_nonvacuous :
  let p := fun rot => bits_of_string "000001" ++ repeat false 32 ++ bits_of_string "0101" ++ bits_of_string rot
                      ++ bits_of_string "0001111011" ++ repeat true 1 ++ repeat false 107 in
  spec_variant (p "11111100"%string) = Some V1 /\ List.length (p "11111100"%string) = 168%nat /\
  c08_length_ok V1 168 = true /\ c08_length_ok V1 149 = true /\ c08_length_ok V1 150 = false /\
  text_pad_zero V1 (p "11111100"%string) = true /\ c08_guard V1 (p "11111100"%string) = true /\
  raw_unnormalised V1 (p "11111100"%string) = false /\ raw_unnormalised V1 (p "11111011"%string) = true /\
  c08_pad_dropped V1 (p "11111011"%string) = false.
Proof. vm_compute. repeat split; reflexivity. Qed.
