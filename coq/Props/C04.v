(* C04 -- the decoded message depends only on the AIS payload, not on its NMEA carrier.
   Statements only; proofs live in Proofs/CarrierProofs.v (over Proofs/CarrierParse.v, CarrierPrim.v, Dearmor.v).

   [decode_api false ss] (Model/DecodeApi.v) is the model of pyais.decode( *ss ) / decode_nmea_and_ais( *ss ) on byte
   strings (decode() encodes str arguments first): NMEASentenceFactory.produce for every argument (Model/Nmea.v),
   decode.py _assemble_messages, AISSentence.assemble_from_iterable (Model/AssembleIter.v), AISSentence.decode
   (Model/Codec.v).  [message_of] keeps what decode() returns: the message class with all field values, or the
   exception.  [is_carrier p fill ss] (Spec/CarrierSpec.v, independent of pyais) says that the sentences [ss] are a
   carrier of the armored payload [p] with [fill] fill bits: [p] cut at any 1..5 positions, every part with any
   two-letter talker, VDM or VDO in any letter case, channel A/B/1/2/empty, a common sequence id 0-9 (empty allowed for
   one part), correct "n of n" numbering, fill bits on the last part only, any two hex digits as checksum, an optional
   leading tag block, any trailing ASCII white space (CR LF, blanks), handed over in ANY order.
   No bound on the length or content of the payload (each sentence carries at most 200 characters, see the spec). *)
From Coq Require Import ZArith List Bool Permutation.
Require Import Prim.Exn Prim.Bits Gen.GenTables Gen.GenConst Model.FieldTypes Model.Sentence Model.AssembleIter Model.Codec
               Model.Nmea Model.DecodeApi Spec.CarrierSpec Proofs.CarrierParse Proofs.CarrierProofs.
Import ListNotations.
Open Scope Z_scope.

(* The property: any two carriers of the same payload decode to the same message (or fail in the same way). *)
Theorem C04 : forall p fill ss1 ss2,
  p <> [] -> forallb is_armor p = true -> is_carrier p fill ss1 -> is_carrier p fill ss2 ->
  message_of (decode_api false ss1) = message_of (decode_api false ss2).
Proof. exact carrier_invariance. Qed.
Print Assumptions C04.

(* ... in particular the same as the plain single-sentence carrier !AIVDM,1,1,,A,<p>,<fill>*00 ... *)
Theorem C04_plain : forall p fill ss,
  p <> [] -> forallb is_armor p = true -> (length p <= max_chunk)%nat -> is_carrier p fill ss ->
  message_of (decode_api false ss) = message_of (decode_api false (plain_carrier p fill)).
Proof. exact carrier_vs_plain. Qed.
Print Assumptions C04_plain.

(* ... and it is what the payload decoder makes of the de-armored bits: nothing of the carrier enters. *)
Theorem C04_bits : forall p fill ss bits,
  p <> [] -> forallb is_armor p = true -> is_carrier p fill ss ->
  decode_into_bit_array p (Z.of_nat fill) = Ok bits ->
  message_of (decode_api false ss) = decode_bits bits.
Proof. exact carrier_vs_bits. Qed.
Print Assumptions C04_bits.

(* "In particular decode(part2, part1) equals decode(part1, part2)." *)
Theorem C04_swapped : forall p fill part1 part2,
  p <> [] -> forallb is_armor p = true -> is_carrier p fill [part1; part2] ->
  message_of (decode_api false [part2; part1]) = message_of (decode_api false [part1; part2]).
Proof. exact two_parts_swapped. Qed.
Print Assumptions C04_swapped.

(* The two lemmas the theorem rests on, visible as statements. *)

(* Parsing a sentence of the family yields the given numbering, payload and bits whatever the talker, type word,
   channel, sequence id, checksum digits, tag block and trailing white space (which only end up in [c]). *)
Theorem C04_parse_carrier : forall o n i seq chunk f,
  opts_ok o = true -> (1 <= n <= 9)%nat -> (1 <= i <= 9)%nat -> seq_ok seq -> (f <= 5)%nat ->
  forallb is_armor chunk = true -> chunk <> [] -> (Z.of_nat (length chunk) <= MAX_PAYLOAD_LEN) ->
  exists c, c_tag_block c = o_tagblock o /\
    produce (sentence_text o n i seq chunk f) =
    Ok (SAis (mkAis c (Z.of_nat n) (Z.of_nat i) (option_map Z.of_nat seq) (o_channel o) chunk (carrier_bits chunk f)
                    (get_int (carrier_bits chunk f) 0 6 false) None)).
Proof. exact parse_carrier. Qed.
Print Assumptions C04_parse_carrier.

(* Assembly does not depend on the order of the parts (distinct fragment numbers). *)
Theorem C04_assemble_perm : forall l1 l2, Permutation l1 l2 -> NoDup (map a_frag_num l1) -> l1 <> [] ->
  exists r1 r2, assemble_from_iterable l1 = Ok r1 /\ assemble_from_iterable l2 = Ok r2 /\
    a_payload r1 = a_payload r2 /\ a_bits r1 = a_bits r2 /\ a_ais_id r1 = a_ais_id r2 /\
    c_raw (a_common r1) = c_raw (a_common r2) /\ c_is_valid (a_common r1) = c_is_valid (a_common r2).
Proof. exact assemble_perm. Qed.
Print Assumptions C04_assemble_perm.

(* The witness check the harness runs (extracted) on the carriers it generates decides [is_carrier]. *)
Theorem C04_decider : forall p fill ss,
  (forall parts seq, carrier_checkb p fill parts seq ss = true -> is_carrier p fill ss) /\
  (is_carrier p fill ss -> exists parts seq, carrier_checkb p fill parts seq ss = true).
Proof. intros p fill ss. split; [intros parts seq; apply carrier_checkb_sound|apply carrier_checkb_complete]. Qed.
Print Assumptions C04_decider.

(* non-vacuity: a real two-part type 5 message (static and voyage data, 424 bits = 71 characters, 2 fill bits) handed
   over in REVERSED order, the parts with different talkers, type words, channels, checksums (both wrong), a tag block
   on one and CR LF / a blank after them:
       \g:2-2-5*6F\!ABVDO,2,2,7,B,F@V@00000000000,2*5A<CR><LF>
       !BSvdm,2,1,7,1,538CQ>02A;h?D9QC800pu8@T>0P4l9E8L0000017Ah:;;5r50Ahm5;C0,0*00<blank>
   is a carrier of the payload, the model decodes it to a MessageType5, the same as the plain carrier's. *)
Definition ex_p1 : bytestr :=
  [53; 51; 56; 67; 81; 62; 48; 50; 65; 59; 104; 63; 68; 57; 81; 67; 56; 48; 48; 112; 117; 56; 64; 84; 62; 48; 80; 52;
   108; 57; 69; 56; 76; 48; 48; 48; 48; 48; 49; 55; 65; 104; 58; 59; 59; 53; 114; 53; 48; 65; 104; 109; 53; 59; 67; 48].
Definition ex_p2 : bytestr := [70; 64; 86; 64; 48; 48; 48; 48; 48; 48; 48; 48; 48; 48; 48].
Definition ex_o1 : carrier_opts := mkOpts [66; 83] [118; 100; 109] [49] [48; 48] None [32].
Definition ex_o2 : carrier_opts :=
  mkOpts [65; 66] [86; 68; 79] [66] [53; 65] (Some [103; 58; 50; 45; 50; 45; 53; 42; 54; 70]) [13; 10].
Definition ex_ss : list bytestr := [sentence_text ex_o2 2 2 (Some 7%nat) ex_p2 2; sentence_text ex_o1 2 1 (Some 7%nat) ex_p1 0].

Example C04_nonvacuous :
  ex_p1 ++ ex_p2 <> [] /\ forallb is_armor (ex_p1 ++ ex_p2) = true /\ is_carrier (ex_p1 ++ ex_p2) 2 ex_ss /\
  is_carrier (ex_p1 ++ ex_p2) 2 (plain_carrier (ex_p1 ++ ex_p2) 2) /\
  (exists vs, message_of (decode_api false ex_ss) = Ok (MessageType5, vs)) /\
  message_of (decode_api false ex_ss) = message_of (decode_api false (plain_carrier (ex_p1 ++ ex_p2) 2)).
Proof.
  split; [discriminate|]. split; [reflexivity|].
  split; [apply (carrier_checkb_sound _ _ [(ex_p1, ex_o1); (ex_p2, ex_o2)] (Some 7%nat)); vm_compute; reflexivity|].
  split; [apply (carrier_checkb_sound _ _ [(ex_p1 ++ ex_p2, plain_opts)] None); vm_compute; reflexivity|].
  split; [eexists; vm_compute; reflexivity|vm_compute; reflexivity].
Qed.

(* The limit of MAX_PAYLOAD_LEN characters per sentence that AISSentence.__init__ enforces (regenerated from
   pyais/messages.py into Gen/GenConst.v on every run) admits every sentence of the family. *)
Theorem C04_limit_tied : Z.of_nat max_chunk <= MAX_PAYLOAD_LEN /\ 5 <= MAX_FRAG_CNT.
Proof. split; discriminate. Qed.
Print Assumptions C04_limit_tied.
