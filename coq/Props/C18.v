(* C18 -- a Gatehouse wrapper is attached to the next delivered message only.
   Statements only; proofs in Proofs/AssembleProofs.v.  spec_wrapper / events / fresh_line: Spec/AssembleSpec.v. *)
From Coq Require Import ZArith List Bool.
Require Import Prim.Exn Prim.Bits Prim.PyList Model.Sentence Model.AssembleIter Model.Assemble Spec.AssembleSpec
               Proofs.AssembleProofs Proofs.AssembleBounded.
Import ListNotations.
Open Scope Z_scope.

(* For EVERY sequence of lines -- given as the outcomes of parsing (sentence or exception) and of the optional tag block
   queue; wrapper lines with valid dates parse to a Gatehouse sentence, invalid ones to an exception --, complete or not,
   well-formed or not, up to the point where an exception leaves the loop: the wrappers carried by the delivered messages
   are those the specification prescribes for the wrapper lines read and the positions at which messages were delivered.
   [fresh_line]: what the parser returns has wrapper_msg = None (NMEASentence.__init__). *)
Theorem C18_stream : forall ins, Forall fresh_line ins ->
  map (map a_wrapper) (fst (asm_run stream_step asm_init ins)) =
  spec_wrapper (asm_events ins (map has_delivery (fst (asm_run stream_step asm_init ins)))).
Proof. exact stream_wrappers_correct. Qed.
Print Assumptions C18_stream.

Theorem C18_queue : forall ins, Forall fresh_line ins ->
  map (map a_wrapper) (fst (asm_run queue_step asm_init ins)) =
  spec_wrapper (asm_events ins (map has_delivery (fst (asm_run queue_step asm_init ins)))).
Proof. exact queue_wrappers_correct. Qed.
Print Assumptions C18_queue.

(* Together with C03: on a well-formed schedule both the deliveries and the wrapper each of them carries are determined
   by the two specifications alone (no reference to the run on the right-hand sides). *)
Theorem C18_schedules_stream : forall s, WF s -> (forall f, In (IFrag f) s -> a_wrapper (sf_sent f) = None) ->
  exists outs st, asm_run stream_step asm_init (schedule_lines s) = (outs, Ok st) /\
                  map (map delivery_of) outs = spec_deliveries s /\
                  map (map a_wrapper) outs = spec_wrapper (schedule_events s (spec_deliveries s)).
Proof. exact stream_schedule_correct. Qed.
Print Assumptions C18_schedules_stream.

Theorem C18_schedules_queue : forall s, WF s -> (forall f, In (IFrag f) s -> a_wrapper (sf_sent f) = None) ->
  exists outs st, asm_run queue_step asm_init (schedule_lines s) = (outs, Ok st) /\
                  map (map delivery_of) outs = spec_deliveries s /\
                  map (map a_wrapper) outs = spec_wrapper (schedule_events s (spec_deliveries s)).
Proof. exact queue_schedule_correct. Qed.
Print Assumptions C18_schedules_queue.

(* the clauses of the property, read off the specification *)
Theorem C18_unwrapped_has_none : forall evs, no_wrap evs -> Forall (Forall (eq None)) (spec_wrapper evs).
Proof. exact spec_wrapper_none. Qed.
Print Assumptions C18_unwrapped_has_none.

Theorem C18_at_most_one : forall p r, spec_wrapper_from p (EDeliver :: r) = [p] :: spec_wrapper_from None r.
Proof. exact spec_wrapper_consumed. Qed.
Print Assumptions C18_at_most_one.

Theorem C18_latest : forall p g r, spec_wrapper_from p (EWrap g :: r) = [] :: spec_wrapper_from (Some g) r.
Proof. exact spec_wrapper_latest. Qed.
Print Assumptions C18_latest.

(* ---------------------------------------------------------------- non-vacuity and the repaired defect *)

Definition ex_common (raw : Z) : nmea_common := mkCommon [raw] [33] [65; 73] [86; 68; 77] 0 0 true [] None.
Definition ex_ais (cnt num : Z) (seq : option Z) (raw : Z) : ais_sentence :=
  mkAis (ex_common raw) cnt num seq [65] [raw] [true] 1 None.
Definition ex_gh (day : Z) : gatehouse := mkGh (ex_common 36) (mkTs 2024 2 day 23 59 58 999000) [50] [] [55] 1.

(* wrapper(1), wrapper(2), fragment 2/2, unparsable wrapper, wrapper(3) directly before the last fragment, fragment 1/2
   (delivers with wrapper 3), single (no wrapper), wrapper(4), single (wrapper 4) *)
Definition ex_inputs : list asm_input :=
  [ (Ok (SGatehouse (ex_gh 1)), None); (Ok (SGatehouse (ex_gh 2)), None); (Ok (SAis (ex_ais 2 2 (Some 3) 102)), None);
    (Raise (Lib InvalidNMEAMessageException), None); (Ok (SGatehouse (ex_gh 3)), None);
    (Ok (SAis (ex_ais 2 1 (Some 3) 101)), None); (Ok (SAis (ex_ais 1 1 None 120)), None);
    (Ok (SGatehouse (ex_gh 4)), None); (Ok (SAis (ex_ais 1 1 (Some 0) 121)), None) ].

Example C18_nonvacuous :
  Forall fresh_line ex_inputs /\
  map (map a_wrapper) (fst (asm_run stream_step asm_init ex_inputs)) =
    [ []; []; []; []; []; [Some (ex_gh 3)]; [None]; []; [Some (ex_gh 4)] ] /\
  map (map a_wrapper) (fst (asm_run queue_step asm_init ex_inputs)) =
    [ []; []; []; []; []; [Some (ex_gh 3)]; [None]; []; [Some (ex_gh 4)] ].
Proof. split; [repeat constructor|split; vm_compute; reflexivity]. Qed.

(* NMEAQueue.put_line as it was before the fix: the assembled message loses its wrapper, the next single gets it *)
Example C18_unrepaired_queue_refuted :
  map (map a_wrapper) (fst (asm_run queue_step_unrepaired asm_init ex_inputs)) =
    [ []; []; []; []; []; [None]; [Some (ex_gh 3)]; []; [Some (ex_gh 4)] ] /\
  map (map a_wrapper) (fst (asm_run queue_step_unrepaired asm_init ex_inputs)) <>
  spec_wrapper (asm_events ex_inputs (map has_delivery (fst (asm_run queue_step_unrepaired asm_init ex_inputs)))).
Proof. split; [vm_compute; reflexivity|vm_compute; discriminate]. Qed.

(* ================================================================ BACKPRESSURE EXTENSION OF THE NMEAQueue CLAUSE

   Bounded queue, puts that may raise queue.Full (queue_step_b, Model/Assemble.v; see Props/C03.v).  put_line takes and
   clears the pending wrapper BEFORE the put, so a refused message takes its wrapper with it: the wrapper is never
   attached to a later message.  In the specification a put that was attempted -- accepted or refused -- counts as the
   delivery that consumes the pending wrapper. *)

(* every sequence of lines, every pattern of accepted / refused puts *)
Theorem C18_bounded_queue : forall ios : list bq_input, Forall fresh_line (map fst ios) ->
  let outs := fst (bq_run queue_step_b asm_init ios) in
  map (map a_wrapper) (map bq_outs outs) =
  spec_accepted (map bq_accepts (map snd ios)) (spec_wrapper (asm_events (map fst ios) (map bq_attempted outs))).
Proof. exact bq_wrappers_correct. Qed.
Print Assumptions C18_bounded_queue.

(* on well-formed schedules, right-hand sides pure specification: the messages on the queue and their wrappers are those
   of the unbounded reader at the accepted lines; queue.Full exactly at the refused ones *)
Theorem C18_bounded_schedules : forall s (ios : list bq_input), WF s ->
  (forall f, In (IFrag f) s -> a_wrapper (sf_sent f) = None) -> map fst ios = schedule_lines s ->
  exists outs st, bq_run queue_step_b asm_init ios = (outs, Ok st) /\
    map (map delivery_of) (map bq_outs outs) = spec_accepted (map bq_accepts (map snd ios)) (spec_deliveries s) /\
    map (map a_wrapper) (map bq_outs outs) =
      spec_accepted (map bq_accepts (map snd ios)) (spec_wrapper (schedule_events s (spec_deliveries s))) /\
    map bq_is_full outs = spec_refused (map bq_accepts (map snd ios)) (spec_deliveries s).
Proof. exact bq_schedule_correct. Qed.
Print Assumptions C18_bounded_schedules.

(* the inputs above; the put of the assembled message (line 5, wrapper 3) is refused and so is the put of the last single
   (line 8, wrapper 4): the single at line 6 is delivered WITHOUT a wrapper although wrapper 3 was never delivered *)
Definition ex_puts : list bq_put :=
  [BqPutOk; BqPutOk; BqPutOk; BqPutOk; BqPutOk; BqPutFull; BqPutOk; BqPutOk; BqPutFull].

Example C18_bounded_nonvacuous :
  let outs := fst (bq_run queue_step_b asm_init (combine ex_inputs ex_puts)) in
  map (fun o => map a_wrapper (bq_outs o)) outs = [ []; []; []; []; []; []; [None]; []; [] ] /\
  map bq_is_full outs = [false; false; false; false; false; true; false; false; true] /\
  snd (bq_run queue_step_b asm_init (combine ex_inputs ex_puts)) = Ok ([], None).
Proof. cbv zeta. split; [|split]; vm_compute; reflexivity. Qed.
