(* C03 -- multipart reassembly is correct under any interleaving and arrival order.
   Statements only; proofs in Proofs/AssembleProofs.v.  stream_step / queue_step (Model/Assemble.v) are the
   statement-by-statement models of AssembleMessages._assemble_messages (pyais/stream.py) and NMEAQueue.put_line
   (pyais/queue.py); spec_deliveries, WF, schedule_lines are in Spec/AssembleSpec.v. *)
From Coq Require Import ZArith List Bool.
Require Import Prim.Exn Prim.Bits Prim.PyList Model.Sentence Model.AssembleIter Model.Assemble Spec.AssembleSpec
               Proofs.AssembleProofs Proofs.AssembleBounded.
Import ListNotations.
Open Scope Z_scope.

(* Every well-formed schedule -- any number of messages, any interleaving, any per-message arrival order of the
   fragments, slots reused after completion, incomplete sets, any fragment count >= 1 (no upper bound is needed: the
   array has max(count, 255) cells), wrapper lines and skipped lines in between -- makes the stream reader's loop
   deliver, line by line, exactly what the specification prescribes, and no exception leaves the loop. *)
Theorem C03_stream : forall s, WF s ->
  exists outs st, asm_run stream_step asm_init (schedule_lines s) = (outs, Ok st) /\
                  map (map delivery_of) outs = spec_deliveries s.
Proof. exact stream_deliveries_correct. Qed.
Print Assumptions C03_stream.

(* the same for NMEAQueue.put_line *)
Theorem C03_queue : forall s, WF s ->
  exists outs st, asm_run queue_step asm_init (schedule_lines s) = (outs, Ok st) /\
                  map (map delivery_of) outs = spec_deliveries s.
Proof. exact queue_deliveries_correct. Qed.
Print Assumptions C03_queue.

(* fragments of different (sequence id, channel) streams never mix: a step touches only the slot of the arriving
   fragment (any state, any input, no well-formedness needed) *)
Theorem C03_slot_independence_stream : forall buf w p t st' out s,
  stream_step (buf, w) p t = Ok (st', out) -> (forall a, p = Ok (SAis a) -> s <> slot_of a) ->
  buf_get (fst st') s = buf_get buf s.
Proof. exact stream_slot_independence. Qed.
Print Assumptions C03_slot_independence_stream.

Theorem C03_slot_independence_queue : forall buf w p t st' out s,
  queue_step (buf, w) p t = Ok (st', out) -> (forall a, p = Ok (SAis a) -> s <> slot_of a) ->
  buf_get (fst st') s = buf_get buf s.
Proof. exact queue_slot_independence. Qed.
Print Assumptions C03_slot_independence_queue.

(* one fragment of a multi-sentence message: the slot then holds exactly the fragments of that message received so far
   (Inv), it is delivered iff this was its last missing fragment, assembled in fragment-number order *)
Theorem C03_single_slot_correct : forall seen f rest buf,
  WF_frags (seen ++ f :: rest) -> f_single f = false -> Inv seen buf ->
  exists buf' o, buffer_step buf (sf_sent f) = Ok (buf', o) /\ Inv (seen ++ [f]) buf' /\
    (if completes f (seen ++ [f])
     then exists full, o = Some full /\ delivery_of full = spec_assemble f (seen ++ [f])
     else o = None).
Proof. exact buffer_step_correct. Qed.
Print Assumptions C03_single_slot_correct.

(* single-sentence messages are delivered immediately, whatever the buffer holds, and leave it untouched *)
Theorem C03_singles_immediate : forall buf w a, is_single a = true ->
  stream_step (buf, w) (Ok (SAis a)) None = Ok ((buf, None), [attach w a]) /\
  queue_step (buf, w) (Ok (SAis a)) None = Ok ((buf, None), [attach w a]).
Proof. exact singles_immediate. Qed.
Print Assumptions C03_singles_immediate.

(* the boolean check the harness applies to every sequence it hands to the oracles implies well-formedness *)
Theorem C03_wf_check_sound : forall s, asm_wf_check s = true -> WF s.
Proof. exact wf_check_sound. Qed.
Print Assumptions C03_wf_check_sound.

(* ---------------------------------------------------------------- non-vacuity *)

Definition ex_common (raw : Z) (valid : bool) : nmea_common := mkCommon [raw] [33] [65; 73] [86; 68; 77] 0 0 valid [] None.
Definition ex_frag (msg : nat) (cnt num : Z) (seq : option Z) (chan raw : Z) (valid : bool) : sfrag :=
  mkSF msg (mkAis (ex_common raw valid) cnt num seq [chan] [raw; raw] [true; false] 1 None).
Definition ex_gatehouse : gatehouse := mkGh (ex_common 36 true) (mkTs 2024 2 29 23 59 58 999000) [50] [] [55] 1.

(* message 0 = (seq 1, channel A) 2 fragments arriving 2,1; message 1 = (seq 1, channel B) 2 fragments interleaved with
   it; message 2 a single; message 3 reuses slot (1, A) after message 0 completed and stays incomplete *)
Definition ex_schedule : asm_schedule :=
  [ IFrag (ex_frag 0 2 2 (Some 1) 65 102 true); IFrag (ex_frag 1 2 1 (Some 1) 66 111 true); IWrapper ex_gatehouse;
    IFrag (ex_frag 0 2 1 (Some 1) 65 101 false); ISkipped UnknownMessageException; IFrag (ex_frag 2 1 1 None 65 120 true);
    IFrag (ex_frag 3 2 1 (Some 1) 65 121 true); IFrag (ex_frag 1 2 2 (Some 1) 66 112 true) ].

Example C03_nonvacuous :
  WF ex_schedule /\ asm_wf_check ex_schedule = true /\
  spec_deliveries ex_schedule =
    [ []; []; [];
      [mkDelivery [101; 10; 102] [101; 101; 102; 102] [true; false; true; false] false (Some 1) [65]];
      []; [mkDelivery [120] [120; 120] [true; false] true None [65]]; [];
      [mkDelivery [111; 10; 112] [111; 111; 112; 112] [true; false; true; false] true (Some 1) [66]] ] /\
  map (map delivery_of) (fst (asm_run stream_step asm_init (schedule_lines ex_schedule))) = spec_deliveries ex_schedule.
Proof.
  split; [|split; [|split]; vm_compute; reflexivity].
  split.
  - constructor.
    + intros f H. simpl in H. repeat (destruct H as [H|H]; [subst f; vm_compute; split; discriminate|]). destruct H.
    + intros f g Hf Hg. simpl in Hf, Hg.
      repeat (destruct Hf as [Hf|Hf]; [subst f|]); try destruct Hf;
      repeat (destruct Hg as [Hg|Hg]; [subst g|]); try destruct Hg; intro E; try discriminate E; repeat split.
    + intro m. destruct m as [|[|[|[|m]]]]; vm_compute; repeat constructor; simpl; intuition discriminate.
    + intros p f r E Hs g Hg Hsg Hslot Hm. simpl in E.
      do 7 (destruct p as [|? p]; simpl in E;
            [inversion E; subst; clear E; simpl in Hg;
             repeat (destruct Hg as [Hg|Hg]; [subst g; try discriminate; try (exfalso; apply Hm; reflexivity); try reflexivity|]);
             try destruct Hg|]);
      try discriminate; try (inversion E; destruct p; discriminate).
  - intros e H. simpl in H. repeat (destruct H as [H|H]; [try discriminate H; inversion H; reflexivity|]). destruct H.
Qed.

(* ================================================================ BACKPRESSURE EXTENSION OF THE NMEAQueue CLAUSES

   NMEAQueue(maxsize=n) with put_line(line, block=False) (or a timeout): the final put of put_line may raise queue.Full.
   queue_step_b (Model/Assemble.v) is put_line with that put made explicit; per line the environment says whether the put
   would be accepted (BqPutOk / BqPutFull) -- the capacity arithmetic and the consumer are NOT modelled, so everything below
   holds for every capacity and every consumer.  The caller catches queue.Full and goes on with the next line (it does not
   offer the refused line again).  Proofs in Proofs/AssembleBounded.v.

   Backpressure only drops whole messages: state, deliveries and wrappers are those of the unbounded queue, minus the
   messages whose put was refused; queue.Full is raised exactly for those. *)

(* one call, any state, any line, either answer: same state afterwards as the unbounded call, same exception if it raises
   one, and its delivery (if any) is what is put -- or refused *)
Theorem C03_bounded_step : forall st p t env,
  queue_step_b st p t env =
  match queue_step st p t with
  | Raise e => Raise e
  | Ok (st', out) => Ok (st', bq_gate env out)
  end.
Proof. exact queue_step_b_gate. Qed.
Print Assumptions C03_bounded_step.

(* with every put accepted the bounded queue IS the unbounded queue: everything above transfers *)
Theorem C03_bounded_all_accepted : forall ins st,
  (map bq_outs (fst (bq_run queue_step_b st (map (fun i => (i, BqPutOk)) ins))),
   snd (bq_run queue_step_b st (map (fun i => (i, BqPutOk)) ins))) = asm_run queue_step st ins.
Proof. exact bq_run_all_accepted. Qed.
Print Assumptions C03_bounded_all_accepted.

(* every sequence of lines, every pattern of accepted / refused puts, from any state: (1) same end -- final buffer and
   pending wrapper, or the same escaping exception at the same line --, (2) the sentences put on the queue are the
   unbounded queue's deliveries at the accepted lines, the very same records, (3) queue.Full exactly at the lines where
   the unbounded queue delivers and the put is refused, (4) a put is attempted exactly where the unbounded queue delivers *)
Theorem C03_bounded_backpressure : forall (ios : list bq_input) st,
  let b := bq_run queue_step_b st ios in
  let u := asm_run queue_step st (map fst ios) in
  let accepted := map bq_accepts (map snd ios) in
  snd b = snd u /\
  map bq_outs (fst b) = spec_accepted accepted (fst u) /\
  map bq_is_full (fst b) = spec_refused accepted (fst u) /\
  map bq_attempted (fst b) = map has_delivery (fst u).
Proof. exact bq_backpressure. Qed.
Print Assumptions C03_bounded_backpressure.

(* ... and so is the state after EVERY line, not only the last *)
Theorem C03_bounded_states : forall (ios : list bq_input) st n,
  snd (bq_run queue_step_b st (firstn n ios)) = snd (asm_run queue_step st (map fst (firstn n ios))).
Proof. exact bq_states_equal. Qed.
Print Assumptions C03_bounded_states.

(* nothing is ever on a bounded queue that the unbounded queue did not deliver at the same line *)
Theorem C03_bounded_nothing_new : forall (ios : list bq_input) st i a,
  nth_error (fst (bq_run queue_step_b st ios)) i = Some (BqPut a) ->
  nth_error (fst (asm_run queue_step st (map fst ios))) i = Some [a].
Proof. exact bq_delivered_sub. Qed.
Print Assumptions C03_bounded_nothing_new.

(* C03 under backpressure.  On every well-formed schedule and for every pattern of accepted / refused puts: no exception
   other than queue.Full; the deliveries are the specified ones at the accepted lines -- hence each delivered message is
   one complete fragment set in fragment-number order, delivered at the arrival of its last fragment and never again, and
   no delivered message mixes fragments of two messages --; queue.Full is raised exactly where a message is due and the put
   is refused; the slot table ends as that of the unbounded queue (a refused message leaves nothing behind). *)
Theorem C03_bounded_queue : forall s (ios : list bq_input), WF s -> map fst ios = schedule_lines s ->
  exists outs st, bq_run queue_step_b asm_init ios = (outs, Ok st) /\
    snd (asm_run queue_step asm_init (schedule_lines s)) = Ok st /\
    map (map delivery_of) (map bq_outs outs) = spec_accepted (map bq_accepts (map snd ios)) (spec_deliveries s) /\
    map bq_is_full outs = spec_refused (map bq_accepts (map snd ios)) (spec_deliveries s).
Proof. exact bq_deliveries_correct. Qed.
Print Assumptions C03_bounded_queue.

(* non-vacuity: the schedule above with the put of its first assembled message (line 3, message 0 in slot (1, A)) refused.
   Message 0 is dropped whole; message 3, which uses slot (1, A) next, is not delivered by its first fragment. *)
Definition ex_puts : list bq_put := [BqPutOk; BqPutOk; BqPutOk; BqPutFull; BqPutOk; BqPutOk; BqPutOk; BqPutOk].
Definition ex_ios : list bq_input := combine (schedule_lines ex_schedule) ex_puts.

Example C03_bounded_nonvacuous :
  map fst ex_ios = schedule_lines ex_schedule /\
  map (fun o => map delivery_of (bq_outs o)) (fst (bq_run queue_step_b asm_init ex_ios)) =
    [ []; []; []; []; []; [mkDelivery [120] [120; 120] [true; false] true None [65]]; [];
      [mkDelivery [111; 10; 112] [111; 111; 112; 112] [true; false; true; false] true (Some 1) [66]] ] /\
  map bq_is_full (fst (bq_run queue_step_b asm_init ex_ios)) = [false; false; false; true; false; false; false; false].
Proof. split; [|split]; vm_compute; reflexivity. Qed.

(* why the ORDER `del self.buffer[slot]` before `super().put(...)` matters (put_line with the two statements exchanged is
   queue_step_b_put_before_del; it is not the code): the refused message 0 stays in slot (1, A), and the first fragment of
   message 3 (raw 121) is delivered at once together with the second fragment of message 0 (raw 102) -- a message nobody
   sent.  The statement of C03_bounded_queue is false of that variant. *)
Example C03_put_before_del_mixes_messages :
  nth 6 (map (fun o => map delivery_of (bq_outs o)) (fst (bq_run queue_step_b_put_before_del asm_init ex_ios))) [] =
    [mkDelivery [121; 10; 102] [121; 121; 102; 102] [true; false; true; false] true (Some 1) [65]] /\
  nth 6 (spec_accepted (map bq_accepts (map snd ex_ios)) (spec_deliveries ex_schedule)) [] = [].
Proof. split; vm_compute; reflexivity. Qed.
