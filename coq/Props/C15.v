(* C15 -- tracker events mirror the life cycle of each track.
   Statements only; proofs live in Proofs/TrackerProofs.v.

   r_calls res               the `self._broker.propagate(track, event)` calls of one operation, in order
   abs_calls                 the same as (event, mmsi) pairs
   run_events                all of them over a whole run
   sp_alive m trace          runs the automaton (CREATED UPDATED* DELETED)* on the events of MMSI m:
                             Some true = legal, alive; Some false = legal, dead; None = the trace left the language
   sp_expected_events        the events one operation owes MMSI m: CREATED exactly when it gains a track, UPDATED for a
                             further accepted update, DELETED exactly once when its track goes away, nothing otherwise *)
From Coq Require Import ZArith List Bool.
Require Import Prim.Exn Prim.IntDict Model.Tracker Spec.TrackerSpec Proofs.TrackerProofs.
Import ListNotations.
Open Scope Z_scope.

(* For every history and every MMSI: the events stay inside the language and "alive" is "has a track", at every
   moment (h ranges over all histories, so over all prefixes as well). *)
Theorem C15_lifecycle : forall (V : Type) (nattrs : nat) (ttl : option Z) (ordered : bool) (h : list (trk_op V)) (m : Z),
  let run := trk_run nattrs (trk_init ttl ordered) h in
  sp_alive m (run_events (snd run)) = Some (idict_mem (t_tracks (fst run)) m).
Proof. exact (fun V => @events_lifecycle V). Qed.
Print Assumptions C15_lifecycle.

(* What each single operation emits, for every MMSI, from every reachable state -- update (accepted or rejected),
   pop_track, cleanup (expiry), callback registration: exactly the events the life cycle owes, in order. *)
Theorem C15_events_of_a_step : forall (V : Type) (nattrs : nat) (st : trk_tracker V) (op : trk_op V) (m : Z),
  reachable nattrs st ->
  let res := trk_step nattrs st op in
  sp_events_of m (abs_calls (r_calls res)) =
    sp_expected_events (step_target op res) m (idict_mem (t_tracks st) m) (idict_mem (t_tracks (r_state res)) m) /\
  (idict_mem (t_tracks st) m = false -> step_target op res <> Some m ->
   idict_mem (t_tracks (r_state res)) m = false).
Proof. exact (fun V => @step_events_reachable V). Qed.
Print Assumptions C15_events_of_a_step.

(* A rejected update emits nothing (and changes nothing). *)
Theorem C15_rejected_emits_nothing : forall (V : Type) (nattrs : nat) (st : trk_tracker V) now (msg : trk_msg V) ts,
  reachable nattrs st ->
  let res := trk_step nattrs st (OpUpdate now msg ts) in
  r_exn res <> None -> r_calls res = [] /\ r_state res = st.
Proof. exact (fun V => @rejected_emits_nothing V). Qed.
Print Assumptions C15_rejected_emits_nothing.

(* non-vacuity: creation, update, rejected update, expiry of one vessel while the other stays, pop, re-creation *)
Example C15_nonvacuous :
  let h := [OpUpdate 0 (mkMsg 111 [MPresent (Some 1)]) None;
            OpUpdate 1 (mkMsg 111 [MPresent (Some 2)]) None;
            OpUpdate 1 (mkMsg 111 [MPresent (Some 3)]) (Some 0);
            OpUpdate 30 (mkMsg 222 [MPresent (Some 4)]) None;
            OpPop 222;
            OpUpdate 31 (mkMsg 111 [MPresent (Some 5)]) None] in
  let run := trk_run 1 (trk_init (Some 20) false) h in
  run_events (snd run) =
    [(SCreated, 111); (SUpdated, 111); (SCreated, 222); (SDeleted, 111); (SDeleted, 222); (SCreated, 111)] /\
  sp_alive 111 (run_events (snd run)) = Some true /\ sp_alive 222 (run_events (snd run)) = Some false /\
  sp_alive 111 [(SCreated, 111); (SCreated, 111)] = None.
Proof. vm_compute. repeat split. Qed.
