(* C15 -- tracker events mirror the life cycle of each track.
   Statements only; proofs live in Proofs/TrackerCbProofs.v.  The model is the general one (Model/Tracker.v `trkc_step`):
   the subscriber callbacks may raise.  A history is a list of (environment, operation): the environment says what
   every callback does during that operation (Props/C13.v explains `trk_env`, `reachable_any`).  Operations: update,
   cleanup, pop_track, register / remove_callback, the public insert_or_update() (no ordering check, no cleanup),
   assignments to ttl_in_seconds and stream_is_ordered = False.

   rc_calls res              the `self._broker.propagate(track, event)` calls the operation started, in order
   abs_calls                 the same as (event, mmsi) pairs;  run_events_c: all of them over a whole run
   rc_deliv res              the callback invocations (callback, event, track) of the operation, in order
   sp_alive m trace          runs the automaton (CREATED UPDATED* DELETED)* on the events of MMSI m:
                             Some true = legal, alive; Some false = legal, dead; None = the trace left the language
   sp_expected_events        the events one operation owes MMSI m: CREATED exactly when it gains a track, UPDATED for a
                             further accepted update, DELETED exactly once when its track goes away, nothing otherwise
   sp_cut raises l           the subscribers l up to and including the first one that raises

   Two layers: WHICH events are emitted (the propagate calls) follows the life cycle whatever the subscribers do -- every
   change of the table is followed by its propagate call before anything can fail --; TO WHOM each event goes is the
   subscriber loop, which a raising subscriber cuts short (C15_deliveries, C15_delivery_truncated). *)
From Coq Require Import ZArith List Bool.
Require Import Prim.Exn Prim.IntDict Model.Tracker Spec.TrackerSpec Proofs.TrackerProofs Proofs.TrackerCbProofs.
Import ListNotations.
Open Scope Z_scope.

(* For every history, every behaviour of the subscribers (also operations left by their exceptions) and every MMSI: the
   events stay inside the language and "alive" is "has a track", at every moment (h ranges over all histories, so over
   all prefixes as well). *)
Theorem C15_lifecycle : forall (V : Type) (nattrs : nat) (ttl : option Z) (ordered : bool)
                               (h : list (trk_env V * trk_op V)) (m : Z),
  trkc_run_ok nattrs (trk_init ttl ordered) h ->
  let run := trkc_run nattrs (trk_init ttl ordered) h in
  sp_alive m (run_events_c (snd run)) = Some (idict_mem (t_tracks (fst run)) m).
Proof. exact (fun V => @events_lifecycle_c V). Qed.
Print Assumptions C15_lifecycle.

(* trkc_run_ok: every environment enumerates the set of expired MMSIs (env_ok) and every `insert_or_update()` handed to an
   ORDERED tracker carries a timestamp that is not older than a track (Props/C12.v explains the caveat).  Histories
   without that operation satisfy it as soon as their environments do: *)
Theorem C15_ok_without_insert_or_update : forall (V : Type) (nattrs : nat) (h : list (trk_env V * trk_op V)) (st : trk_tracker V),
  (forall x, In x h -> env_ok (fst x)) -> (forall env now msg ts, ~ In (env, OpInsertOrUpdate now msg ts) h) ->
  trkc_run_ok nattrs st h.
Proof. exact (fun V => @runc_ok_without_insert V). Qed.
Print Assumptions C15_ok_without_insert_or_update.

(* What each single operation emits, for every MMSI, from every state -- update (accepted or rejected, returning or left
   by a subscriber's exception), pop_track, cleanup (complete or left in the middle), callback registration: exactly the
   events the life cycle owes for the change of the table it made, in order.  step_target_c = the MMSI of an accepted
   update (one that got as far as propagating CREATED / UPDATED). *)
Theorem C15_events_of_a_step : forall (V : Type) (nattrs : nat) (env : trk_env V) (st : trk_tracker V) (op : trk_op V) (m : Z),
  reachable_any nattrs st ->
  let res := trkc_step nattrs env st op in
  sp_events_of m (abs_calls (rc_calls res)) =
    sp_expected_events (step_target_c op res) m (idict_mem (t_tracks st) m) (idict_mem (t_tracks (rc_state res)) m) /\
  (idict_mem (t_tracks st) m = false -> step_target_c op res <> Some m ->
   idict_mem (t_tracks (rc_state res)) m = false).
Proof. exact (fun V => @step_events_reachable_c V). Qed.
Print Assumptions C15_events_of_a_step.

(* A rejected update (older than its own track or, ordered mode, than some track -- exactly these) calls nobody,
   changes nothing and raises ValueError; every other update propagates CREATED / UPDATED. *)
Theorem C15_rejected_emits_nothing : forall (V : Type) (nattrs : nat) (env : trk_env V) (st : trk_tracker V) now (msg : trk_msg V) ts,
  reachable_any nattrs st ->
  let res := trkc_step nattrs env st (OpUpdate now msg ts) in
  (rc_calls res = [] <-> upd_rejected st (m_mmsi msg) (msg_ts ts now)) /\
  (rc_calls res = [] -> rc_state res = st /\ rc_deliv res = [] /\ rc_exn res = Some (Py ValueError)).
Proof. exact (fun V => @rejected_unchanged_c V). Qed.
Print Assumptions C15_rejected_emits_nothing.

(* To whom: the callback invocations of an operation are those of its propagate calls, call after call; each call goes to
   the subscribers of its event in registration order, up to and including the first one that raises. *)
Theorem C15_deliveries : forall (V : Type) (nattrs : nat) (env : trk_env V) (st : trk_tracker V) (op : trk_op V),
  reachable_any nattrs st ->
  rc_deliv (trkc_step nattrs env st op) =
    flat_map (fun c => map (fun cb => (cb, fst c, snd c))
                           (sp_cut (cb_raises env (fst c) (snd c)) (subscribers (t_broker st) (fst c))))
             (rc_calls (trkc_step nattrs env st op)).
Proof. exact (fun V => @deliveries_of_calls V). Qed.
Print Assumptions C15_deliveries.

(* What the cut means: a subscriber in front of which every subscriber returns is reached; behind a subscriber that
   raises nobody is; if nobody raises everybody is. *)
Theorem C15_delivery_reaches : forall (A : Type) (raises : A -> bool) (l1 l2 : list A) (c : A),
  (forall x, In x l1 -> raises x = false) -> exists rest, sp_cut raises (l1 ++ c :: l2) = l1 ++ c :: rest.
Proof. exact (fun A => @cut_reaches A). Qed.
Print Assumptions C15_delivery_reaches.

Theorem C15_delivery_truncated : forall (A : Type) (raises : A -> bool) (l1 l2 : list A) (c x : A),
  In c l1 -> raises c = true -> ~ In x l1 -> ~ In x (sp_cut raises (l1 ++ l2)).
Proof. exact (fun A => @cut_hides A). Qed.
Print Assumptions C15_delivery_truncated.

Theorem C15_delivery_complete : forall (A : Type) (raises : A -> bool) (l : list A),
  (forall x, In x l -> raises x = false) -> sp_cut raises l = l.
Proof. exact (fun A => @cut_all A). Qed.
Print Assumptions C15_delivery_complete.

(* The registration list in force (`subscribers (t_broker st) event`, to which C15_deliveries refers): register_callback
   appends the pair -- whatever was registered or removed before --, so the callback IS a subscriber afterwards; registered,
   removed and registered again leaves the pair registered once, behind the others. *)
Theorem C15_registered_is_subscribed : forall (b : trk_broker) (ev : trk_event) (cb : Z),
  In cb (subscribers (brk_attach b ev cb) ev).
Proof. exact attach_subscribed. Qed.
Print Assumptions C15_registered_is_subscribed.

Theorem C15_registered_again : forall (b : trk_broker) (ev : trk_event) (cb : Z), ~ In (ev, cb) b ->
  brk_attach (brk_detach (brk_attach b ev cb) ev cb) ev cb = b ++ [(ev, cb)].
Proof. exact reattach. Qed.
Print Assumptions C15_registered_again.

(* A subscriber is the PAIR (event, callback), not the callable: registering a pair appends the callback to the subscribers of
   THAT event and leaves the subscribers of the other events as they were -- so one callable registered for CREATED, UPDATED
   and DELETED is a subscriber of all three --, and removing a pair leaves the other events' subscribers as they were. *)
Theorem C15_registration_is_per_pair : forall (b : trk_broker) (ev : trk_event) (cb : Z),
  subscribers (brk_attach b ev cb) ev = subscribers b ev ++ [cb] /\
  forall ev', trk_event_eqb ev' ev = false ->
    subscribers (brk_attach b ev cb) ev' = subscribers b ev' /\ subscribers (brk_detach b ev cb) ev' = subscribers b ev'.
Proof.
  exact (fun b ev cb => conj (subscribers_attach_same b ev cb)
           (fun ev' H => conj (subscribers_attach_other b ev cb ev' H) (subscribers_detach_other b ev cb ev' H))).
Qed.
Print Assumptions C15_registration_is_per_pair.

Example C15_nonvacuous_one_callable_three_events :
  let b := brk_attach (brk_attach (brk_attach [] CREATED 10) UPDATED 10) DELETED 10 in
  subscribers b CREATED = [10] /\ subscribers b UPDATED = [10] /\ subscribers b DELETED = [10] /\
  subscribers (brk_detach b UPDATED 10) DELETED = [10] /\ subscribers (brk_detach b UPDATED 10) UPDATED = [].
Proof. vm_compute. repeat split. Qed.

(* Which exception an operation raises: ValueError of a rejected update (nobody was called), or the exception of the LAST
   callback it invoked -- the one that cut the loop --, except that a KeyError of a DELETED callback never leaves. *)
Theorem C15_exception_origin : forall (V : Type) (nattrs : nat) (env : trk_env V) (st : trk_tracker V) (op : trk_op V) (e : exn),
  reachable_any nattrs st -> rc_exn (trkc_step nattrs env st op) = Some e ->
  (rc_calls (trkc_step nattrs env st op) = [] /\ rc_deliv (trkc_step nattrs env st op) = [] /\ e = Py ValueError) \/
  (exists pre cb ev tr, rc_deliv (trkc_step nattrs env st op) = pre ++ [(cb, ev, tr)] /\ e_cb env cb ev tr = CbRaise e /\
     (ev = DELETED -> exn_is_keyerror e = false)).
Proof. exact (fun V => @exception_origin V). Qed.
Print Assumptions C15_exception_origin.

(* non-vacuity: creation, update, rejected update, expiry of one vessel while the other stays, pop, re-creation *)
Example C15_nonvacuous :
  let q := @trk_env_quiet Z in
  let h := [(q, OpUpdate 0 (mkMsg 111 [MPresent (Some 1)]) None);
            (q, OpUpdate 1 (mkMsg 111 [MPresent (Some 2)]) None);
            (q, OpUpdate 1 (mkMsg 111 [MPresent (Some 3)]) (Some 0));
            (q, OpUpdate 30 (mkMsg 222 [MPresent (Some 4)]) None);
            (q, OpPop 222);
            (q, OpUpdate 31 (mkMsg 111 [MPresent (Some 5)]) None)] in
  let run := trkc_run 1 (trk_init (Some 20) false) h in
  run_events_c (snd run) =
    [(SCreated, 111); (SUpdated, 111); (SCreated, 222); (SDeleted, 111); (SDeleted, 222); (SCreated, 111)] /\
  sp_alive 111 (run_events_c (snd run)) = Some true /\ sp_alive 222 (run_events_c (snd run)) = Some false /\
  sp_alive 111 [(SCreated, 111); (SCreated, 111)] = None.
Proof. vm_compute. repeat split. Qed.

(* non-vacuity with subscribers that raise.  Subscribers, in registration order: 100 (DELETED, monitor), 7 (DELETED,
   raises KeyError for every track), 8 (DELETED), 7 (CREATED, raises ValueError for vessel 222).
   t=0  update(111): CREATED to 7, returns.
   t=13 update(222) (ttl 12): the track of 222 is inserted, CREATED goes to 7, which raises ValueError: update() raises
        ValueError after the CREATED call and before cleanup(): 111 (age 13) stays, no DELETED.
   t=13 cleanup(): oldest_timestamp is 0, 111 expires: DELETED goes to 100, then to 7, which raises KeyError -- swallowed;
        subscriber 8 never hears of it; cleanup() returns.
   The propagate calls (first line) follow the life cycle all the same. *)
Example C15_nonvacuous_raising :
  let en := @trk_env_of Z [(7, DELETED, None, Py KeyError); (7, CREATED, Some 222, Py ValueError)] [] in
  let h := [(en, OpAttach DELETED 100); (en, OpAttach DELETED 7); (en, OpAttach DELETED 8); (en, OpAttach CREATED 7);
            (en, OpUpdate 0 (mkMsg 111 [MPresent (Some 1)]) None);
            (en, OpUpdate 13 (mkMsg 222 [MPresent (Some 2)]) None);
            (en, OpCleanup 13)] in
  let run := trkc_run 1 (trk_init (Some 12) false) h in
  run_events_c (snd run) = [(SCreated, 111); (SCreated, 222); (SDeleted, 111)] /\
  map (@rc_exn Z) (snd run) = [None; None; None; None; None; Some (Py ValueError); None] /\
  map (fun r => map (fun d => (fst (fst d), tr_mmsi (snd d))) (rc_deliv r)) (snd run) =
    [[]; []; []; []; [(7, 111)]; [(7, 222)]; [(100, 111); (7, 111)]] /\
  map (@tr_mmsi Z) (trk_tracks (fst run)) = [222] /\
  sp_alive 111 (run_events_c (snd run)) = Some false /\ sp_alive 222 (run_events_c (snd run)) = Some true.
Proof. vm_compute. repeat split. Qed.


(* non-vacuity: subscriber 10 of UPDATED is removed and registered again; the update in between is not delivered to it,
   the ones after the re-registration are; the TTL is changed and the tracker switched to unordered on the way (these
   operations emit nothing) *)
Example C15_nonvacuous_reregistered :
  let q := @trk_env_quiet Z in
  let h := [(q, OpAttach UPDATED 10); (q, OpUpdate 0 (mkMsg 111 [MPresent (Some 1)]) (Some 0));
            (q, OpUpdate 0 (mkMsg 111 [MPresent (Some 1)]) (Some 1));
            (q, OpDetach UPDATED 10); (q, OpSetTtl (Some 5)); (q, OpUpdate 0 (mkMsg 111 [MPresent (Some 1)]) (Some 2));
            (q, OpAttach UPDATED 10); (q, OpUnordered); (q, OpUpdate 0 (mkMsg 111 [MPresent (Some 1)]) (Some 3))] in
  let run := trkc_run 1 (trk_init None true) h in
  map (fun r => map (fun d => (fst (fst d), tr_lu (snd d))) (rc_deliv r)) (snd run) =
    [[]; []; [(10, 1)]; []; []; []; []; []; [(10, 3)]] /\
  run_events_c (snd run) = [(SCreated, 111); (SUpdated, 111); (SUpdated, 111); (SUpdated, 111)].
Proof. vm_compute. repeat split. Qed.
