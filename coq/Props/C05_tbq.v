(* C05, tag block queue part -- feeding a reader with a tag block queue attached never raises a non-library exception
   because of the tag block.  Statements only; proofs in Proofs/TbqProofs.v and Proofs/TagBlockProofs.v.
   tbq_put = Model/Tbq.v (TagBlockQueue.put_sentence), calling tb_init = Model/TagBlock.v (the REPAIRED
   TagBlock.init()).  Quantified over every state of the queue, every sentence record, hence every byte string as
   tag block, and every oracle [uni] for int() of non-ASCII digits. *)
From Coq Require Import ZArith List Bool.
Require Import Prim.Exn Prim.PyText Model.Sentence Model.TagBlock Model.Tbq Proofs.TagBlockProofs Proofs.TbqProofs.
Import ListNotations.
Open Scope Z_scope.

Theorem C05_tbq_put_raises_only_lib : forall (uni : Z -> list Z -> option Z) (st : tbq_state) (s : sentence),
  match tbq_put uni st s with Raise (Py _) => False | _ => True end.
Proof. exact tbq_put_raises_only_lib. Qed.
Print Assumptions C05_tbq_put_raises_only_lib.

(* more precisely: the only exception is InvalidNMEAMessageException, which both reader loops catch and skip *)
Theorem C05_tbq_put_raise_is_invalid_nmea : forall uni st s e,
  tbq_put uni st s = Raise e -> e = Lib InvalidNMEAMessageException.
Proof. exact tbq_put_raise_is_invalid_nmea. Qed.
Print Assumptions C05_tbq_put_raise_is_invalid_nmea.

(* in the form the reader-level half of C05 composes with: what leaves put_sentence is within the except-tuple of both
   reader loops (pyais/stream.py _assemble_messages, pyais/queue.py put_line) *)
Theorem C05_tbq_put_raises_only_reader_set : forall uni st s e,
  tbq_put uni st s = Raise e ->
  e = Lib InvalidNMEAMessageException \/ e = Lib NonPrintableCharacterException \/ e = Lib UnknownMessageException.
Proof. exact tbq_put_raises_only_reader_set. Qed.
Print Assumptions C05_tbq_put_raises_only_reader_set.

(* put_sentence raises only from tb.init(), i.e. before `groups` is touched; the caller sees the old state *)
Theorem C05_tbq_put_raise_only_from_init : forall uni st s e,
  tbq_put uni st s = Raise e ->
  exists raw, c_tag_block (sentence_common s) = Some raw /\ tb_init uni raw = Raise e.
Proof. exact tbq_put_raise_only_from_init. Qed.
Print Assumptions C05_tbq_put_raise_only_from_init.

Theorem C05_tbq_step_raise_keeps_state : forall uni st s e,
  tbq_put uni st s = Raise e -> tbq_step uni st s = (st, []).
Proof. exact tbq_step_raise_keeps_state. Qed.
Print Assumptions C05_tbq_step_raise_keeps_state.

Theorem C05_tb_init_raises_only_lib : forall uni raw e, tb_init uni raw = Raise e -> e = Lib InvalidNMEAMessageException.
Proof. exact tb_init_raises_only_lib. Qed.
Print Assumptions C05_tb_init_raises_only_lib.

(* non-vacuity / what the unrepaired init() did: the inputs found on the unchanged tree raise built-in exceptions in
   the model of the old code and the library exception in the model of the repaired code *)
Example C05_tbq_witnesses :
  tb_init_unrepaired ex_uni [115; 58; 120] = Raise (Py ValueError) /\                       (* s:x        no '*'       *)
  tb_init_unrepaired ex_uni [97; 42; 98; 42; 99] = Raise (Py ValueError) /\                 (* a*b*c      two '*'      *)
  tb_init_unrepaired ex_uni [115; 58; 120; 42; 122; 122] = Raise (Py ValueError) /\         (* s:x*zz     not hex      *)
  tb_init_unrepaired ex_uni [42; 48; 48] = Raise (Py TypeError) /\                          (* *00        empty content*)
  tb_init_unrepaired ex_uni [115; 58; 120; 42; 255] = Raise (Py UnicodeDecodeError) /\      (* s:x*\xff                *)
  tb_init ex_uni [115; 58; 120] = Raise (Lib InvalidNMEAMessageException) /\
  tb_init ex_uni [42; 48; 48] = Raise (Lib InvalidNMEAMessageException) /\
  tbq_put ex_uni [] (ex_sentence 0 (Some [115; 58; 120])) = Raise (Lib InvalidNMEAMessageException).
Proof. vm_compute. repeat split. Qed.
