(* C05, tag block queue part -- feeding a reader with a tag block queue attached never raises a non-library exception
   because of the tag block.  Statements only; proofs in Proofs/TbqProofs.v and Proofs/TagBlockProofs.v.
   tbq_put = Model/Tbq.v (TagBlockQueue.put_sentence), calling tb_init = Model/TagBlock.v (the REPAIRED
   TagBlock.init()).  Quantified over every state of the queue, every sentence record, hence every byte string as
   tag block, and every oracle [uni] for int() of non-ASCII digits. *)
From Coq Require Import ZArith List Bool.
Require Import Prim.Exn Prim.PyText Model.Sentence Model.TagBlock Model.Tbq Proofs.TagBlockProofs Proofs.TbqProofs.
Import ListNotations.
Open Scope Z_scope.

Theorem C05_tbq_put_raises_only_lib : forall (uni : Z -> list Z -> option Z) (st : tbq_state) (s : sentence),
  match tbq_put uni st s with Raise (Py _) => False | _ => True end.
Proof. exact tbq_put_raises_only_lib. Qed.
Print Assumptions C05_tbq_put_raises_only_lib.

(* more precisely: the only exception is InvalidNMEAMessageException, which both reader loops catch and skip *)
Theorem C05_tbq_put_raise_is_invalid_nmea : forall uni st s e,
  tbq_put uni st s = Raise e -> e = Lib InvalidNMEAMessageException.
Proof. exact tbq_put_raise_is_invalid_nmea. Qed.
Print Assumptions C05_tbq_put_raise_is_invalid_nmea.

Theorem C05_tb_init_raises_only_lib : forall uni raw e, tb_init uni raw = Raise e -> e = Lib InvalidNMEAMessageException.
Proof. exact tb_init_raises_only_lib. Qed.
Print Assumptions C05_tb_init_raises_only_lib.

(* non-vacuity / what the unrepaired init() did: the inputs found on the unchanged tree raise built-in exceptions in
   the model of the old code and the library exception in the model of the repaired code *)
Example C05_tbq_witnesses :
  tb_init_unrepaired ex_uni [115; 58; 120] = Raise (Py ValueError) /\                       (* s:x        no '*'       *)
  tb_init_unrepaired ex_uni [97; 42; 98; 42; 99] = Raise (Py ValueError) /\                 (* a*b*c      two '*'      *)
  tb_init_unrepaired ex_uni [115; 58; 120; 42; 122; 122] = Raise (Py ValueError) /\         (* s:x*zz     not hex      *)
  tb_init_unrepaired ex_uni [42; 48; 48] = Raise (Py TypeError) /\                          (* *00        empty content*)
  tb_init_unrepaired ex_uni [115; 58; 120; 42; 255] = Raise (Py UnicodeDecodeError) /\      (* s:x*\xff                *)
  tb_init ex_uni [115; 58; 120] = Raise (Lib InvalidNMEAMessageException) /\
  tb_init ex_uni [42; 48; 48] = Raise (Lib InvalidNMEAMessageException) /\
  tbq_put ex_uni [] (ex_sentence 0 (Some [115; 58; 120])) = Raise (Lib InvalidNMEAMessageException).
Proof. vm_compute. repeat split. Qed.
