(* C13 -- tracks expire exactly when their age reaches the TTL.
   Statements only; proofs live in Proofs/TrackerCbProofs.v (and Proofs/TrackerProofs.v).  The model is pyais/tracker.py
   after `fix: expire stale tracks in unordered trackers even when a newer track is still alive` and
   `fix: keep oldest_timestamp a lower bound of the tracks when a subscriber callback raises`, in its GENERAL form
   `trkc_step` (Model/Tracker.v): the subscriber callbacks may raise.

   trk_env V                   what the callbacks do during ONE operation (`e_cb env cb event track` = returns / raises e;
                               a callback may behave differently from operation to operation) and in which order the
                               operation's cleanup() visits its set of expired MMSIs (`e_iter`).  Callbacks that call
                               back into the tracker are outside the model.
   env_ok env                  iterating the set visits exactly its elements (all that is assumed of `e_iter`).
   reachable_any nattrs st     st is the state after ANY history (updates with arbitrary, also out-of-order, timestamps,
                               pops, cleanups at arbitrary clock values, callback registration, assignments of a new TTL
                               to `tracker.ttl_in_seconds` (OpSetTtl), `tracker.stream_is_ordered = False` (OpUnordered)),
                               calls of the public insert_or_update() (OpInsertOrUpdate: no ordering check, no cleanup();
                               in ORDERED mode with a timestamp that is not older than a track -- `op_ok`, the caller's
                               obligation on that route, without which the unchanged code leaves the table unsorted),
                               starting in either mode with any TTL, WHATEVER the subscribers did -- including operations
                               left by their exceptions (each operation with an environment that satisfies env_ok).
   t_ttl st = Some T           T is the TTL in force when the operation in question starts (cleanup() reads
                               `self.ttl_in_seconds` afresh on every call; there is no derived deadline that could go stale).
   rc_exn res = None           the operation returned normally.
   sp_ttl_ok T now remaining removed (Spec/TrackerSpec.v): every remaining track has now - last_updated < T and every
                               track handed to a DELETED callback during the operation had T <= now - last_updated. *)
From Coq Require Import ZArith List Bool.
Require Import Prim.Exn Prim.IntDict Model.Tracker Spec.TrackerSpec Proofs.TrackerProofs Proofs.TrackerCbProofs.
Import ListNotations.
Open Scope Z_scope.

(* After every cleanup()/update() that RETURNS, performed at clock value `now`, in both modes, for every TTL (also 0 and
   negative ones), whatever the order in which stale and fresh tracks were inserted and whatever the subscribers do
   during the operation (return, raise KeyError from a DELETED callback -- swallowed by pop_track after the track was
   deleted --; anything that escapes makes the operation raise, and then it did not complete) -- from EVERY state, also
   one that an earlier operation left behind when a subscriber's exception ended it. *)
Theorem C13_expiry_exact : forall (V : Type) (nattrs : nat) (env : trk_env V) (st : trk_tracker V) (op : trk_op V) (now T : Z),
  reachable_any nattrs st -> env_ok env -> t_ttl st = Some T ->
  (op = OpCleanup now \/ exists msg ts, op = OpUpdate now msg ts) ->
  let res := trkc_step nattrs env st op in
  rc_exn res = None ->
  sp_ttl_ok T now (map (@tr_lu V) (trk_tracks (rc_state res))) (deleted_lus (rc_calls res)).
Proof. exact (fun V => @expiry_exact_c V). Qed.
Print Assumptions C13_expiry_exact.

(* What holds of EVERY update()/cleanup(), also one that is left by the exception of a subscriber: no track younger
   than the TTL is removed by expiry (the second half of C13), and the state left behind satisfies the invariants -- one
   entry per MMSI, keyed by the track's own MMSI, ordered mode: sorted by last_updated, full attribute lists, and the
   cached oldest_timestamp is a lower bound of every last_updated. *)
Theorem C13_never_removes_fresh : forall (V : Type) (nattrs : nat) (env : trk_env V) (st : trk_tracker V) (op : trk_op V) (now T : Z),
  reachable_any nattrs st -> env_ok env -> t_ttl st = Some T ->
  (op = OpCleanup now \/ exists msg ts, op = OpUpdate now msg ts) ->
  let res := trkc_step nattrs env st op in
  Forall (fun lu => T <= now - lu) (deleted_lus (rc_calls res)) /\ inv nattrs (rc_state res).
Proof. exact (fun V => @expiry_never_removes_fresh V). Qed.
Print Assumptions C13_never_removes_fresh.

(* With TTL None nothing ever expires: no operation other than pop_track emits DELETED or loses an MMSI (every state,
   every behaviour of the subscribers). *)
Theorem C13_no_ttl_no_expiry : forall (V : Type) (nattrs : nat) (env : trk_env V) (st : trk_tracker V) (op : trk_op V),
  reachable_any nattrs st -> t_ttl st = None -> (forall m, op <> OpPop m) ->
  let res := trkc_step nattrs env st op in
  deleted_mmsis (rc_calls res) = [] /\ incl (keys (t_tracks st)) (keys (t_tracks (rc_state res))).
Proof. exact (fun V => @no_ttl_no_expiry_c V). Qed.
Print Assumptions C13_no_ttl_no_expiry.

(* The TTL and the mode change only when the history says so: sp_ttl_after ttl op = the TTL assigned if op is OpSetTtl,
   ttl otherwise; sp_mode ordered op = false if op is OpUnordered, ordered otherwise (Spec/TrackerSpec.v). *)
Theorem C13_configuration_constant : forall (V : Type) (nattrs : nat) (env : trk_env V) (st : trk_tracker V) (op : trk_op V),
  reachable_any nattrs st ->
  t_ordered (rc_state (trkc_step nattrs env st op)) = sp_mode (t_ordered st) (abs_op op) /\
  t_ttl (rc_state (trkc_step nattrs env st op)) = sp_ttl_after (t_ttl st) (abs_op op).
Proof. exact (fun V => @step_cfg_reachable_c V). Qed.
Print Assumptions C13_configuration_constant.

(* ... and the two configuration operations do nothing else: no call, no delivery, the table and the cache untouched. *)
Theorem C13_configuration_operations : forall (V : Type) (nattrs : nat) (env : trk_env V) (st : trk_tracker V) (ttl : option Z),
  trkc_step nattrs env st (OpSetTtl ttl) = mkCResult (with_ttl st ttl) [] [] None None /\
  trkc_step nattrs env st OpUnordered = mkCResult (with_ordered st false) [] [] None None.
Proof. exact (fun V nattrs env st ttl => conj eq_refl eq_refl). Qed.
Print Assumptions C13_configuration_operations.

(* The invariants behind it, in EVERY state: one entry per MMSI, keyed by the track's own MMSI; the cached
   oldest_timestamp is a lower bound of every last_updated; in ordered mode the table is sorted by last_updated. *)
Theorem C13_invariants : forall (V : Type) (nattrs : nat) (st : trk_tracker V), reachable_any nattrs st -> inv nattrs st.
Proof. exact (fun V => @reachable_any_inv V). Qed.
Print Assumptions C13_invariants.

(* THE REPAIRED DEFECT.  With the bodies of insert_or_update / cleanup before
   `fix: keep oldest_timestamp a lower bound of the tracks when a subscriber callback raises` (Model/Tracker.v
   `trkc_step_unrepaired`) the cache invariant -- and with it C13_expiry_exact -- failed once the exception of a subscriber
   had left update() or cleanup(); the same histories on the repaired bodies behave. *)

(* witness: a CREATED subscriber raises (KeyError) for the first vessel.  Unrepaired: update() raised after inserting the
   track and before `__set_oldest_timestamp`, oldest_timestamp stayed None and cleanup() 13 ticks later (ttl 12) returned
   at once, the track (age 13) remained.  Repaired: the cache is 0, the track expires. *)
Theorem C13_unrepaired_refuted_after_callback_exception :
  let su := fst (trkc_run_unrepaired 1 (trk_init (Some 12) false) witness_created) in
  let ru := trkc_step_unrepaired 1 trk_env_quiet su (OpCleanup 13) in
  let sr := fst (trkc_run 1 (trk_init (Some 12) false) witness_created) in
  let rr := trkc_step 1 trk_env_quiet sr (OpCleanup 13) in
  (t_oldest su = None /\ rc_exn ru = None /\
   ~ sp_ttl_ok 12 13 (map (@tr_lu Z) (trk_tracks (rc_state ru))) (deleted_lus (rc_calls ru))) /\
  (t_oldest sr = Some 0 /\ rc_exn rr = None /\ trk_tracks (rc_state rr) = [] /\ deleted_lus (rc_calls rr) = [0]).
Proof. exact unrepaired_refuted_after_callback_exception. Qed.
Print Assumptions C13_unrepaired_refuted_after_callback_exception.

(* witness: a DELETED subscriber raises ValueError.  Unrepaired: cleanup() at 12 had advanced oldest_timestamp to 8,
   popped vessel 111, was left by the exception and kept vessel 222 (age 12); cleanup() at 13 returned early: 222 (age 13)
   remained.  Repaired: the aborted cleanup() leaves the cache at 0, cleanup() at 13 removes 222. *)
Theorem C13_unrepaired_refuted_after_aborted_cleanup :
  let su := fst (trkc_run_unrepaired 1 (trk_init (Some 12) false) witness_deleted) in
  let ru := trkc_step_unrepaired 1 trk_env_quiet su (OpCleanup 13) in
  let sr := fst (trkc_run 1 (trk_init (Some 12) false) witness_deleted) in
  let rr := trkc_step 1 trk_env_quiet sr (OpCleanup 13) in
  (t_oldest su = Some 8 /\ rc_exn ru = None /\
   ~ sp_ttl_ok 12 13 (map (@tr_lu Z) (trk_tracks (rc_state ru))) (deleted_lus (rc_calls ru))) /\
  (t_oldest sr = Some 0 /\ rc_exn rr = None /\ map (@tr_mmsi Z) (trk_tracks (rc_state rr)) = [333] /\
   deleted_lus (rc_calls rr) = [0]).
Proof. exact unrepaired_refuted_after_aborted_cleanup. Qed.
Print Assumptions C13_unrepaired_refuted_after_aborted_cleanup.

(* The general model with subscribers that return normally IS the model `trk_step` that C12 (Props/C12.v) is stated
   about, and every state of that model is one of the states the theorems of this file speak about. *)
Theorem C13_quiet_subscribers_give_trk_step : forall (V : Type) (nattrs : nat) (st : trk_tracker V) (op : trk_op V),
  rc_state (trkc_step nattrs trk_env_quiet st op) = r_state (trk_step nattrs st op) /\
  rc_calls (trkc_step nattrs trk_env_quiet st op) = r_calls (trk_step nattrs st op) /\
  rc_exn (trkc_step nattrs trk_env_quiet st op) = r_exn (trk_step nattrs st op) /\
  rc_deliv (trkc_step nattrs trk_env_quiet st op) = trk_deliver (t_broker st) (r_calls (trk_step nattrs st op)) /\
  (forall m, op = OpPop m -> rc_ret (trkc_step nattrs trk_env_quiet st op) = snd (trk_pop_track st m)).
Proof. exact (fun V => @trkc_step_quiet V). Qed.
Print Assumptions C13_quiet_subscribers_give_trk_step.

Theorem C13_quiet_states_covered : forall (V : Type) (nattrs : nat) (st : trk_tracker V),
  reachable nattrs st -> reachable_any nattrs st.
Proof. exact (fun V => @reachable_old_any V). Qed.
Print Assumptions C13_quiet_states_covered.

(* The environments the check's driver builds from its line protocol (rules + set order read off the implementation)
   satisfy the one assumption made about environments. *)
Theorem C13_driver_environments_ok : forall (V : Type) (rules : list trk_rule) (hint : list Z), env_ok (@trk_env_of V rules hint).
Proof. exact (fun V => @env_of_ok V). Qed.
Print Assumptions C13_driver_environments_ok.

(* The boolean form evaluated by the check on the implementation's outputs is this proposition. *)
Theorem C13_oracle_is_spec : forall T now a b, sp_ttl_okb T now a b = true <-> sp_ttl_ok T now a b.
Proof. exact ttl_okb_iff. Qed.
Print Assumptions C13_oracle_is_spec.

(* non-vacuity 1: unordered mode, a stale track (111, age 20) inserted BEFORE a fresh one (222, age 4) -- the situation
   the unrepaired scan missed -- and a third track whose age is one tick below the TTL; quiet subscribers *)
Example C13_nonvacuous :
  let q := @trk_env_quiet Z in
  let h := [(q, OpUpdate 0 (mkMsg 111 [MPresent (Some 1)]) (Some 0));
            (q, OpUpdate 0 (mkMsg 333 [MPresent (Some 3)]) (Some 1));
            (q, OpUpdate 16 (mkMsg 222 [MPresent (Some 2)]) None)] in
  let st := fst (trkc_run 1 (trk_init (Some 20) false) h) in
  let res := trkc_step 1 q st (OpCleanup 20) in
  map (@tr_mmsi Z) (trk_tracks st) = [111; 333; 222] /\
  map (@tr_mmsi Z) (trk_tracks (rc_state res)) = [333; 222] /\
  deleted_lus (rc_calls res) = [0] /\ t_oldest (rc_state res) = Some 1 /\ rc_exn res = None.
Proof. vm_compute. repeat split. Qed.

(* non-vacuity 2: an expired track and a DELETED subscriber (callback 7, registered BEFORE callback 8) that raises
   KeyError for every vessel it does not know (here: all).  The update() of a fresh vessel at t=13 (ttl 12) finds 111
   expired: the track is deleted, callback 7 is called and raises, pop_track swallows the KeyError, callback 8 is not
   called, update() returns normally and 111 is gone; an explicit pop_track(222) returns None although it removed the
   track.  The same in ordered mode. *)
Example C13_nonvacuous_keyerror_subscriber :
  forall ordered : bool,
  let en := @trk_env_of Z [(7, DELETED, None, Py KeyError)] [] in
  let h := [(en, OpAttach DELETED 7); (en, OpAttach DELETED 8);
            (en, OpUpdate 0 (mkMsg 111 [MPresent (Some 1)]) (Some 0))] in
  let st := fst (trkc_run 1 (trk_init (Some 12) ordered) h) in
  let res := trkc_step 1 en st (OpUpdate 13 (mkMsg 222 [MPresent (Some 2)]) None) in
  let res2 := trkc_step 1 en (rc_state res) (OpPop 222) in
  map (@tr_mmsi Z) (trk_tracks st) = [111] /\
  rc_exn res = None /\ map (@tr_mmsi Z) (trk_tracks (rc_state res)) = [222] /\ deleted_lus (rc_calls res) = [0] /\
  map (fun d => fst (fst d)) (rc_deliv res) = [7] /\
  rc_exn res2 = None /\ rc_ret res2 = None /\ trk_tracks (rc_state res2) = [] /\
  sp_ttl_okb 12 13 (map (@tr_lu Z) (trk_tracks (rc_state res))) (deleted_lus (rc_calls res)) = true.
Proof. intros []; vm_compute; repeat split. Qed.

(* non-vacuity 3: three expired tracks and a DELETED subscriber that raises ValueError for vessel 222 only: cleanup()
   pops 111, pops 222 (deleted, then the exception escapes), never reaches 333; the operation raises ValueError and
   leaves 333 behind -- C13_never_removes_fresh applies, C13_expiry_exact does not (the operation did not complete); the
   cache still is 0 (`self.oldest_timestamp = oldest` was not reached), so the next cleanup() completes the job *)
Example C13_nonvacuous_aborted_cleanup :
  let en := @trk_env_of Z [(7, DELETED, Some 222, Py ValueError)] [] in
  let h := [(en, OpAttach DELETED 7); (en, OpUpdate 0 (mkMsg 111 [MPresent (Some 1)]) (Some 0));
            (en, OpUpdate 0 (mkMsg 222 [MPresent (Some 2)]) (Some 1)); (en, OpUpdate 0 (mkMsg 333 [MPresent (Some 3)]) (Some 2))] in
  let st := fst (trkc_run 1 (trk_init (Some 12) false) h) in
  let res := trkc_step 1 en st (OpCleanup 30) in
  rc_exn res = Some (Py ValueError) /\ map (@tr_mmsi Z) (trk_tracks (rc_state res)) = [333] /\
  deleted_lus (rc_calls res) = [0; 1] /\ t_oldest (rc_state res) = Some 0 /\
  trk_tracks (rc_state (trkc_step 1 en (rc_state res) (OpCleanup 30))) = [].
Proof. vm_compute. repeat split. Qed.

(* non-vacuity 4: the TTL is changed during the history.  ttl 40: three vessels at 0, 4, 8; at t=20 nothing is due.
   `tracker.ttl_in_seconds = 12` (OpSetTtl): cleanup() at the same instant t=20 removes 111 (age 20) and 222 (age 16)
   and keeps 333 (age 11).  Then `tracker.ttl_in_seconds = None`: nothing expires any more, however late. *)
Example C13_nonvacuous_ttl_changed :
  let q := @trk_env_quiet Z in
  let h := [(q, OpUpdate 8 (mkMsg 111 [MPresent (Some 1)]) (Some 0));
            (q, OpUpdate 8 (mkMsg 222 [MPresent (Some 2)]) (Some 4));
            (q, OpUpdate 8 (mkMsg 333 [MPresent (Some 3)]) (Some 9));
            (q, OpCleanup 20)] in
  let st := fst (trkc_run 1 (trk_init (Some 40) false) h) in
  let st1 := rc_state (trkc_step 1 q st (OpSetTtl (Some 12))) in
  let res := trkc_step 1 q st1 (OpCleanup 20) in
  let st2 := rc_state (trkc_step 1 q (rc_state res) (OpSetTtl None)) in
  let res2 := trkc_step 1 q st2 (OpCleanup 1000) in
  map (@tr_mmsi Z) (trk_tracks st) = [111; 222; 333] /\ t_ttl st1 = Some 12 /\
  map (@tr_mmsi Z) (trk_tracks (rc_state res)) = [333] /\ deleted_lus (rc_calls res) = [0; 4] /\
  sp_ttl_okb 12 20 (map (@tr_lu Z) (trk_tracks (rc_state res))) (deleted_lus (rc_calls res)) = true /\
  map (@tr_mmsi Z) (trk_tracks (rc_state res2)) = [333] /\ rc_calls res2 = [].
Proof. vm_compute. repeat split. Qed.
