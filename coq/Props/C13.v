(* C13 -- tracks expire exactly when their age reaches the TTL.
   Statements only; proofs live in Proofs/TrackerProofs.v.  The model is pyais/tracker.py after
   `fix: expire stale tracks in unordered trackers even when a newer track is still alive`.

   `reachable nattrs st` : st is the state after some history (any updates with arbitrary, also out-of-order,
   timestamps, pops, cleanups at arbitrary clock values), in either mode, with any TTL.
   `sp_ttl_ok T now remaining removed` (Spec/TrackerSpec.v): every remaining track has now - last_updated < T and every
   track handed to a DELETED callback during the operation had T <= now - last_updated. *)
From Coq Require Import ZArith List Bool.
Require Import Prim.Exn Prim.IntDict Model.Tracker Spec.TrackerSpec Proofs.TrackerProofs.
Import ListNotations.
Open Scope Z_scope.

(* After cleanup() and after every accepted update() performed at clock value `now`, in both modes, for every TTL
   (also 0 and negative ones), whatever the order in which stale and fresh tracks were inserted. *)
Theorem C13_expiry_exact : forall (V : Type) (nattrs : nat) (st : trk_tracker V) (op : trk_op V) (now T : Z),
  reachable nattrs st -> t_ttl st = Some T ->
  (op = OpCleanup now \/ exists msg ts, op = OpUpdate now msg ts) ->
  let res := trk_step nattrs st op in
  r_exn res = None ->
  sp_ttl_ok T now (map (@tr_lu V) (trk_tracks (r_state res))) (deleted_lus (r_calls res)).
Proof. exact (fun V => @expiry_exact V). Qed.
Print Assumptions C13_expiry_exact.

(* With TTL None nothing ever expires: no operation other than pop_track emits DELETED or loses an MMSI. *)
Theorem C13_no_ttl_no_expiry : forall (V : Type) (nattrs : nat) (st : trk_tracker V) (op : trk_op V),
  reachable nattrs st -> t_ttl st = None -> (forall m, op <> OpPop m) ->
  let res := trk_step nattrs st op in
  deleted_mmsis (r_calls res) = [] /\ incl (keys (t_tracks st)) (keys (t_tracks (r_state res))).
Proof. exact (fun V => @no_ttl_no_expiry V). Qed.
Print Assumptions C13_no_ttl_no_expiry.

(* The TTL and the mode are fixed at construction: no operation changes them. *)
Theorem C13_configuration_constant : forall (V : Type) (nattrs : nat) (st : trk_tracker V) (op : trk_op V),
  reachable nattrs st ->
  t_ordered (r_state (trk_step nattrs st op)) = t_ordered st /\ t_ttl (r_state (trk_step nattrs st op)) = t_ttl st.
Proof. exact (fun V => @step_cfg_reachable V). Qed.
Print Assumptions C13_configuration_constant.

(* The invariants behind it, for every reachable state: one entry per MMSI, keyed by the track's own MMSI; the cached
   oldest_timestamp is a lower bound of every last_updated; in ordered mode the table is sorted by last_updated. *)
Theorem C13_invariants : forall (V : Type) (nattrs : nat) (st : trk_tracker V), reachable nattrs st -> inv nattrs st.
Proof. exact (fun V => @reachable_inv V). Qed.
Print Assumptions C13_invariants.

(* The boolean form evaluated by the check on the implementation's outputs is this proposition. *)
Theorem C13_oracle_is_spec : forall T now a b, sp_ttl_okb T now a b = true <-> sp_ttl_ok T now a b.
Proof. exact ttl_okb_iff. Qed.
Print Assumptions C13_oracle_is_spec.

(* non-vacuity: unordered mode, a stale track (111, age 20) inserted BEFORE a fresh one (222, age 4) -- the situation
   the unrepaired scan missed -- and a third track whose age is one tick below the TTL *)
Example C13_nonvacuous :
  let h := [OpUpdate 0 (mkMsg 111 [MPresent (Some 1)]) (Some 0);
            OpUpdate 0 (mkMsg 333 [MPresent (Some 3)]) (Some 1);
            OpUpdate 16 (mkMsg 222 [MPresent (Some 2)]) None] in
  let st := fst (trk_run 1 (trk_init (Some 20) false) h) in
  let res := trk_step 1 st (OpCleanup 20) in
  map (@tr_mmsi Z) (trk_tracks st) = [111; 333; 222] /\
  map (@tr_mmsi Z) (trk_tracks (r_state res)) = [333; 222] /\
  deleted_lus (r_calls res) = [0] /\ t_oldest (r_state res) = Some 1.
Proof. vm_compute. repeat split. Qed.
