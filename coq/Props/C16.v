(* C16 -- tag blocks round-trip through create and parse and never alter the sentence.
   Statements only; proofs live in Proofs/TagBlockProofs.v.  tb_create / tb_init / tb_pre_process / tb_produce_with =
   Model/TagBlock.v (pyais/messages.py TagBlock.create, TagBlock.init + _parse_payload + TagBlockGroup.from_str,
   NMEASentenceFactory._pre_process / produce); the tbs_ vocabulary = Spec/TagBlockSpec.v.  A Python str is represented
   by its UTF-8 bytes; [uni] is the oracle for int() of non-ASCII digits (Prim/PyText.v): every statement holds for all
   oracles.  Unbounded in the number of fields and the length of values. *)
From Coq Require Import String ZArith List Bool.
Require Import Prim.Exn Prim.PyText Model.Sentence Model.TagBlock Spec.TagBlockSpec Proofs.TagBlockProofs.
Import ListNotations.
Open Scope Z_scope.

(* (a) A tag block built from supported field values parses back to exactly the text of those values, with a matching
   checksum: for every list of keyword arguments with at least one supported field (unsupported keywords and None
   values may be mixed in, as create() skips them) whose values are separator-free text (and, for the group, the text
   of three non-negative integers), create succeeds, init of the result succeeds, the checksum matches, every text
   accessor returns the text given (None if not given) and the group accessor the three numbers. *)
Theorem C16a : forall (uni : Z -> list Z -> option Z) (fs : tbs_fields),
  tbs_some_field fs -> Forall tbs_field_ok fs ->
  exists raw t,
    tb_create fs = Ok raw /\ tb_init uni raw = Ok t /\
    tb_valid t = true /\ tb_actual t = tb_expected t /\
    (forall name, In name tbs_text_fields -> tb_attr t name = tbs_value fs name) /\
    (forall v, tbs_value fs tbs_group_field = Some v -> forall g, tbs_group_text v g -> tb_group t = Some g) /\
    (tbs_value fs tbs_group_field = None -> tb_group t = None).
Proof. exact create_init_roundtrip. Qed.
Print Assumptions C16a.

(* the checksum text create() writes (hex()[2:].upper(): a single digit below 0x10) reads back to the same number *)
Theorem C16a_hex : forall (uni : Z -> list Z -> option Z) x, 0 <= x < 256 ->
  pt_int uni 16 (pt_hex_upper x) = Ok x /\ (x < 16 -> length (pt_hex_upper x) = 1%nat).
Proof. exact hex_int_roundtrip. Qed.
Print Assumptions C16a_hex.

(* (b) A parsed tag block reports valid iff its checksum equals the XOR of its content: any non-empty content without
   an asterisk, any two hex digits (upper or lower case). *)
Theorem C16b : forall (uni : Z -> list Z -> option Z) payload h1 h2,
  payload <> [] -> ~ In 42 payload -> tbs_is_hex h1 -> tbs_is_hex h2 ->
  exists t, tb_init uni (payload ++ [42; h1; h2]) = Ok t /\
    tb_actual t = tbs_xor payload /\
    tb_expected t = 16 * tbs_hex_val h1 + tbs_hex_val h2 /\
    tb_valid t = (tbs_xor payload =? 16 * tbs_hex_val h1 + tbs_hex_val h2).
Proof. exact valid_iff_checksum. Qed.
Print Assumptions C16b.

(* (c) Unknown or malformed fields are ignored: inserting, anywhere among the comma-separated fields, a field that is
   not text, has no colon, has a code that is none of the seven, or is a group that is not three integers, leaves every
   accessor (the six texts and the group) as it is without that field. *)
Theorem C16c : forall (uni : Z -> list Z -> option Z) fs1 junk fs2 h1 h2 h1' h2',
  Forall (fun f => ~ In 44 f /\ ~ In 42 f) (fs1 ++ junk :: fs2) ->
  tbs_extra_field uni junk ->
  pt_join 44 (fs1 ++ fs2) <> [] ->
  tbs_is_hex h1 -> tbs_is_hex h2 -> tbs_is_hex h1' -> tbs_is_hex h2' ->
  exists t t',
    tb_init uni (pt_join 44 (fs1 ++ fs2) ++ [42; h1; h2]) = Ok t /\
    tb_init uni (pt_join 44 (fs1 ++ junk :: fs2) ++ [42; h1'; h2']) = Ok t' /\
    (forall name, tb_attr t' name = tb_attr t name) /\ tb_group t' = tb_group t.
Proof. exact extras_ignored. Qed.
Print Assumptions C16c.

(* (d) The sentence following a tag block is parsed exactly as it would be without it: for every tag block without a
   backslash and every line that starts with its delimiter (anything but white space and a backslash), _pre_process
   hands the very same bytes to the sentence parser, and produce() -- over ANY parser of the bare sentence -- returns
   the same outcome, differing only in .tag_block (an empty tag block is not attached). *)
Theorem C16d_pre_process : forall tb c s',
  ~ In 92 tb -> pt_is_space c = false -> c <> 92 ->
  tb_pre_process (92 :: tb ++ 92 :: c :: s') = Ok (pt_strip (c :: s'), Some tb) /\
  tb_pre_process (c :: s') = Ok (pt_strip (c :: s'), None).
Proof. exact pre_process_tag_block. Qed.
Print Assumptions C16d_pre_process.

Theorem C16d : forall (parse : list Z -> M sentence) tb c s',
  ~ In 92 tb -> pt_is_space c = false -> c <> 92 ->
  tb_produce_with parse (92 :: tb ++ 92 :: c :: s') =
  match tb with
  | [] => tb_produce_with parse (c :: s')
  | _ :: _ => mmap (fun x => sentence_set_tag_block x (Some tb)) (tb_produce_with parse (c :: s'))
  end.
Proof. exact produce_behind_tag_block. Qed.
Print Assumptions C16d.

(* non-vacuity: create(source_station="ST", foo="x", text="a:b", group="1-2-3", line_count=None) meets the hypotheses
   of (a); it gives b's:ST,t:a:b,g:1-2-3*54', which parses back; a checksum below 0x10 is a single digit; the
   hypotheses of (c) and (d) are met by concrete fields *)
Example C16_nonvacuous :
  tbs_some_field ex_fields /\ Forall tbs_field_ok ex_fields /\
  tb_create ex_fields = Ok [115;58;83;84; 44; 116;58;97;58;98; 44; 103;58;49;45;50;45;51; 42; 53;52] /\
  (exists t, tb_init (fun _ _ => None) [115;58;83;84; 44; 116;58;97;58;98; 44; 103;58;49;45;50;45;51; 42; 53;52] = Ok t /\
     tb_valid t = true /\ tb_attr t "text" = Some [97; 58; 98] /\ tb_attr t "source_station" = Some [83; 84] /\
     tb_attr t "line_count" = None /\ tb_group t = Some (1, 2, 3)) /\
  tb_create [("text"%string, Some [78])] = Ok [116; 58; 78; 42; 48] /\                          (* t:N*0: one digit *)
  tbs_extra_field (fun _ _ => None) [103; 58; 49; 45; 50] /\                                   (* g:1-2  *)
  tbs_extra_field (fun _ _ => None) [120; 58; 49] /\                                           (* x:1    *)
  tb_pre_process [92; 115;58;120;42;49;53; 92; 33; 65; 13; 10] = Ok ([33; 65], Some [115;58;120;42;49;53]).
Proof.
  destruct ex_fields_ok as [H1 H2].
  split; [exact H1|]. split; [exact H2|]. split; [vm_compute; reflexivity|].
  split; [eexists; split; [vm_compute; reflexivity|]; vm_compute; repeat split|].
  split; [vm_compute; reflexivity|].
  split; [|split].
  - right. right. right. exists [49; 45; 50]. split; [reflexivity|].
    intros (a & b & c & x & y & z & E & Na & _).
    destruct a as [|a0 [|a1 a2]]; simpl in E.
    + discriminate.
    + inversion E; subst. destruct b as [|b0 [|b1 b2]]; simpl in *; discriminate.
    + inversion E; subst. apply Na. right. now left.
  - right. right. left. exists [120], [49]. repeat split; [intros [H|[]]; discriminate|].
    vm_compute. intuition discriminate.
  - vm_compute. reflexivity.
Qed.
