(* C09 -- the encoder emits well-formed NMEA 0183 sentences.
   Statements only; proofs live in Proofs/FrameArmorProofs.v and Proofs/FrameProofs.v.
   Model: Model/Frame.v (encode.py: ais_to_nmea_0183, encode_dict, encode_msg, get_ais_type, data_to_payload;
   util.compute_checksum) over Prim/Fmt.v and Model/Codec.v (create, to_bitarray, encode_ascii_6,
   decode_into_bit_array).  Specification: Spec/FrameSpec.v -- the clause list of the property as boolean functions
   that READ a list of sentences (fs_clause_holds), the padding to a six-bit boundary (fs_padding_to_six) and the
   armoring by the book (fs_spec_armor).  Strings are lists of character codes. *)
From Coq Require Import String ZArith List Bool.
Require Import Prim.Exn Prim.Bits Prim.Fmt Model.FieldTypes Gen.GenTables Model.Codec Model.Frame Spec.FrameSpec.
Require Import Proofs.FrameArmorProofs Proofs.FrameProofs Gen.GenConst.
Import ListNotations.
Open Scope list_scope.
Open Scope Z_scope.
Local Notation length := List.length (only parsing).

(* Framing.  For EVERY armored payload p of 1..540 characters (a one-digit fragment count; the longest AIS payload has
   178 characters), both talkers, both channels, fill 0..5: ais_to_nmea_0183 returns sentences of which every clause
   of Spec/FrameSpec.v holds -- at most 80 characters (82 with CR LF); shape '!' body '*' tail with seven comma fields;
   starts with '!' + talker + ','; tail = two upper-case hex digits = XOR of the body; payload characters within the
   armoring alphabet; fragments numbered 1..n of n; one common sequence id; only the last fragment carries the fill
   bits; the payload fields concatenate to p; (and, beyond the property text) the channel field is the channel and the
   sequence id is empty exactly for a single sentence. *)
Theorem C09 : forall (p talker channel : list Z) (fill : Z),
  (talker = frm_AIVDM \/ talker = frm_AIVDO) -> (channel = [65] \/ channel = [66]) ->
  Forall (fun c => fs_armor_alphabet c = true) p -> (1 <= length p <= 540)%nat -> 0 <= fill <= 5 ->
  exists ss, ais_to_nmea_0183 p talker channel fill = Ok ss /\
             forall cl : fs_clause, fs_clause_holds talker channel p fill ss cl = true.
Proof. exact frame_wellformed. Qed.
Print Assumptions C09.

(* The same without the length bound: for a non-empty armored payload of ANY length and any fill >= 0, every clause but
   the 80-character limit holds (fragment counts of several digits included); the limit holds up to 540 characters.
   The bound is tight: C09_bound_tight below shows a 541-character payload whose first sentence has 81 characters. *)
Theorem C09_any_length : forall (p talker channel : list Z) (fill : Z),
  (talker = frm_AIVDM \/ talker = frm_AIVDO) -> (channel = [65] \/ channel = [66]) ->
  Forall (fun c => fs_armor_alphabet c = true) p -> (1 <= length p)%nat -> 0 <= fill ->
  exists ss, ais_to_nmea_0183 p talker channel fill = Ok ss /\
             (forall cl : fs_clause, cl <> ClLength -> fs_clause_holds talker channel p fill ss cl = true) /\
             ((length p <= 540)%nat -> fill <= 9 -> fs_clause_holds talker channel p fill ss ClLength = true).
Proof. exact frame_clauses. Qed.
Print Assumptions C09_any_length.

(* Armoring, for ALL bit strings (no length bound): encode_ascii_6 succeeds; the fill bits are the padding needed to
   reach a six-bit boundary; the text is the specification's armoring, over the 64-character alphabet, one character per
   started group of six bits; and de-armoring it with that fill gives the bits back. *)
Theorem C09_armor_roundtrip : forall b : bits, exists p fill,
  encode_ascii_6 b = Ok (p, fill) /\
  Z.of_nat fill = fs_padding_to_six (Z.of_nat (length b)) /\
  p = fs_spec_armor b /\
  Forall (fun c => fs_armor_alphabet c = true) p /\
  Z.of_nat (length p) = (Z.of_nat (length b) + 5) / 6 /\
  decode_into_bit_array p (Z.of_nat fill) = Ok b.
Proof. exact armor_roundtrip. Qed.
Print Assumptions C09_armor_roundtrip.

(* "The sentences taken together are accepted by the decoder": for every bit string of 1..3240 bits (540 characters),
   armoring + framing gives well-formed sentences whose last fragment states the padding, and whose payload fields
   de-armor to the bit string -- both fragment by fragment with each sentence's own fill field, as
   AISSentence.assemble_from_iterable does ([reassemble]), and as one concatenated payload.  (That the decoder's
   sentence parser accepts what [fs_view] reads is the sentence layer's model; here acceptance is the clause list
   plus the de-armoring round trip, and the check runs pyais.decode on the implementation's output.) *)
Theorem C09_frame_roundtrip : forall (b : bits) (talker channel : list Z),
  (talker = frm_AIVDM \/ talker = frm_AIVDO) -> (channel = [65] \/ channel = [66]) -> (1 <= length b <= 3240)%nat ->
  exists p fill ss vs,
    encode_ascii_6 b = Ok (p, fill) /\ p = fs_spec_armor b /\ Forall (fun c => fs_armor_alphabet c = true) p /\
    Z.of_nat fill = fs_padding_to_six (Z.of_nat (length b)) /\
    ais_to_nmea_0183 p talker channel (Z.of_nat fill) = Ok ss /\
    (forall cl : fs_clause, fs_clause_holds talker channel p (Z.of_nat fill) ss cl = true) /\
    fs_views ss = Some vs /\ reassemble vs = Ok b /\
    decode_into_bit_array (concat (map sv_payload vs)) (Z.of_nat fill) = Ok b.
Proof. exact frame_roundtrip. Qed.
Print Assumptions C09_frame_roundtrip.

(* The entry points.  encode_msg(msg, talker, channel) for every message whose to_bitarray() gives 1..3240 bits ... *)
Theorem C09_encode_msg : forall (c : cls) (vs : list value) (b : bits) (talker channel : list Z),
  (talker = frm_AIVDM \/ talker = frm_AIVDO) -> (channel = [65] \/ channel = [66]) ->
  to_bitarray c vs = Ok b -> (1 <= length b <= 3240)%nat ->
  exists p fill ss vws,
    encode_ascii_6 b = Ok (p, fill) /\ p = fs_spec_armor b /\
    Z.of_nat fill = fs_padding_to_six (Z.of_nat (length b)) /\
    encode_msg (c, vs) talker channel = Ok ss /\
    (forall cl : fs_clause, fs_clause_holds talker channel p (Z.of_nat fill) ss cl = true) /\
    fs_views ss = Some vws /\ reassemble vws = Ok b.
Proof. exact encode_msg_wellformed. Qed.
Print Assumptions C09_encode_msg.

(* ... and encode_dict(data, talker, channel) for every dictionary from which get_ais_type finds a type and
   MSG_CLASS[type].create( **data ) builds a message of 1..3240 bits. *)
Theorem C09_encode_dict : forall (data : list (string * value)) (t : Z) (c : cls) (vs : list value) (b : bits)
                                 (talker channel : list Z),
  (talker = frm_AIVDM \/ talker = frm_AIVDO) -> (channel = [65] \/ channel = [66]) ->
  get_ais_type data = Ok t -> create_msg t data = Ok (c, vs) -> to_bitarray c vs = Ok b -> (1 <= length b <= 3240)%nat ->
  exists p fill ss vws,
    encode_ascii_6 b = Ok (p, fill) /\ p = fs_spec_armor b /\
    Z.of_nat fill = fs_padding_to_six (Z.of_nat (length b)) /\
    encode_dict data talker channel = Ok ss /\
    (forall cl : fs_clause, fs_clause_holds talker channel p (Z.of_nat fill) ss cl = true) /\
    fs_views ss = Some vws /\ reassemble vws = Ok b.
Proof. exact encode_dict_wellformed. Qed.
Print Assumptions C09_encode_dict.

(* get_ais_type: `type` wins over `msg_type`; `msg_type` is used when `type` is absent or is text that is no number *)
Theorem C09_type_key : forall (data : list (string * value)) (v : value) (t : Z),
  assoc_s "type" data = Some v -> frm_py_int v = Ok t -> get_ais_type data = Ok t.
Proof. exact get_ais_type_type. Qed.
Print Assumptions C09_type_key.

Theorem C09_msg_type_key : forall (data : list (string * value)) (v : value) (t : Z),
  assoc_s "type" data = None -> assoc_s "msg_type" data = Some v -> frm_py_int v = Ok t -> get_ais_type data = Ok t.
Proof. exact get_ais_type_msg_type. Qed.
Print Assumptions C09_msg_type_key.

Theorem C09_type_key_fallback : forall (data : list (string * value)) (v0 v : value) (t : Z),
  assoc_s "type" data = Some v0 -> frm_py_int v0 = Raise (Py ValueError) ->
  assoc_s "msg_type" data = Some v -> frm_py_int v = Ok t -> get_ais_type data = Ok t.
Proof. exact get_ais_type_fallback. Qed.
Print Assumptions C09_type_key_fallback.

(* argument validation: the entry points accept exactly the two talkers and the two channels (ValueError otherwise);
   ais_to_nmea_0183 itself only checks the two lengths *)
Theorem C09_encode_dict_rejects : forall data (talker channel : list Z),
  ~ ((talker = frm_AIVDM \/ talker = frm_AIVDO) /\ (channel = [65] \/ channel = [66])) ->
  encode_dict data talker channel = Raise (Py ValueError).
Proof. exact encode_dict_bad_args. Qed.
Print Assumptions C09_encode_dict_rejects.

Theorem C09_encode_msg_rejects : forall m (talker channel : list Z),
  ~ ((talker = frm_AIVDM \/ talker = frm_AIVDO) /\ (channel = [65] \/ channel = [66])) ->
  encode_msg m talker channel = Raise (Py ValueError).
Proof. exact encode_msg_bad_args. Qed.
Print Assumptions C09_encode_msg_rejects.

Theorem C09_frame_rejects : forall (p talker channel : list Z) (fill : Z),
  forallb frm_is_ascii p && forallb frm_is_ascii talker && forallb frm_is_ascii channel = true ->
  length talker <> 5%nat \/ length channel <> 1%nat ->
  ais_to_nmea_0183 p talker channel fill = Raise (Py ValueError).
Proof. exact frame_bad_lengths. Qed.
Print Assumptions C09_frame_rejects.

(* non-vacuity: a payload of 61 characters 'w' on channel B with 2 fill bits satisfies the hypotheses of C09 and is
   framed as two sentences, the second of which is  !AIVDM,2,2,0,B,w,2*60 ; and a 168-bit string satisfies the
   hypotheses of the round trip *)
Example C09_nonvacuous :
  let p := repeat 119 61 in
  Forall (fun c => fs_armor_alphabet c = true) p /\ (1 <= length p <= 540)%nat /\
  (exists s1, ais_to_nmea_0183 p frm_AIVDM [66] 2
              = Ok [s1; [33; 65; 73; 86; 68; 77; 44; 50; 44; 50; 44; 48; 44; 66; 44; 119; 44; 50; 42; 54; 48]]
              /\ length s1 = 80%nat) /\
  (1 <= length (repeat true 168) <= 3240)%nat /\
  encode_ascii_6 (repeat true 10) = Ok ([119; 116], 2%nat).
Proof.
  split; [apply Forall_forall; intros x Hx; apply repeat_spec in Hx; subst; reflexivity|].
  split; [vm_compute; split; apply Nat.leb_le; reflexivity|].
  split; [eexists; split; vm_compute; reflexivity|].
  split; [vm_compute; split; apply Nat.leb_le; reflexivity|].
  vm_compute. reflexivity.
Qed.

Example C09_bound_tight :
  exists ss, ais_to_nmea_0183 (repeat 48 541) frm_AIVDM [65] 0 = Ok ss /\
             fs_clause_holds frm_AIVDM [65] (repeat 48 541) 0 ss ClLength = false /\
             length (hd [] ss) = 81%nat.
Proof. eexists. split; [vm_compute; reflexivity|]. split; vm_compute; reflexivity. Qed.

(* The literals of ais_to_nmea_0183 written by hand in Model/Frame.v are the ones the translator reads from
   pyais/encode.py on every run (Gen/GenConst.v): a changed fragment size or template in the source breaks this
   obligation by name. *)
Theorem C09_literals_tied :
  Z.of_nat frm_max_len = ENCODE_MAX_LEN /\ ENCODE_TEMPLATE = "!{},{},{},{},{},{},{}*{:02X}"%string.
Proof. split; reflexivity. Qed.
Print Assumptions C09_literals_tied.
