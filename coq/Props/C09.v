(* C09 -- the encoder emits well-formed NMEA 0183 sentences.
   Statements only; proofs live in Proofs/FrameArmorProofs.v and Proofs/FrameProofs.v.
   Model: Model/Frame.v (encode.py: ais_to_nmea_0183, encode_dict, encode_msg, get_ais_type, data_to_payload;
   util.compute_checksum) over Prim/Fmt.v and Model/Codec.v (create, to_bitarray, encode_ascii_6,
   decode_into_bit_array).  Specification: Spec/FrameSpec.v -- the clause list of the property as boolean functions
   that READ a list of sentences (fs_clause_holds), the padding to a six-bit boundary (fs_padding_to_six) and the
   armoring by the book (fs_spec_armor).  Strings are lists of character codes. *)
From Coq Require Import String ZArith List Bool.
Require Import Prim.Exn Prim.Bits Prim.Fmt Model.FieldTypes Gen.GenTables Model.Codec Model.Frame Spec.FrameSpec.
Require Import Proofs.FrameArmorProofs Proofs.FrameProofs Gen.GenConst.
Import ListNotations.
Open Scope list_scope.
Open Scope Z_scope.
Local Notation length := List.length (only parsing).

(* Framing.  For EVERY armored payload p of 1..540 characters (a one-digit fragment count; the longest AIS payload has
   178 characters), both talkers, both channels, fill 0..5: ais_to_nmea_0183 returns sentences of which every clause
   of Spec/FrameSpec.v holds -- at most 80 characters (82 with CR LF); shape '!' body '*' tail with seven comma fields;
   starts with '!' + talker + ','; tail = two upper-case hex digits = XOR of the body; payload characters within the
   armoring alphabet; fragments numbered 1..n of n; one common sequence id; only the last fragment carries the fill
   bits; the payload fields concatenate to p; (and, beyond the property text) the channel field is the channel and the
   sequence id is empty exactly for a single sentence. *)
Theorem C09 : forall (p talker channel : list Z) (fill : Z),
  (talker = frm_AIVDM \/ talker = frm_AIVDO) -> (channel = [65] \/ channel = [66]) ->
  Forall (fun c => fs_armor_alphabet c = true) p -> (1 <= length p <= 540)%nat -> 0 <= fill <= 5 ->
  exists ss, ais_to_nmea_0183 p talker channel fill = Ok ss /\
             forall cl : fs_clause, fs_clause_holds talker channel p fill ss cl = true.
Proof. exact frame_wellformed. Qed.
Print Assumptions C09.

(* The same without the length bound: for a non-empty armored payload of ANY length and any fill >= 0, every clause but
   the 80-character limit holds (fragment counts of several digits included); the limit holds up to 540 characters.
   The bound is tight: C09_bound_tight below shows a 541-character payload whose first sentence has 81 characters. *)
Theorem C09_any_length : forall (p talker channel : list Z) (fill : Z),
  (talker = frm_AIVDM \/ talker = frm_AIVDO) -> (channel = [65] \/ channel = [66]) ->
  Forall (fun c => fs_armor_alphabet c = true) p -> (1 <= length p)%nat -> 0 <= fill ->
  exists ss, ais_to_nmea_0183 p talker channel fill = Ok ss /\
             (forall cl : fs_clause, cl <> ClLength -> fs_clause_holds talker channel p fill ss cl = true) /\
             ((length p <= 540)%nat -> fill <= 9 -> fs_clause_holds talker channel p fill ss ClLength = true).
Proof. exact frame_clauses. Qed.
Print Assumptions C09_any_length.

(* Armoring, for ALL bit strings (no length bound): encode_ascii_6 succeeds; the fill bits are the padding needed to
   reach a six-bit boundary; the text is the specification's armoring, over the 64-character alphabet, one character per
   started group of six bits; and de-armoring it with that fill gives the bits back. *)
Theorem C09_armor_roundtrip : forall b : bits, exists p fill,
  encode_ascii_6 b = Ok (p, fill) /\
  Z.of_nat fill = fs_padding_to_six (Z.of_nat (length b)) /\
  p = fs_spec_armor b /\
  Forall (fun c => fs_armor_alphabet c = true) p /\
  Z.of_nat (length p) = (Z.of_nat (length b) + 5) / 6 /\
  decode_into_bit_array p (Z.of_nat fill) = Ok b.
Proof. exact armor_roundtrip. Qed.
Print Assumptions C09_armor_roundtrip.

(* "The sentences taken together are accepted by the decoder": for every bit string of 1..3240 bits (540 characters),
   armoring + framing gives well-formed sentences whose last fragment states the padding, and whose payload fields
   de-armor to the bit string -- both fragment by fragment with each sentence's own fill field, as
   AISSentence.assemble_from_iterable does ([reassemble]), and as one concatenated payload.  (That the decoder's
   sentence parser accepts what [fs_view] reads is the sentence layer's model; here acceptance is the clause list
   plus the de-armoring round trip, and the check runs pyais.decode on the implementation's output.) *)
Theorem C09_frame_roundtrip : forall (b : bits) (talker channel : list Z),
  (talker = frm_AIVDM \/ talker = frm_AIVDO) -> (channel = [65] \/ channel = [66]) -> (1 <= length b <= 3240)%nat ->
  exists p fill ss vs,
    encode_ascii_6 b = Ok (p, fill) /\ p = fs_spec_armor b /\ Forall (fun c => fs_armor_alphabet c = true) p /\
    Z.of_nat fill = fs_padding_to_six (Z.of_nat (length b)) /\
    ais_to_nmea_0183 p talker channel (Z.of_nat fill) = Ok ss /\
    (forall cl : fs_clause, fs_clause_holds talker channel p (Z.of_nat fill) ss cl = true) /\
    fs_views ss = Some vs /\ reassemble vs = Ok b /\
    decode_into_bit_array (concat (map sv_payload vs)) (Z.of_nat fill) = Ok b.
Proof. exact frame_roundtrip. Qed.
Print Assumptions C09_frame_roundtrip.

(* The entry points.  encode_msg(msg, talker, channel) for every message whose to_bitarray() gives 1..3240 bits ... *)
Theorem C09_encode_msg : forall (c : cls) (vs : list value) (b : bits) (talker channel : list Z),
  (talker = frm_AIVDM \/ talker = frm_AIVDO) -> (channel = [65] \/ channel = [66]) ->
  to_bitarray c vs = Ok b -> (1 <= length b <= 3240)%nat ->
  exists p fill ss vws,
    encode_ascii_6 b = Ok (p, fill) /\ p = fs_spec_armor b /\
    Z.of_nat fill = fs_padding_to_six (Z.of_nat (length b)) /\
    encode_msg (c, vs) talker channel = Ok ss /\
    (forall cl : fs_clause, fs_clause_holds talker channel p (Z.of_nat fill) ss cl = true) /\
    fs_views ss = Some vws /\ reassemble vws = Ok b.
Proof. exact encode_msg_wellformed. Qed.
Print Assumptions C09_encode_msg.

(* ... and encode_dict(data, talker, channel) for every dictionary from which get_ais_type finds a type and
   MSG_CLASS[type].create( **data ) builds a message of 1..3240 bits. *)
Theorem C09_encode_dict : forall (data : list (string * value)) (t : Z) (c : cls) (vs : list value) (b : bits)
                                 (talker channel : list Z),
  (talker = frm_AIVDM \/ talker = frm_AIVDO) -> (channel = [65] \/ channel = [66]) ->
  get_ais_type data = Ok t -> create_msg t data = Ok (c, vs) -> to_bitarray c vs = Ok b -> (1 <= length b <= 3240)%nat ->
  exists p fill ss vws,
    encode_ascii_6 b = Ok (p, fill) /\ p = fs_spec_armor b /\
    Z.of_nat fill = fs_padding_to_six (Z.of_nat (length b)) /\
    encode_dict data talker channel = Ok ss /\
    (forall cl : fs_clause, fs_clause_holds talker channel p (Z.of_nat fill) ss cl = true) /\
    fs_views ss = Some vws /\ reassemble vws = Ok b.
Proof. exact encode_dict_wellformed. Qed.
Print Assumptions C09_encode_dict.

(* get_ais_type: `type` wins over `msg_type`; `msg_type` is used when `type` is absent or is text that is no number *)
Theorem C09_type_key : forall (data : list (string * value)) (v : value) (t : Z),
  assoc_s "type" data = Some v -> frm_py_int v = Ok t -> get_ais_type data = Ok t.
Proof. exact get_ais_type_type. Qed.
Print Assumptions C09_type_key.

Theorem C09_msg_type_key : forall (data : list (string * value)) (v : value) (t : Z),
  assoc_s "type" data = None -> assoc_s "msg_type" data = Some v -> frm_py_int v = Ok t -> get_ais_type data = Ok t.
Proof. exact get_ais_type_msg_type. Qed.
Print Assumptions C09_msg_type_key.

Theorem C09_type_key_fallback : forall (data : list (string * value)) (v0 v : value) (t : Z),
  assoc_s "type" data = Some v0 -> frm_py_int v0 = Raise (Py ValueError) ->
  assoc_s "msg_type" data = Some v -> frm_py_int v = Ok t -> get_ais_type data = Ok t.
Proof. exact get_ais_type_fallback. Qed.
Print Assumptions C09_type_key_fallback.

(* argument validation: the entry points accept exactly the two talkers and the two channels (ValueError otherwise);
   ais_to_nmea_0183 itself only checks the two lengths *)
Theorem C09_encode_dict_rejects : forall data (talker channel : list Z),
  ~ ((talker = frm_AIVDM \/ talker = frm_AIVDO) /\ (channel = [65] \/ channel = [66])) ->
  encode_dict data talker channel = Raise (Py ValueError).
Proof. exact encode_dict_bad_args. Qed.
Print Assumptions C09_encode_dict_rejects.

Theorem C09_encode_msg_rejects : forall m (talker channel : list Z),
  ~ ((talker = frm_AIVDM \/ talker = frm_AIVDO) /\ (channel = [65] \/ channel = [66])) ->
  encode_msg m talker channel = Raise (Py ValueError).
Proof. exact encode_msg_bad_args. Qed.
Print Assumptions C09_encode_msg_rejects.

Theorem C09_frame_rejects : forall (p talker channel : list Z) (fill : Z),
  forallb frm_is_ascii p && forallb frm_is_ascii talker && forallb frm_is_ascii channel = true ->
  length talker <> 5%nat \/ length channel <> 1%nat ->
  ais_to_nmea_0183 p talker channel fill = Raise (Py ValueError).
Proof. exact frame_bad_lengths. Qed.
Print Assumptions C09_frame_rejects.

(* non-vacuity: a payload of 61 characters 'w' on channel B with 2 fill bits satisfies the hypotheses of C09 and is
   framed as two sentences, the second of which is  !AIVDM,2,2,0,B,w,2*60 ; and a 168-bit string satisfies the
   hypotheses of the round trip *)
Example C09_nonvacuous :
  let p := repeat 119 61 in
  Forall (fun c => fs_armor_alphabet c = true) p /\ (1 <= length p <= 540)%nat /\
  (exists s1, ais_to_nmea_0183 p frm_AIVDM [66] 2
              = Ok [s1; [33; 65; 73; 86; 68; 77; 44; 50; 44; 50; 44; 48; 44; 66; 44; 119; 44; 50; 42; 54; 48]]
              /\ length s1 = 80%nat) /\
  (1 <= length (repeat true 168) <= 3240)%nat /\
  encode_ascii_6 (repeat true 10) = Ok ([119; 116], 2%nat).
Proof.
  split; [apply Forall_forall; intros x Hx; apply repeat_spec in Hx; subst; reflexivity|].
  split; [vm_compute; split; apply Nat.leb_le; reflexivity|].
  split; [eexists; split; vm_compute; reflexivity|].
  split; [vm_compute; split; apply Nat.leb_le; reflexivity|].
  vm_compute. reflexivity.
Qed.

Example C09_bound_tight :
  exists ss, ais_to_nmea_0183 (repeat 48 541) frm_AIVDM [65] 0 = Ok ss /\
             fs_clause_holds frm_AIVDM [65] (repeat 48 541) 0 ss ClLength = false /\
             length (hd [] ss) = 81%nat.
Proof. eexists. split; [vm_compute; reflexivity|]. split; vm_compute; reflexivity. Qed.

(* The literals of ais_to_nmea_0183 written by hand in Model/Frame.v are the ones the translator reads from
   pyais/encode.py on every run (Gen/GenConst.v): a changed fragment size or template in the source breaks this
   obligation by name. *)
Theorem C09_literals_tied :
  Z.of_nat frm_max_len = ENCODE_MAX_LEN /\ ENCODE_TEMPLATE = "!{},{},{},{},{},{},{}*{:02X}"%string.
Proof. split; reflexivity. Qed.
Print Assumptions C09_literals_tied.

(* ================================================================================================ *)
(* Composition with the decoder (Proofs/EndToEnd.v): the clause "the sentences taken together are accepted by the
   decoder" as a theorem about the decoder MODEL (Model/Nmea.v produce, Model/DecodeApi.v decode_api = pyais.decode)
   instead of about the reading functions of Spec/FrameSpec.v.  Frame.v's strings (lists of character codes) and the
   byte strings of Spec/CarrierSpec.v are both list Z; for the ASCII text the encoder writes, str.encode() is the
   identity on codes, so the sentences are handed to the decoder model as they are. *)
Require Import Model.Sentence Model.Nmea Model.DecodeApi Spec.CarrierSpec Proofs.EndToEnd.

(* What ais_to_nmea_0183 emits is a member of the carrier family of its payload (Spec/CarrierSpec.v, the quantifier of
   C04): for every armored payload of 1..300 characters (at most five fragments of 60 -- the family has at most five
   parts; the longest AIS message has 178 characters), both talkers, both channels, fill 0..5, the sentences are
   "!AIVDM|AIVDO,n,i,seq,chan,chunk_i,fill_i*HH" with one-digit n and i, seq = 0 when n > 1 and empty otherwise, the
   fill on the last fragment only, two hex digits of checksum, no tag block, nothing trailing, in fragment order. *)
Theorem C09_frame_is_carrier : forall (p talker channel : list Z) (fill : nat),
  (talker = frm_AIVDM \/ talker = frm_AIVDO) -> (channel = [65] \/ channel = [66]) ->
  Forall (fun c => fs_armor_alphabet c = true) p -> (1 <= length p <= 300)%nat -> (fill <= 5)%nat ->
  exists ss, ais_to_nmea_0183 p talker channel (Z.of_nat fill) = Ok ss /\ is_carrier p fill ss.
Proof. exact frame_is_carrier. Qed.
Print Assumptions C09_frame_is_carrier.

(* For EVERY bit string of 1..1800 bits: armoring and framing succeed, and pyais.decode( *sentences ) -- parser,
   _assemble_messages, assemble_from_iterable, AISSentence.decode -- returns exactly what the payload decoder makes of
   the bits that were encoded: the decoder accepts the sentences and sees the encoded bits, none lost, none added.
   (If the bits are no decodable message -- an unknown type id, say -- both sides are the same exception.)
   From C09_frame_is_carrier, C04_bits and C09_armor_roundtrip. *)
Theorem C09_accepted_by_decoder : forall (b : bits) (talker channel : list Z),
  (talker = frm_AIVDM \/ talker = frm_AIVDO) -> (channel = [65] \/ channel = [66]) -> (1 <= length b <= 1800)%nat ->
  exists p fill ss,
    encode_ascii_6 b = Ok (p, fill) /\
    ais_to_nmea_0183 p talker channel (Z.of_nat fill) = Ok ss /\
    is_carrier p fill ss /\
    mmap snd (decode_api false ss) = decode_bits b.
Proof. exact accepted_by_decoder. Qed.
Print Assumptions C09_accepted_by_decoder.

(* the entry points: the sentences of encode_msg / encode_dict decode to what decode_bits makes of msg.to_bitarray() *)
Theorem C09_encode_msg_accepted : forall (c : cls) (vs : list value) (b : bits) (talker channel : list Z),
  (talker = frm_AIVDM \/ talker = frm_AIVDO) -> (channel = [65] \/ channel = [66]) ->
  to_bitarray c vs = Ok b -> (1 <= length b <= 1800)%nat ->
  exists ss, encode_msg (c, vs) talker channel = Ok ss /\ mmap snd (decode_api false ss) = decode_bits b.
Proof. exact encode_msg_accepted. Qed.
Print Assumptions C09_encode_msg_accepted.

Theorem C09_encode_dict_accepted : forall (data : list (string * value)) (t : Z) (c : cls) (vs : list value) (b : bits)
                                          (talker channel : list Z),
  (talker = frm_AIVDM \/ talker = frm_AIVDO) -> (channel = [65] \/ channel = [66]) ->
  get_ais_type data = Ok t -> create_msg t data = Ok (c, vs) -> to_bitarray c vs = Ok b -> (1 <= length b <= 1800)%nat ->
  exists ss, encode_dict data talker channel = Ok ss /\ encode_msg (c, vs) talker channel = Ok ss /\
             mmap snd (decode_api false ss) = decode_bits b.
Proof. exact encode_dict_accepted. Qed.
Print Assumptions C09_encode_dict_accepted.

(* The str -> bytes step between the two APIs: encode_dict / encode_msg return str, decode() encodes every str argument
   as UTF-8 first.  Every character the encoder model writes is ASCII, where that encoding is the identity on codes --
   which is why the statements above hand the character lists to the decoder model unchanged. *)
Theorem C09_frame_ascii : forall (p talker channel : list Z) (fill : Z) ss,
  (talker = frm_AIVDM \/ talker = frm_AIVDO) -> (channel = [65] \/ channel = [66]) ->
  Forall (fun c => fs_armor_alphabet c = true) p -> (1 <= length p)%nat ->
  ais_to_nmea_0183 p talker channel fill = Ok ss -> Forall (Forall (fun c => 0 <= c < 128)) ss.
Proof. exact frame_ascii. Qed.
Print Assumptions C09_frame_ascii.

(* non-vacuity: the 424 bits of a real type 5 message (71 characters, 2 fill bits) satisfy the hypotheses; the encoder
   model frames them as two sentences
       !AIVDO,2,1,0,B,538CQ>02A;h?D9QC800pu8@T>0P4l9E8L0000017Ah:;;5r50Ahm5;C0F@V@,0*17
       !AIVDO,2,2,0,B,00000000000,2*25
   which are a carrier of the payload, and the decoder model turns them back into the MessageType5 that the payload
   decoder reads from the bits -- all by vm_compute *)
Definition c09_ex_payload : list Z :=
  [53; 51; 56; 67; 81; 62; 48; 50; 65; 59; 104; 63; 68; 57; 81; 67; 56; 48; 48; 112; 117; 56; 64; 84; 62; 48; 80; 52;
   108; 57; 69; 56; 76; 48; 48; 48; 48; 48; 49; 55; 65; 104; 58; 59; 59; 53; 114; 53; 48; 65; 104; 109; 53; 59; 67; 48;
   70; 64; 86; 64; 48; 48; 48; 48; 48; 48; 48; 48; 48; 48; 48].

Example C09_accepted_nonvacuous : exists b s1 s2 nmea vs,
  decode_into_bit_array c09_ex_payload 2 = Ok b /\ (1 <= length b <= 1800)%nat /\
  encode_ascii_6 b = Ok (c09_ex_payload, 2%nat) /\
  ais_to_nmea_0183 c09_ex_payload frm_AIVDO [66] 2 = Ok [s1; s2] /\
  s2 = [33; 65; 73; 86; 68; 79; 44; 50; 44; 50; 44; 48; 44; 66; 44; 48; 48; 48; 48; 48; 48; 48; 48; 48; 48; 48; 44; 50;
        42; 50; 53] /\
  is_carrier c09_ex_payload 2 [s1; s2] /\
  decode_api false [s1; s2] = Ok (nmea, (MessageType5, vs)) /\ decode_bits b = Ok (MessageType5, vs) /\
  nth 6 vs VNone = VStr [78; 79; 82; 68; 73; 67; 32; 72; 65; 77; 66; 85; 82; 71].       (* shipname = "NORDIC HAMBURG" *)
Proof.
  eexists. eexists. eexists. eexists. eexists.
  split; [vm_compute; reflexivity|]. split; [vm_compute; split; apply Nat.leb_le; reflexivity|].
  split; [vm_compute; reflexivity|]. split; [vm_compute; reflexivity|]. split; [reflexivity|].
  split.
  { destruct (frame_is_carrier c09_ex_payload frm_AIVDO [66] 2) as (ss & Hss & Hc).
    - right; reflexivity.
    - right; reflexivity.
    - apply is_armor_armored. vm_compute. reflexivity.
    - vm_compute. split; apply Nat.leb_le; reflexivity.
    - apply Nat.leb_le. reflexivity.
    - vm_compute in Hss. injection Hss as <-. exact Hc. }
  split; [vm_compute; reflexivity|]. split; vm_compute; reflexivity.
Qed.
