(* C19 -- a filter chain passes exactly the messages that satisfy every filter.
   Statements only; proofs live in Proofs/FilterProofs.v.  Model: Model/Filter.v (pyais/filter.py after the fix:
   commit, statement by statement); specification: Spec/FilterSpec.v (written from the property text).

   PARTIAL ON THE NUMERIC DISTANCE.  Every theorem quantifies over the distance function [dist] (what the code
   computes with libm sin/cos/asin/sqrt in binary64).  What is proved is the chain logic and the decision rule
   around the distance (dist < d strict, grid bounds closed, no position passes, nothing raises -- reading a
   computed attribute that cannot be computed for a message included) for EVERY such function.  That pyais.filter.haversine is the great-circle distance (to 1e-6 km) and that it never raises on
   real arguments is NOT proved: it is tested on every run against an independent 50-digit evaluation
   (tools/props/C19.py, part "numeric", labelled a test).  Hence the name C19_partial. *)
From Coq Require Import ZArith List Bool String Permutation.
Require Import Prim.Exn Prim.Rat Prim.PyObj Model.Filter Spec.FilterSpec Proofs.FilterProofs.
Import ListNotations.
Open Scope Z_scope.

(* The whole property for one distance function: for every non-empty chain (any length, any parameters, any
   user functions, any attribute names -- stored fields, computed attributes, names no message has), every
   reordering of it, every stream whose sentences all decode to messages of the decoded shape ([coords_numeric]:
   lat/lon absent, None or numbers; [attr_reads_ok]: reading an attribute returns a value or -- a computed
   attribute that cannot be computed for this message -- raises TypeError / ValueError; both boolean, both
   evaluated by the harness on every message it decodes) on which no USER function raises:  no filter raises; the chain yields
   the conjunction filter's output and ends normally; that output is an order-preserving subsequence of the
   input which keeps exactly the positions whose message satisfies all criteria; the order of the filters does
   not matter. *)
Definition C19_statement (dist : lat_lon -> lat_lon -> ratio) : Prop :=
  forall (S : Type) (filters filters' : list filter_cfg) (decode : S -> M pymsg) (stream : list S) (xs : list pymsg),
  filters <> [] -> Permutation filters filters' ->
  map decode stream = map Ok xs ->
  forallb coords_numeric xs = true ->
  forallb attr_reads_ok xs = true ->
  user_functions_total filters xs ->
  let out := conj_filter dist (map criterion_of filters) xs in
  chain_total dist filters xs /\
  filter_chain_run dist filters decode stream = Ok (mgen_of_list out) /\
  subseq out xs /\
  exactly_those (crit_satisfies_all dist (map criterion_of filters)) out xs /\
  (forall m, In m out <-> In m xs /\ forall f, In f filters -> crit_satisfies dist (criterion_of f) m = true) /\
  filter_chain_run dist filters' decode stream = filter_chain_run dist filters decode stream.

Theorem C19_partial : forall dist, C19_statement dist.
Proof. exact (fun dist S => @C19_main dist S). Qed.
Print Assumptions C19_partial.

(* chain = filter by the conjunction (unbounded in the chain and in the message list) *)
Theorem C19_chain_is_filter :
  forall dist (S : Type) (filters : list filter_cfg) (decode : S -> M pymsg) (stream : list S) (xs : list pymsg),
  filters <> [] -> map decode stream = map Ok xs -> forallb coords_numeric xs = true ->
  chain_total dist filters xs ->
  filter_chain_run dist filters decode stream = Ok (mgen_of_list (conj_filter dist (map criterion_of filters) xs)).
Proof. exact (fun dist S => @chain_is_filter dist S). Qed.
Print Assumptions C19_chain_is_filter.

(* the order of the filters does not matter *)
Theorem C19_chain_perm :
  forall dist (S : Type) (fs fs' : list filter_cfg) (decode : S -> M pymsg) (stream : list S) (xs : list pymsg),
  fs <> [] -> Permutation fs fs' ->
  map decode stream = map Ok xs -> forallb coords_numeric xs = true -> chain_total dist fs xs ->
  filter_chain_run dist fs decode stream = filter_chain_run dist fs' decode stream.
Proof. exact (fun dist S => @chain_perm dist S). Qed.
Print Assumptions C19_chain_perm.

(* no decodable message makes a built-in filter raise: every message shape, coordinates None included, computed
   attributes that cannot be computed (truncated type 9/18/26: is_sotdma / is_itdma / communication_state_raw raise
   TypeError) included *)
Theorem C19_no_raise :
  forall dist f m, builtin f = true -> coords_numeric m = true -> attr_reads_ok m = true ->
  exists b, filter_keep dist f m = Ok b.
Proof. exact no_raise. Qed.
Print Assumptions C19_no_raise.

(* a chain of built-in filters never raises on decoded messages *)
Theorem C19_builtin_chain_total :
  forall dist fs xs, forallb builtin fs = true -> forallb coords_numeric xs = true -> forallb attr_reads_ok xs = true ->
  chain_total dist fs xs.
Proof. exact builtin_chain_total. Qed.
Print Assumptions C19_builtin_chain_total.

(* messages that report no position pass the geographic filters *)
Theorem C19_geo_pass_without_position :
  forall dist m, reported_position m = None -> coords_numeric m = true ->
  (forall ref d, filter_keep dist (DistanceFilter ref d) m = Ok true) /\
  (forall a b c d, filter_keep dist (GridFilter a b c d) m = Ok true).
Proof. exact geo_pass_without_position. Qed.
Print Assumptions C19_geo_pass_without_position.

(* strictly within the distance *)
Theorem C19_distance_strict :
  forall dist m lat lon ref d, reported_position m = Some (lat, lon) ->
  filter_keep dist (DistanceFilter ref d) m = Ok (ratio_ltb (dist ref (lat, lon)) d).
Proof. exact distance_strict. Qed.
Print Assumptions C19_distance_strict.

(* inside the closed grid *)
Theorem C19_grid_closed :
  forall dist m lat lon a b c d, reported_position m = Some (lat, lon) ->
  filter_keep dist (GridFilter a b c d) m = Ok (ratio_leb a lat && ratio_leb lat c && ratio_leb b lon && ratio_leb lon d).
Proof. exact grid_closed. Qed.
Print Assumptions C19_grid_closed.

(* the exact lazy behaviour for EVERY chain, stream and user function (raising ones, undecodable sentences):
   message by message through the filters in chain order, first exception ends the iteration *)
Theorem C19_lazy_semantics :
  forall dist (S : Type) (filters : list filter_cfg) (decode : S -> M pymsg) (stream : list S),
  filters <> [] ->
  filter_chain_run dist filters decode stream = Ok (mgen_loop (keep_all dist filters) (filter_decode_gen decode stream)).
Proof. exact (fun dist S => @chain_semantics dist S). Qed.
Print Assumptions C19_lazy_semantics.

(* the attribute sets behind [coords_numeric]: in every message class of the regenerated tables lat and lon
   come together and are float fields *)
Theorem C19_latlon_fields :
  forall c, has_field c "lat" = has_field c "lon" /\
  forall f, In f (Gen.GenTables.fields_of c) -> (Model.FieldTypes.f_name f = "lat" \/ Model.FieldTypes.f_name f = "lon")%string ->
            is_float_field f = true.
Proof. exact latlon_float_everywhere. Qed.
Print Assumptions C19_latlon_fields.

(* the unchanged code (before the fix: commit) raised TypeError on a position report cut before its coordinates *)
Theorem C19_unrepaired_raises :
  forall dist ref d a b c e,
  distance_body_unrepaired dist ref d truncated_report = Raise (Py TypeError) /\
  grid_body_unrepaired a b c e truncated_report = Raise (Py TypeError) /\
  filter_keep dist (DistanceFilter ref d) truncated_report = Ok true /\
  filter_keep dist (GridFilter a b c e) truncated_report = Ok true.
Proof. exact unrepaired_raises. Qed.
Print Assumptions C19_unrepaired_raises.

(* ---- computed attributes (Python properties whose getter may raise) ---------------------------------------- *)
(* whenever a filter answers -- on ANY message, whatever its getters raise, for the built-in classes; coordinates of
   the decoded shape for the geographic ones -- the answer is the criterion's *)
Theorem C19_keep_sound :
  forall dist f m b, coords_numeric m = true -> filter_keep dist f m = Ok b ->
  crit_satisfies dist (criterion_of f) m = b.
Proof. exact keep_sound. Qed.
Print Assumptions C19_keep_sound.

(* "listed attributes present and not None": a listed computed attribute that cannot be evaluated for a message is
   not present -- the message is not passed (Spec/FilterSpec.v [present_not_none] says so independently) *)
Theorem C19_unevaluable_attribute_not_passed :
  forall dist m attrs name e b,
  In name attrs -> py_attr_lookup (pm_attrs m) name = Some (Raise e) ->
  filter_keep dist (NoneFilter attrs) m = Ok b -> b = false.
Proof. exact none_unevaluable_not_passed. Qed.
Print Assumptions C19_unevaluable_attribute_not_passed.

(* all() stops at the first listed attribute that is absent or None; a getter listed after it is not reached *)
Theorem C19_none_short_circuit :
  forall m pre a post,
  forallb (present_not_none m) pre = true ->
  (py_attr_lookup (pm_attrs m) a = None \/ py_attr_lookup (pm_attrs m) a = Some (Ok ANone)) ->
  none_all m (pre ++ a :: post) = Ok false.
Proof. exact none_all_short_circuit. Qed.
Print Assumptions C19_none_short_circuit.

(* the limit of the repair: a getter that raises something other than AttributeError / TypeError / ValueError (KeyError,
   say) and is reached still escapes.  Outside the property's scope: no decoded message has one ([attr_reads_ok]). *)
Theorem C19_none_other_exception_escapes :
  forall dist m pre name post e,
  forallb (present_not_none m) pre = true ->
  py_attr_lookup (pm_attrs m) name = Some (Raise e) ->
  catches [HPy AttributeError] e = false -> catches [HPy TypeError; HPy ValueError] e = false ->
  filter_keep dist (NoneFilter (pre ++ name :: post)) m = Raise e.
Proof. exact none_other_exception_escapes. Qed.
Print Assumptions C19_none_other_exception_escapes.

(* the unchanged NoneFilter (before the fix: commit) raised TypeError on a type 18 report cut before its radio field
   for each of is_sotdma / is_itdma / communication_state_raw, unless all() had stopped earlier; the repaired one
   answers "not passed".  The message is of the decoded shape. *)
Theorem C19_nonefilter_unrepaired_raises :
  forall dist,
  let m := filter_truncated_type18 in
  none_body_unrepaired ["is_sotdma"%string] m = Raise (Py TypeError) /\
  none_body_unrepaired ["is_itdma"%string] m = Raise (Py TypeError) /\
  none_body_unrepaired ["communication_state_raw"%string] m = Raise (Py TypeError) /\
  none_body_unrepaired ["mmsi"%string; "is_sotdma"%string] m = Raise (Py TypeError) /\
  none_body_unrepaired ["course"%string; "is_sotdma"%string] m = Ok false /\
  filter_keep dist (NoneFilter ["is_sotdma"%string]) m = Ok false /\
  filter_keep dist (NoneFilter ["is_itdma"%string]) m = Ok false /\
  filter_keep dist (NoneFilter ["communication_state_raw"%string]) m = Ok false /\
  filter_keep dist (NoneFilter ["mmsi"%string; "is_sotdma"%string]) m = Ok false /\
  filter_keep dist (NoneFilter ["mmsi"%string; "MAX_COMM_STATE_VALUE"%string]) m = Ok true /\
  coords_numeric m = true /\ attr_reads_ok m = true /\ attr_reads_total m = false.
Proof. exact nonefilter_unrepaired_raises. Qed.
Print Assumptions C19_nonefilter_unrepaired_raises.

(* ... it was total only on messages none of whose getters raise *)
Theorem C19_nonefilter_unrepaired_total :
  forall m attrs, attr_reads_total m = true -> exists b, none_all_unrepaired m attrs = Ok b.
Proof. exact none_all_unrepaired_total. Qed.
Print Assumptions C19_nonefilter_unrepaired_total.

(* ---- non-vacuity: a concrete chain of all five classes over a concrete list that meets every hypothesis ---- *)
Definition ex_dist (p q : lat_lon) : ratio :=           (* any function will do; this one is |dlat| + |dlon| on integers *)
  mkRatio (Z.abs (ratio_num (fst p) - ratio_num (fst q)) + Z.abs (ratio_num (snd p) - ratio_num (snd q))) 1.
Definition q (z : Z) : ratio := ratio_of_Z z.
Definition ex_msg (t : Z) (lat lon : option aval) (speed : aval) (is_sotdma : M aval) : pymsg :=
  mkPyMsg t (("msg_type"%string, Ok (ANum (q t))) :: ("speed"%string, Ok speed) ::
           (match lon with Some v => [("lon"%string, Ok v)] | None => [] end) ++
           (match lat with Some v => [("lat"%string, Ok v)] | None => [] end) ++
           [("is_sotdma"%string, is_sotdma)]).                       (* a computed attribute *)
Definition yes : M aval := Ok (AOther true).
Definition ex_msgs : list pymsg :=
  [ ex_msg 1 (Some (ANum (q 5))) (Some (ANum (q 5))) (ANum (q 3)) yes;     (* inside everything *)
    ex_msg 1 (Some ANone) (Some ANone) (ANum (q 3)) yes;                   (* truncated: no position, passes geo *)
    ex_msg 1 (Some (ANum (q 10))) (Some (ANum (q 10))) (ANum (q 3)) yes;   (* distance exactly 10: not strictly within *)
    ex_msg 3 (Some (ANum (q 0))) (Some (ANum (q 9))) (ANum (q 3)) (Ok (AOther false));  (* lat 0, on the grid edge lon = 9: inside *)
    ex_msg 5 None None (ANum (q 3)) yes;                                   (* wrong type *)
    ex_msg 3 (Some (ANum (q 1))) (Some (ANum (q 1))) (ANum (q 0)) yes;     (* speed 0 is falsy *)
    ex_msg 3 (Some (ANum (q 1))) (Some (ANum (q 1))) ANone yes;            (* speed None *)
    ex_msg 1 (Some (ANum (q 5))) (Some (ANum (q 5))) (ANum (q 3)) yes;     (* an equal message again *)
    (* a type 18 report cut before its radio field: inside everything, but is_sotdma cannot be computed (TypeError);
       only the NoneFilter keeps it out *)
    ex_msg 18 (Some (ANum (q 5))) (Some (ANum (q 5))) (ANum (q 3)) (Raise (Py TypeError));
    (* the same with a getter raising ValueError *)
    ex_msg 18 (Some (ANum (q 5))) (Some (ANum (q 5))) (ANum (q 3)) (Raise (Py ValueError)) ].
Definition ex_chain : list filter_cfg :=
  [ NoneFilter ["speed"%string; "msg_type"%string; "is_sotdma"%string]; MessageTypeFilter [1; 3; 18];
    DistanceFilter (q 5, q 5) (q 10); GridFilter (q 0) (q 0) (q 9) (q 9);
    AttributeFilter (upred_eval (UTruthy "speed")) ].

Example C19_nonvacuous :
  ex_chain <> [] /\ map (@Ok pymsg) ex_msgs = map Ok ex_msgs /\ forallb coords_numeric ex_msgs = true /\
  forallb attr_reads_ok ex_msgs = true /\ forallb attr_reads_total ex_msgs = false /\
  user_functions_total ex_chain ex_msgs /\
  bind (filter_chain_run ex_dist ex_chain (@Ok pymsg) ex_msgs) mgen_list
  = Ok [nth 0 ex_msgs truncated_report; nth 1 ex_msgs truncated_report; nth 3 ex_msgs truncated_report;
        nth 7 ex_msgs truncated_report] /\
  bind (filter_chain_run ex_dist (rev ex_chain) (@Ok pymsg) ex_msgs) mgen_list
  = bind (filter_chain_run ex_dist ex_chain (@Ok pymsg) ex_msgs) mgen_list /\
  (* without the NoneFilter the two truncated type 18 reports pass: it is that filter, on the computed attribute, that
     keeps them out *)
  bind (filter_chain_run ex_dist (tl ex_chain) (@Ok pymsg) ex_msgs) mgen_list
  = Ok [nth 0 ex_msgs truncated_report; nth 1 ex_msgs truncated_report; nth 3 ex_msgs truncated_report;
        nth 7 ex_msgs truncated_report; nth 8 ex_msgs truncated_report; nth 9 ex_msgs truncated_report].
Proof.
  split; [discriminate|]. split; [reflexivity|]. split; [vm_compute; reflexivity|]. split; [vm_compute; reflexivity|].
  split; [vm_compute; reflexivity|]. split.
  - intros m Hm ff Hf. unfold ex_chain in Hf. simpl in Hf.
    repeat (destruct Hf as [Hf|Hf]; [try discriminate|]); [|contradiction].
    injection Hf as <-. unfold ex_msgs in Hm. simpl in Hm.
    repeat (destruct Hm as [<-|Hm]; [eexists; vm_compute; reflexivity|]). contradiction.
  - repeat split; vm_compute; reflexivity.
Qed.
