(* C01 -- decoding follows the published AIS bit layout for every message type.
   Statements only; the proofs are in Proofs/CodecDecode.v (and Proofs/BitsLemmas.v).

   decode_bits (Model/Codec.v) is the hand-written model of MSG_CLASS[id].from_bitarray(bits) -- class selection,
   the from_bitarray loop, get_int, decode_bin_as_ascii6, bits2bytes, the converters and the attrs-level converters of
   __init__ -- over the tables REGENERATED from pyais on every run (Gen/GenTables, GenDispatch, GenConv, GenEnums).
   spec_variant / spec_decode / nominal / text_pad_zero (Spec/Layout.v) are the independent transcription of
   ITU-R M.1371-5 / gpsd AIVDM.  val_matches (Spec/LayoutRel.v) relates a decoded value to a layout value: equal
   integers / booleans / texts / byte strings, equal fractions, the enumeration member with the raw code wherever the
   standard defines the code (any member of that enumeration otherwise), the rate-of-turn sentinel member. *)
From Coq Require Import ZArith List Bool String.
Require Import Prim.Exn Prim.Bits Gen.GenEnums Model.FieldTypes Gen.GenTables Gen.GenDispatch Model.Codec Spec.Layout Spec.LayoutRel
               Proofs.BitsLemmas Proofs.CodecCommon Proofs.CodecDecode.
Import ListNotations.
Open Scope Z_scope.

(* For every layout variant and EVERY bit string of its nominal length whose own discriminator bits select the variant
   (sub-character padding of text fields zero): decoding succeeds, yields the class of the variant, and every field, in
   layout order and under the layout's name, satisfies the value the layout assigns to the bits at its offset. *)
Theorem C01 : forall v bits,
  List.length bits = nominal v -> spec_variant bits = Some v -> text_pad_zero v bits = true ->
  exists vals,
    decode_bits bits = Ok (cls_of v, vals) /\
    Forall2 val_matches vals (map snd (spec_decode v bits)) /\
    map f_name (fields_of (cls_of v)) = map fst (spec_decode v bits) /\
    class_name (cls_of v) = variant_class v.
Proof. exact C01_decode. Qed.
Print Assumptions C01.

(* The ingredients, each unbounded in the payload: *)

(* the cur/end loop of Payload.from_bitarray, field by field *)
Theorem C01_from_bitarray_char : forall fs b kws i f,
  from_bitarray_loop fs b 0 0 = Ok kws -> nth_error fs i = Some f ->
  let off := widths_before fs i in
  exists kw, nth_error kws i = Some kw /\
    if (List.length b <=? off)%nat then kw = VNone
    else decode_field f (slice b off (Nat.min (List.length b) (off + f_width f))) = Ok kw.
Proof. exact from_bitarray_char_nth. Qed.
Print Assumptions C01_from_bitarray_char.

(* the pad-to-bytes-and-shift reading of from_bitarray / get_int is the plain value of the slice, for every width *)
Theorem C01_int_read_unsigned : forall b, Z.shiftr (from_bytes_u b) (Z.of_nat (pad_len (List.length b))) = uval b.
Proof. exact int_read_unsigned. Qed.
Print Assumptions C01_int_read_unsigned.

Theorem C01_int_read_signed : forall b, Z.shiftr (from_bytes_s b) (Z.of_nat (pad_len (List.length b))) = sval_ b.
Proof. exact int_read_signed. Qed.
Print Assumptions C01_int_read_signed.

(* a model field with the signature its layout kind demands decodes every slice (also a shorter one) without an
   exception and to the layout's value *)
Theorem C01_kind_sem : forall k f bs, sig_ok k f = true -> (List.length bs <= f_width f)%nat ->
  exists kw v, decode_field f bs = Ok kw /\ apply_opt_conv (f_attrs_conv f) kw = Ok v /\
               (pad_ok k bs = true -> val_matches v (spec_value k bs)).
Proof. exact kind_sem. Qed.
Print Assumptions C01_kind_sem.

(* the regenerated field tables have the names, widths, contiguous offsets and signatures of the layout tables *)
Theorem C01_tables_match_spec : forall v, layout_ok (cls_of v) v = true.
Proof. exact tables_match_spec. Qed.
Print Assumptions C01_tables_match_spec.

(* the regenerated MSG_CLASS table and dispatcher trees select the variant spec_variant selects *)
Theorem C01_dispatch_matches_spec : forall b v, spec_variant b = Some v -> (6 <= List.length b)%nat ->
  (disc_end v <= List.length b)%nat ->
  exists dt ct, assoc_z (get_int b 0 6 false) msg_class_table = Some (dt, ct) /\ run_dtree dt b = Ok (cls_of v).
Proof. exact dispatch_matches_spec. Qed.
Print Assumptions C01_dispatch_matches_spec.

(* non-vacuity: two real payloads satisfy the hypotheses, and this is what they decode to *)
Example C01_nonvacuous_type1 : exists bits,
  decode_into_bit_array sample_type1 0 = Ok bits /\
  List.length bits = nominal V1 /\ spec_variant bits = Some V1 /\ text_pad_zero V1 bits = true /\
  decode_bits bits =
    Ok (MessageType1,
        [VInt 1; VInt 0; VInt 366053209; VEnum E_NavigationStatus 3; VFloat 0 1; VFloat 0 1; VBool false;
         VFloat (-122341618) 1000000; VFloat 37802118 1000000; VFloat 2193 10; VInt 1; VInt 59;
         VEnum E_ManeuverIndicator 0; VBytes [0]; VBool false; VInt 2281]).
Proof. eexists. split; [vm_compute; reflexivity|]. vm_compute. repeat split. Qed.

Example C01_nonvacuous_type5 : exists bits,
  decode_into_bit_array sample_type5 2 = Ok bits /\
  List.length bits = nominal V5 /\ spec_variant bits = Some V5 /\ text_pad_zero V5 bits = true /\
  decode_bits bits =
    Ok (MessageType5,
        [VInt 5; VInt 0; VInt 351759000; VInt 0; VInt 9134270; VStr [51; 70; 79; 70; 56];
         VStr [69; 86; 69; 82; 32; 68; 73; 65; 68; 69; 77]; VEnum E_ShipType 70; VInt 225; VInt 70; VInt 1; VInt 31;
         VEnum E_EpfdType 1; VInt 5; VInt 15; VInt 14; VInt 0; VFloat 122 10; VStr [78; 69; 87; 32; 89; 79; 82; 75];
         VBool false; VBytes [0]]).
Proof. eexists. split; [vm_compute; reflexivity|]. vm_compute. repeat split. Qed.
