(* C01 -- decoding follows the published AIS bit layout for every message type.
   Statements only; the proofs are in Proofs/CodecDecode.v (and Proofs/BitsLemmas.v).

   decode_bits (Model/Codec.v) is the hand-written model of MSG_CLASS[id].from_bitarray(bits) -- class selection,
   the from_bitarray loop, get_int, decode_bin_as_ascii6, bits2bytes, the converters and the attrs-level converters of
   __init__ -- over the tables REGENERATED from pyais on every run (Gen/GenTables, GenDispatch, GenConv, GenEnums).
   spec_variant / spec_decode / nominal / text_pad_zero (Spec/Layout.v) are the independent transcription of
   ITU-R M.1371-5 / gpsd AIVDM.  val_matches (Spec/LayoutRel.v) relates a decoded value to a layout value: equal
   integers / booleans / texts / byte strings, equal fractions, the enumeration member with the raw code wherever the
   standard defines the code (any member of that enumeration otherwise), the rate-of-turn sentinel member. *)
From Coq Require Import ZArith List Bool String.
Require Import Prim.Exn Prim.Bits Gen.GenEnums Model.FieldTypes Gen.GenTables Gen.GenDispatch Model.Codec Spec.Layout Spec.LayoutRel
               Proofs.BitsLemmas Proofs.CodecCommon Proofs.CodecDecode.
Import ListNotations.
Open Scope Z_scope.

(* For every layout variant and EVERY bit string of its nominal length whose own discriminator bits select the variant
   (sub-character padding of text fields zero): decoding succeeds, yields the class of the variant, and every field, in
   layout order and under the layout's name, satisfies the value the layout assigns to the bits at its offset. *)
Theorem C01 : forall v bits,
  List.length bits = nominal v -> spec_variant bits = Some v -> text_pad_zero v bits = true ->
  exists vals,
    decode_bits bits = Ok (cls_of v, vals) /\
    Forall2 val_matches vals (map snd (spec_decode v bits)) /\
    map f_name (fields_of (cls_of v)) = map fst (spec_decode v bits) /\
    class_name (cls_of v) = variant_class v.
Proof. exact C01_decode. Qed.
Print Assumptions C01.

(* The ingredients, each unbounded in the payload: *)

(* the cur/end loop of Payload.from_bitarray, field by field *)
Theorem C01_from_bitarray_char : forall fs b kws i f,
  from_bitarray_loop fs b 0 0 = Ok kws -> nth_error fs i = Some f ->
  let off := widths_before fs i in
  exists kw, nth_error kws i = Some kw /\
    if (List.length b <=? off)%nat then kw = VNone
    else decode_field f (slice b off (Nat.min (List.length b) (off + f_width f))) = Ok kw.
Proof. exact from_bitarray_char_nth. Qed.
Print Assumptions C01_from_bitarray_char.

(* the pad-to-bytes-and-shift reading of from_bitarray / get_int is the plain value of the slice, for every width *)
Theorem C01_int_read_unsigned : forall b, Z.shiftr (from_bytes_u b) (Z.of_nat (pad_len (List.length b))) = uval b.
Proof. exact int_read_unsigned. Qed.
Print Assumptions C01_int_read_unsigned.

Theorem C01_int_read_signed : forall b, Z.shiftr (from_bytes_s b) (Z.of_nat (pad_len (List.length b))) = sval_ b.
Proof. exact int_read_signed. Qed.
Print Assumptions C01_int_read_signed.

(* a model field with the signature its layout kind demands decodes every slice (also a shorter one) without an
   exception and to the layout's value *)
Theorem C01_kind_sem : forall k f bs, sig_ok k f = true -> (List.length bs <= f_width f)%nat ->
  exists kw v, decode_field f bs = Ok kw /\ apply_opt_conv (f_attrs_conv f) kw = Ok v /\
               (pad_ok k bs = true -> val_matches v (spec_value k bs)).
Proof. exact kind_sem. Qed.
Print Assumptions C01_kind_sem.

(* the regenerated field tables have the names, widths, contiguous offsets and signatures of the layout tables *)
Theorem C01_tables_match_spec : forall v, layout_ok (cls_of v) v = true.
Proof. exact tables_match_spec. Qed.
Print Assumptions C01_tables_match_spec.

(* the regenerated MSG_CLASS table and dispatcher trees select the variant spec_variant selects *)
Theorem C01_dispatch_matches_spec : forall b v, spec_variant b = Some v -> (6 <= List.length b)%nat ->
  (disc_end v <= List.length b)%nat ->
  exists dt ct, assoc_z (get_int b 0 6 false) msg_class_table = Some (dt, ct) /\ run_dtree dt b = Ok (cls_of v).
Proof. exact dispatch_matches_spec. Qed.
Print Assumptions C01_dispatch_matches_spec.

(* non-vacuity: two real payloads satisfy the hypotheses, and this is what they decode to *)
Example C01_nonvacuous_type1 : exists bits,
  decode_into_bit_array sample_type1 0 = Ok bits /\
  List.length bits = nominal V1 /\ spec_variant bits = Some V1 /\ text_pad_zero V1 bits = true /\
  decode_bits bits =
    Ok (MessageType1,
        [VInt 1; VInt 0; VInt 366053209; VEnum E_NavigationStatus 3; VFloat 0 1; VFloat 0 1; VBool false;
         VFloat (-122341618) 1000000; VFloat 37802118 1000000; VFloat 2193 10; VInt 1; VInt 59;
         VEnum E_ManeuverIndicator 0; VBytes [0]; VBool false; VInt 2281]).
Proof. eexists. split; [vm_compute; reflexivity|]. vm_compute. repeat split. Qed.

Example C01_nonvacuous_type5 : exists bits,
  decode_into_bit_array sample_type5 2 = Ok bits /\
  List.length bits = nominal V5 /\ spec_variant bits = Some V5 /\ text_pad_zero V5 bits = true /\
  decode_bits bits =
    Ok (MessageType5,
        [VInt 5; VInt 0; VInt 351759000; VInt 0; VInt 9134270; VStr [51; 70; 79; 70; 56];
         VStr [69; 86; 69; 82; 32; 68; 73; 65; 68; 69; 77]; VEnum E_ShipType 70; VInt 225; VInt 70; VInt 1; VInt 31;
         VEnum E_EpfdType 1; VInt 5; VInt 15; VInt 14; VInt 0; VFloat 122 10; VStr [78; 69; 87; 32; 89; 79; 82; 75];
         VBool false; VBytes [0]]).
Proof. eexists. split; [vm_compute; reflexivity|]. vm_compute. repeat split. Qed.

(* ================================================================================================ *)
(* Composition with the carrier and the decoder entry point (Proofs/EndToEndC01.v over C04's carrier_vs_bits and the
   armoring round trip): C01 for  pyais.decode( *sentences )  instead of for the payload decoder alone. *)
Require Import Model.Sentence Model.DecodeApi Spec.CarrierSpec Proofs.EndToEndC01.

(* For every layout variant, every bit string of its nominal length whose discriminator bits select the variant (text
   padding zero), and EVERY carrier [ss] of the armoring (p, fill) of those bits -- Spec/CarrierSpec.v: p cut into 1..5
   sentences of at most 200 payload characters, any two-letter talker, VDM/VDO in any letter case, channel A/B/1/2/empty,
   any common sequence id, fill bits on the last sentence, any two hex digits as checksum, optional tag block and
   trailing white space, the sentences in ANY order -- decode( *ss ) succeeds, returns the class of the variant, and every
   field in layout order satisfies the value the ITU layout assigns to the bits at its offset. *)
Theorem C01_through_carrier : forall v bits p fill ss,
  List.length bits = nominal v -> spec_variant bits = Some v -> text_pad_zero v bits = true ->
  encode_ascii_6 bits = Ok (p, fill) -> is_carrier p fill ss ->
  exists nmea vals,
    decode_api false ss = Ok (nmea, (cls_of v, vals)) /\
    Forall2 val_matches vals (map snd (spec_decode v bits)) /\
    map f_name (fields_of (cls_of v)) = map fst (spec_decode v bits) /\
    class_name (cls_of v) = variant_class v.
Proof. exact c01_through_carrier. Qed.
Print Assumptions C01_through_carrier.

(* non-vacuity: the bits of a real type 5 message (424 = nominal V5) satisfy the hypotheses; their armoring is the 71
   characters below with 2 fill bits; the carrier is the one of C04's example -- two parts handed over in REVERSED order,
   talkers AB / BS, "VDO" / "vdm", channels B / 1, wrong checksums, a tag block on one part, CR LF / a blank after them:
       \g:2-2-5*6F\!ABVDO,2,2,7,B,F@V@00000000000,2*5A<CR><LF>
       !BSvdm,2,1,7,1,538CQ>02A;h?D9QC800pu8@T>0P4l9E8L0000017Ah:;;5r50Ahm5;C0,0*00<blank>
   and decode_api returns (by vm_compute) a MessageType5 whose fields are the layout's values *)
Definition c01_ex_p1 : list Z :=
  [53; 51; 56; 67; 81; 62; 48; 50; 65; 59; 104; 63; 68; 57; 81; 67; 56; 48; 48; 112; 117; 56; 64; 84; 62; 48; 80; 52;
   108; 57; 69; 56; 76; 48; 48; 48; 48; 48; 49; 55; 65; 104; 58; 59; 59; 53; 114; 53; 48; 65; 104; 109; 53; 59; 67; 48].
Definition c01_ex_p2 : list Z := [70; 64; 86; 64; 48; 48; 48; 48; 48; 48; 48; 48; 48; 48; 48].
Definition c01_ex_o1 : carrier_opts := mkOpts [66; 83] [118; 100; 109] [49] [48; 48] None [32].
Definition c01_ex_o2 : carrier_opts :=
  mkOpts [65; 66] [86; 68; 79] [66] [53; 65] (Some [103; 58; 50; 45; 50; 45; 53; 42; 54; 70]) [13; 10].
Definition c01_ex_ss : list (list Z) :=
  [sentence_text c01_ex_o2 2 2 (Some 7%nat) c01_ex_p2 2; sentence_text c01_ex_o1 2 1 (Some 7%nat) c01_ex_p1 0].

Example C01_through_carrier_nonvacuous : exists bits nmea vals,
  decode_into_bit_array (c01_ex_p1 ++ c01_ex_p2) 2 = Ok bits /\
  List.length bits = nominal V5 /\ spec_variant bits = Some V5 /\ text_pad_zero V5 bits = true /\
  encode_ascii_6 bits = Ok (c01_ex_p1 ++ c01_ex_p2, 2%nat) /\
  is_carrier (c01_ex_p1 ++ c01_ex_p2) 2 c01_ex_ss /\
  decode_api false c01_ex_ss = Ok (nmea, (MessageType5, vals)) /\
  List.length vals = 21%nat /\ nth 0 vals VNone = VInt 5 /\ nth 2 vals VNone = VInt 210035000 /\
  nth 6 vals VNone = VStr [78; 79; 82; 68; 73; 67; 32; 72; 65; 77; 66; 85; 82; 71].      (* "NORDIC HAMBURG" *)
Proof.
  eexists. eexists. eexists.
  split; [vm_compute; reflexivity|]. split; [vm_compute; reflexivity|]. split; [vm_compute; reflexivity|].
  split; [vm_compute; reflexivity|]. split; [vm_compute; reflexivity|].
  split.
  { apply (Proofs.CarrierProofs.carrier_checkb_sound _ _ [(c01_ex_p1, c01_ex_o1); (c01_ex_p2, c01_ex_o2)] (Some 7%nat)).
    vm_compute. reflexivity. }
  split; [vm_compute; reflexivity|]. repeat split; vm_compute; reflexivity.
Qed.
