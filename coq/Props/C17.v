(* C17 -- tag block groups are delivered complete, once and unmixed.
   Statements only; proofs live in Proofs/TbqProofs.v.  tbq_put / tbq_run = Model/Tbq.v (pyais/stream.py
   TagBlockQueue.put_sentence, fed sentence by sentence); tbqs_groups / tbqs_wf = Spec/TbqSpec.v (spec_groups and WF of
   DESIGN.md section 7).  [uni] is the oracle for int() of non-ASCII digits (Prim/PyText.v): every statement holds for
   all oracles. *)
From Coq Require Import ZArith List Bool.
Require Import Prim.Exn Prim.PyText Model.Sentence Model.TagBlock Model.Tbq Spec.TbqSpec Proofs.TbqProofs.
Import ListNotations.
Open Scope Z_scope.

(* For every sequence of sentences whose tag blocks (where present) parse, of any length, with any number of groups of
   any sizes interleaved in any way that meets the provisos of the property (duplicate-free, the first sentence of a
   group before its others, consistent totals): what the queue hands out after each sentence is exactly what the
   specification demands -- ungrouped sentences and groups of one at once as singletons, every group as one list, in
   arrival order, at the arrival of its last sentence, and nothing else. *)
Theorem C17 : forall (uni : Z -> list Z -> option Z) (ss : list sentence),
  forallb (tb_parses uni) ss = true ->
  tbqs_wf (grp_of uni) ss = true ->
  tbq_run uni ss = tbqs_groups (grp_of uni) ss.
Proof. exact tbq_run_spec. Qed.
Print Assumptions C17.

(* Clause 1 needs no proviso: in every state a sentence without a group, or in a group of one, comes out at once as a
   singleton list and leaves the bookkeeping alone. *)
Theorem C17_passthrough : forall uni st s g,
  tbq_sentence_group uni s = Ok g ->
  match g with None => True | Some (_, t, _) => t = 1 end ->
  tbq_put uni st s = Ok (st, [[s]]).
Proof. exact tbq_put_passthrough. Qed.
Print Assumptions C17_passthrough.

(* Groups with different ids do not affect each other: a step leaves the entry of every other group id alone. *)
Theorem C17_group_independence : forall uni st s g,
  (match grp_of uni s with Some (_, _, gid) => gid <> g | None => True end) ->
  tbq_get (fst (astep uni st s)) g = tbq_get st g.
Proof. exact group_independence. Qed.
Print Assumptions C17_group_independence.

(* One arrival that meets the provisos: the delivery is the specified one and the bookkeeping keeps describing the
   arrival history (per group id: the sentences of the group in progress, in arrival order). *)
Theorem C17_single_group_correct : forall uni rp st s,
  inv uni rp st -> tbqs_arrival_ok (grp_of uni) rp s = true ->
  snd (astep uni st s) = tbqs_step (grp_of uni) rp s /\ inv uni (s :: rp) (fst (astep uni st s)).
Proof. exact single_group_correct. Qed.
Print Assumptions C17_single_group_correct.

(* What the specification (hence, by C17, the queue) guarantees in the words of the property: a delivered list is the
   arriving ungrouped sentence alone or holds sentences of one group id only; a delivered group has as many sentences
   as its total and contains the sentence whose arrival completed it. *)
Theorem C17_unmixed : forall (A : Type) (grp : A -> option (Z * Z * Z)) rp s l,
  In l (tbqs_step grp rp s) -> l = [s] \/ exists g, Forall (fun x => tbqs_member grp g x = true) l.
Proof. exact @tbqs_step_unmixed. Qed.
Print Assumptions C17_unmixed.

Theorem C17_complete : forall (A : Type) (grp : A -> option (Z * Z * Z)) rp s n t g,
  grp s = Some (n, t, g) -> t <> 1 ->
  forall l, In l (tbqs_step grp rp s) -> Z.of_nat (length l) = t /\ In s l.
Proof. exact @tbqs_step_complete. Qed.
Print Assumptions C17_complete.

(* non-vacuity: two interleaved groups (ids 5 and 6), an ungrouped sentence, a group of one and a group id used again
   after completion meet the hypotheses; the queue delivers each group once, complete, at its last sentence *)
Example C17_nonvacuous :
  let s := fun i tb => ex_sentence i tb in
  let ss := [ s 0 None; s 1 (Some (ex_group_tb 1 2 5)); s 2 (Some (ex_group_tb 1 3 6)); s 3 (Some (ex_group_tb 3 3 6));
              s 4 (Some (ex_group_tb 2 2 5)); s 5 (Some (ex_group_tb 1 1 9)); s 6 (Some (ex_group_tb 2 3 6));
              s 7 (Some (ex_group_tb 1 2 5)); s 8 (Some (ex_group_tb 2 2 5)) ] in
  forallb (tb_parses ex_uni) ss = true /\ tbqs_wf (grp_of ex_uni) ss = true /\
  tbq_run ex_uni ss =
    [ [[s 0 None]]; []; []; []; [[s 1 (Some (ex_group_tb 1 2 5)); s 4 (Some (ex_group_tb 2 2 5))]];
      [[s 5 (Some (ex_group_tb 1 1 9))]];
      [[s 2 (Some (ex_group_tb 1 3 6)); s 3 (Some (ex_group_tb 3 3 6)); s 6 (Some (ex_group_tb 2 3 6))]];
      []; [[s 7 (Some (ex_group_tb 1 2 5)); s 8 (Some (ex_group_tb 2 2 5))]] ].
Proof. vm_compute. repeat split. Qed.
